"""C12 workload: purpose-built template generators (full built-in + Shopify tag set,
every expression form, every whitespace-control combination).

Two sources:
  * `unit_cases()` — a deterministic enumeration of tiny templates: every primitive form at
    every expression site, filter argument shapes, Boolean expression trees, every
    whitespace-control combination on every markup kind, every tag option subset.  Tiny
    templates carry at most one construct each, so one `__str__` defect cannot mask another.
  * `Gen(rng).template()` — seeded random composition, depth bounded, so constructs meet.

Everything emitted is *intended* to be valid Liquid2; the property module counts sources the
real parser rejects (`gen_rejected`) and never uses them as cases.
"""

from __future__ import annotations

import itertools
import random
from typing import Any
from typing import Iterator

# ---------------------------------------------------------------------------
# data
# ---------------------------------------------------------------------------

# Keys whose text contains a backslash followed by an escape-like letter, next to the "decoy"
# key that unescaping that text a second time would produce: a lookup that changes, changes
# the output.
BACKSLASH_KEYS: dict[str, Any] = {
    "C:\\temp\\new": "exact-path", "C:\temp\new": "decoy-path",
    "a\\tb": "exact-tab", "a\tb": "decoy-tab",
    "x\\qy": "exact-q",
    "k\\n": "b", "k\n": "x",
    "u\\u0041": "exact-u", "uA": "decoy-u",
    "q\\\\n": "exact-2bs", "q\\n": "decoy-2bs",
}

# Characters Python calls non-printable (a serialiser may want to escape them): astral format /
# tag / private-use / unassigned code points, BMP invisibles, C1 controls, noncharacters and
# lone surrogates.  All are accepted raw by the lexer.
INVISIBLES: dict[str, str] = {
    "tag-flag": "\U0001F3F4\U000E0067\U000E0062\U000E0065\U000E006E\U000E0067\U000E007F",
    "lang-tag": "a\U000E0001b\U000E0020", "pua-15": "\U000F0000", "pua-16": "x\U0010FFFD",
    "music-format": "\U0001D173x\U0001D17A", "variation-selector": "v\U000E0100", "unassigned": "u\U00050000",
    "zero-width": "z\u200b\u200c\u200d\u200e\u200f", "bidi": "\u202a\u202b\u202c\u202d\u202e",
    "word-joiner": "\u2060\u2061\u2064\ufeff", "soft-hyphen": "s\u00ad\u061c\u180e",
    "line-sep": "l\u2028\u2029\u0085", "c1": "\u0080\u009f\u007f", "nonchar": "n\ufffe\uffff",
    "surrogate-hi": "\ud800", "surrogate-lo": "\udfff x",
}


def _misparse(s: str) -> str:
    """What `\\u` + 5 or 6 hex digits would be read back as: 4 digits + literal digits."""
    out = []
    for ch in s:
        if ord(ch) > 0xFFFF:
            h = f"{ord(ch):04x}"
            out.append(chr(int(h[:4], 16)) + h[4:])
        else:
            out.append(ch)
    return "".join(out)


INVISIBLE_KEYS: dict[str, Any] = {}
for _c in [*range(0x00, 0x20), 0x7F, *range(0x80, 0xA0)]:
    INVISIBLE_KEYS["k" + chr(_c)] = f"ctl-{_c:02x}"
    INVISIBLE_KEYS[chr(_c)] = {"x": f"ctl-only-{_c:02x}"}
for _n, _v in INVISIBLES.items():
    INVISIBLE_KEYS["k" + _v] = "found-" + _n
    if _misparse(_v) != _v:
        INVISIBLE_KEYS["k" + _misparse(_v)] = "decoy-" + _n

# Word-like keys with control / whitespace characters at their edges, next to the plain word.
EDGE_WS: dict[str, str] = {"nl": "\n", "cr": "\r", "tab": "\t", "vt": "\x0b", "ff": "\x0c", "nel": "\x85",
                           "ls": "\u2028", "nlnl": "\n\n", "crlf": "\r\n", "sp": " "}
EDGE_KEYS: dict[str, Any] = {"name": "plain-name", "mid": {"x": "mid-plain", "name": "mid-plain-name"}}
for _n, _w in EDGE_WS.items():
    EDGE_KEYS["name" + _w] = "trail-" + _n
    EDGE_KEYS[_w + "name"] = "lead-" + _n
    EDGE_KEYS["mid" + _w] = {"x": "mid-trail-" + _n, "name" + _w: "mid-both-" + _n}
# Values reserved words resolve to when they are used as variable names inside a nested path.
RESERVED_VARS: dict[str, Any] = {
    "for": "b", "true": "x", "false": "k", "nil": "first", "null": "x", "empty": "b", "blank": "x", "with": "k",
    "as": "b", "if": "x", "else": "b", "or": "k", "not": "x", "in": "b", "contains": "first", "required": "x",
}

DATA_A: dict[str, Any] = {
    "a": {"b c": {"d": [{"e": 1}, {"e": 2}]}, "b": [1, 2, 3], "x": "xx", "k": "b", "first": "F",
          **BACKSLASH_KEYS, **INVISIBLE_KEYS, **EDGE_KEYS},
    **RESERVED_VARS,
    "name": "root-plain", "name\n": "root-nl", "name\r": "root-cr", "\nname": "root-lead-nl", "name\x85": "root-nel",
    **{"r" + v: "root-" + n for n, v in INVISIBLES.items() if n in ("lang-tag", "zero-width")},
    "C:\\temp\\new": "exact-root", "C:\temp\new": "decoy-root",
    "a b": "AB",
    "e": {"f": 0, "g": "b", **BACKSLASH_KEYS},
    "items": [{"x": 1, "t": "one", "f": True}, {"x": 2, "t": "two", "f": False}, {"x": 3, "t": "three"}],
    "s": "hello", "u": "World Wide", "n": 3, "m": 0, "t": True, "f": False, "z": None,
    "arr": [1, 2, 3, 4, 5, 6], "words": ["b", "a", "c", "a"], "é": "accent", "tpl": "p",
    "fl": 2.5, "x": "X", "y": "Y", "a-b": "dash", "and": "AND", "h": "<i>&\"'</i>",
    # variables whose names are words the serialiser also prints bare
    "continue": 2, "limit": [9, 8], "offset": 1, "reversed": [7], "cols": 2, "inf": "INFVAR", "my": "MY",
}
DATA_B: dict[str, Any] = {
    "a": {"b c": {"d": []}, "b": [], "x": "", "k": "x"},
    "a b": "",
    "e": {"f": 5, "g": "x"},
    "items": [],
    "s": "", "u": " ", "n": 0, "m": 7, "t": False, "f": True, "z": 1,
    "arr": [], "words": [], "é": None, "tpl": "q.html", "fl": -1.0, "x": None, "y": False,
}
DATA_C: dict[str, Any] = {}

_POOL = [None, True, False, 0, 1, 2, 3, -1, 2.5, "", " ", "hello", "b", "a", "3", [], [1, 2, 3],
         ["a", "b"], [3, 1, 2], {"b": [9], "x": 1, "k": "b"}, {}]


def random_data(rng: random.Random) -> dict[str, Any]:
    d: dict[str, Any] = {}
    for k in ("s", "u", "n", "m", "t", "f", "z", "arr", "words", "x", "y", "fl", "é"):
        if rng.random() < 0.85:
            d[k] = rng.choice(_POOL)
    for k in ("t", "f", "z"):
        if rng.random() < 0.7:
            d[k] = rng.choice([True, False, None, 0, ""])
    d["n"] = rng.choice([0, 1, 2, 3, 4, None, "3"])
    d["a"] = rng.choice([DATA_A["a"], DATA_A["a"], DATA_B["a"],
                         {"b": [3, 2, 1], "k": "b", "x": 1, **BACKSLASH_KEYS, **INVISIBLE_KEYS, **EDGE_KEYS},
                         None, "str"])
    d["e"] = rng.choice([DATA_A["e"], DATA_B["e"], {"f": 1, "g": "k", **BACKSLASH_KEYS}, None])
    d["items"] = rng.choice([DATA_A["items"], [], [{"x": 2, "t": "b"}, {"x": 2, "t": "a", "f": 1}], None])
    if rng.random() < 0.5:
        d["a b"] = rng.choice(["ab", 1, None])
    return d


def datasets(rng: random.Random) -> list[dict[str, Any]]:
    return [DATA_A, DATA_B, DATA_C, random_data(rng), random_data(rng)]


PARTIALS: dict[str, str] = {
    "p": "[{{ x }}|{{ p }}|{{ y }}]",
    "q.html": "({{ q }}{{ forloop.index }}{{ x }})",
    "loop": "{% for i in (1..2) %}{{ i }}{{ x }}{% endfor %}",
    "inc": "{% increment cnt %}{% assign leaked = 'L' %}{{ x | upcase }}",
    "mac": "{% macro pm a, b: 1 %}<{{ a }}{{ b }}>{% endmacro %}",
    "base": ("B[{% block b1 %}base1{% endblock %}|{% block b2 %}base2 {{ s }}{% endblock b2 %}|"
             "{% block b3 %}{% endblock %}]E"),
    "mid": "{% extends 'base' %}{% block b1 %}mid({{ block.super }}){% endblock b1 %}",
    "reqbase": "R[{% block rq required %}{% endblock %}]",
    "cyc": "{% cycle 'x', 'y' %}{% cycle 'g': 1, 2 %}{% cycle s, n %}",
    "cyc2": "{% cycle \"x\", \"\\u0079\" %}{% cycle g: 1e0, 2 %}{% cycle ['s'], n, %}",
}

# ---------------------------------------------------------------------------
# primitives (source text, feature label, kinds)
# kinds: any | num (usable as limit/offset/cols) | rng (usable as a range bound)
#        | iter (sensible loop iterable) | name (string usable where a template name goes)
# ---------------------------------------------------------------------------

PRIMS: list[tuple[str, str, str]] = [
    ("nil", "lit-nil", "any"), ("null", "lit-null", "any"),
    ("true", "lit-true", "any"), ("false", "lit-false", "any"),
    ("empty", "lit-empty", "any"), ("blank", "lit-blank", "any"),
    ("0", "int", "any num rng"), ("7", "int", "any num rng"), ("-3", "int-neg", "any num rng"),
    ("2", "int", "any num rng"),
    ("1e2", "int-sci", "any num"), ("12E+1", "int-sci-plus", "any num"),
    ("1.5", "float", "any"), ("-0.25", "float-neg", "any"), ("3.0", "float-int-valued", "any"),
    ("1.5e3", "float-sci", "any"), ("2e-2", "float-sci-neg-exp", "any"),
    ("1.0e-7", "float-small", "any"), ("1.0e20", "float-big", "any"),
    ("0.000001", "float-small-plain", "any"), ("123456789012345678", "int-big", "any"),
    ("'abc'", "str-single", "any"), ('"abc"', "str-double", "any"),
    ("''", "str-empty", "any"), ('""', "str-empty-double", "any"),
    ("'a b'", "str-space", "any"), ("'3'", "str-digit", "any rng"), ('"2"', "str-digit", "any rng"),
    (r"'a\nb'", "str-esc-newline", "any"), (r'"a\"b"', "str-esc-dquote", "any"),
    (r"'it\'s'", "str-esc-squote", "any"), ("'a\"b'", "str-other-quote", "any"),
    ('"a\'b"', "str-other-quote", "any"), (r"""'both \' and "'""", "str-both-quotes", "any"),
    ("'é'", "str-unicode", "any"), (r"'\u00e9\u263A'", "str-esc-unicode", "any"),
    (r"'\ud83d\ude00'", "str-esc-surrogates", "any"),
    (r"'a\${b'", "str-esc-dollar-brace", "any"), (r'"\${x}"', "str-esc-dollar-brace", "any"),
    (r"'back\\slash'", "str-esc-backslash", "any"), (r"'tab\there'", "str-esc-tab", "any"),
    (r"'sl\/ash'", "str-esc-slash", "any"), (r"'x\b\f\r'", "str-esc-control", "any"),
    ("'<b>&'", "str-html", "any"), ("'}} %}'", "str-closers", "any"),
    ("'$ { $x'", "str-dollar", "any"), ("'{{ x }}'", "str-markup", "any"),
    ("'p'", "str-name", "any name"), ('"q.html"', "str-name", "any name"),
    ("s", "word", "any"), ("n", "word", "any num rng"), ("arr", "word", "any iter"),
    ("z", "word", "any"), ("é", "word-unicode", "any"), ("a-b", "word-dash", "any"),
    ("nosuch", "word-undefined", "any"), ("tpl", "word", "any name"),
    ("a.b", "path-dot", "any iter"), ("a.b[0]", "path-index", "any num rng"),
    ("a.b[-1]", "path-neg-index", "any num rng"),
    ("a['b']", "path-quoted-ident", "any iter"), ('a["b c"].d', "path-quoted-space", "any iter"),
    ('a["b c"].d[0][e.f]', "path-nested", "any"), ("a[e.g]", "path-nested", "any iter"),
    ("a[a.k][1]", "path-nested", "any num"), ("a[e['g']]", "path-nested-quoted", "any"),
    ('["a b"]', "path-bracketed-root", "any"), ("['s']", "path-bracketed-root-ident", "any"),
    ("['a'].b", "path-bracketed-root-ident", "any iter"), ("['and']", "path-bracketed-root-keyword", "any"),
    ("a. x", "path-space-after-dot", "any"), ("a[ 'x' ]", "path-space-in-brackets", "any"),
    ("items[0].t", "path-mixed", "any"), ("items.first.x", "path-first", "any num"),
    ("arr.size", "path-size", "any num rng"), ("a.first", "path-first-key", "any"),
    (r"a['it\'s']", "path-quoted-escape", "any"), (r'a["x\ny"]', "path-quoted-escape", "any"),
    ("a['é']", "path-quoted-unicode", "any"), ("a['1']", "path-quoted-digit", "any"),
    ("a['']", "path-quoted-empty", "any"), ("a['a-b']", "path-quoted-dash", "any"),
    ("(1..3)", "range-int", "any iter"), ("(n..5)", "range-var", "any iter"),
    ("(1..a.b[2])", "range-path", "any iter"), ("('1'..'3')", "range-str", "any iter"),
    ("( 1 .. 4 )", "range-spaces", "any iter"), ("(-1..1)", "range-neg", "any iter"),
    ("(3..1)", "range-empty", "any iter"), ("(arr.size..7)", "range-path-start", "any iter"),
    ("'a${s}c'", "tstr", "any"), ("'a${s | upcase}c'", "tstr-filter", "any"),
    ('"x${n}y${ t }"', "tstr-double", "any"), ("'${s}'", "tstr-only", "any"),
    ("'a${ 'n${n}' }'", "tstr-nested", "any"), ('"${ "q" | append: \'r\' }"', "tstr-nested-quotes", "any"),
    (r"'\'${s}\''", "tstr-escaped-quotes", "any"), (r'''"\"${s}\"'"''', "tstr-escaped-quotes", "any"), (r"'a\n${n}\${x}'", "tstr-escapes", "any"),
    ("'${s | slice: 1, 2}'", "tstr-multi-arg-filter", "any"), ("'${nil}|${a[\"b c\"].d[0].e}'", "tstr-nil-path", "any"),
    ("'${ s if t else n }'", "tstr-ternary", "any"),
    ("1.0e999", "float-overflow", "any"), ("-1.0e999", "float-overflow-neg", "any"),
    ("['continue']", "path-bracketed-root-loop-keyword", "any num"), ("['limit']", "path-bracketed-root-loop-keyword", "any iter"),
    ("['reversed']", "path-bracketed-root-loop-keyword", "any iter"), ("['offset']", "path-bracketed-root-loop-keyword", "any num"),
    ("['cols']", "path-bracketed-root-loop-keyword", "any num"), ("['inf']", "path-bracketed-root-ident", "any"),
    # template strings whose literal segments mix the quote kinds (one segment has only ', another
    # only "), both outer quote styles, with backslashes and ${-lookalikes in the segments
    (r'''"it's ${s} saying \"hi\""''', "tstr-mixed-quotes-dq", "any"),
    (r"""'it\'s ${s} saying "hi"'""", "tstr-mixed-quotes-sq", "any"),
    (r'''"'${s}\""''', "tstr-mixed-quotes-dq", "any"), (r"""'\'${s}"'""", "tstr-mixed-quotes-sq", "any"),
    (r'''"a'b${n}c\"d${s}e"''', "tstr-mixed-quotes-dq", "any"), (r"""'a\'b${n}c"d${s}e'""", "tstr-mixed-quotes-sq", "any"),
    (r'''"\"${n}' and '${s}\" ${t}'"''', "tstr-mixed-quotes-dq", "any"),
    (r'''"it's \\ ${s} \"q\" \\n \${z} $ {z}"''', "tstr-mixed-quotes-backslash", "any"),
    (r"""'x\'${n}\\"y"${s | upcase}\${z}\'\\\''""", "tstr-mixed-quotes-backslash", "any"),
    (r'''"'${ "in'ner" }\"${ 'in"ner' }'"''', "tstr-mixed-quotes-nested", "any"),
    (r'''"${s}'${n}\"${t}"''', "tstr-mixed-quotes-adjacent", "any"),
    # quoted path segments whose unescaped text holds a backslash before an escape-like letter
    (r"a['C:\\temp\\new']", "path-backslash-segment", "any"), (r'a["a\\tb"]', "path-backslash-segment", "any"),
    (r"a['x\\qy']", "path-backslash-not-an-escape", "any"), (r"a[e['k\\n']]", "path-backslash-nested", "any"),
    (r"['C:\\temp\\new']", "path-backslash-root", "any"), (r"a['u\\u0041']", "path-backslash-unicode", "any"),
    (r"a['q\\\\n']", "path-double-backslash", "any"), (r"e['k\\n']", "path-backslash-segment", "any iter"),
    (r"'C:\\temp\\new'", "str-backslash-escape-like", "any"), (r"a[ 'a\\tb' ].size", "path-backslash-segment", "any num"),
]

for _n, _v in INVISIBLES.items():
    _q = '"' if _n in ("pua-15", "bidi", "c1") else "'"
    PRIMS.append((f"{_q}x{_v}y{_q}", f"str-invisible-{_n}", "any"))
    PRIMS.append((f"a[{_q}k{_v}{_q}]", f"path-invisible-{_n}", "any"))
PRIMS.append(("'p${s}" + INVISIBLES["tag-flag"] + "q${n}" + INVISIBLES["zero-width"] + "'", "tstr-invisible", "any"))
PRIMS.append(('"' + INVISIBLES["pua-16"] + "${s}'" + INVISIBLES["surrogate-hi"] + '"', "tstr-invisible", "any"))
PRIMS.append(("['r" + INVISIBLES["lang-tag"] + "']", "path-invisible-root", "any"))
PRIMS.append(('["r' + INVISIBLES["zero-width"] + '"].size', "path-invisible-root", "any num"))

_ESC = {"\n": "\\n", "\r": "\\r", "\t": "\\t", "\x0c": "\\f"}
for _n, _w in EDGE_WS.items():
    _raw = _w
    _esc = "".join(_ESC.get(c, c) for c in _w)
    PRIMS.append((f"a['name{_esc}']", f"path-edge-ws-trailing-{_n}", "any"))
    PRIMS.append((f'a["{_esc}name"]', f"path-edge-ws-leading-{_n}", "any"))
    PRIMS.append((f"a['mid{_esc}'].x", f"path-edge-ws-middle-{_n}", "any"))
    if _n in ("nl", "cr", "nel", "ls", "tab"):
        PRIMS.append((f"a['mid{_esc}'][\"name{_esc}\"]", f"path-edge-ws-middle-and-last-{_n}", "any"))
    if _raw != _esc and _n in ("nl", "tab", "crlf"):
        PRIMS.append((f"a['name{_raw}']", f"path-edge-ws-trailing-raw-{_n}", "any"))
for _n in ("nl", "cr", "nel"):
    _esc = "".join(_ESC.get(c, c) for c in EDGE_WS[_n])
    PRIMS.append((f"['name{_esc}']", f"path-edge-ws-root-{_n}", "any"))
    PRIMS.append((f"'name{_esc}'", f"str-edge-ws-{_n}", "any"))
PRIMS.append((r'["\nname"]', "path-edge-ws-root-leading", "any"))
# nested (bracketed) paths whose root or later segments are reserved words
for _w in RESERVED_VARS:
    PRIMS.append((f"a[{_w}]", "path-nested-reserved-root", "any"))
for _p, _f, _k in (
    ("items[offset].t", "path-nested-loop-keyword", "any"), ("arr[continue]", "path-nested-loop-keyword", "any num rng"),
    ("a.b[cols]", "path-nested-loop-keyword", "any num rng"), ("a[limit.z]", "path-nested-loop-keyword-dotted", "any"),
    ("a[a[for]]", "path-nested-reserved-twice", "any"), ("a[e[with]]", "path-nested-reserved-twice", "any"),
    ("arr[reversed[0]]", "path-nested-loop-keyword-index", "any"), ("a[a.k][offset]", "path-nested-loop-keyword-last", "any num"),
    ("a[for].size", "path-nested-reserved-then-dot", "any num"), ("a[and]", "path-nested-reserved-root", "any"),
    ("a[x.if]", "path-nested-reserved-later-segment", "any"), ("a[e['with']]", "path-nested-reserved-quoted", "any"),
):
    PRIMS.append((_p, _f, _k))

# the ROOT segment itself is a bracketed nested path (seed c12-10A): `[true]` looks up the variable named by
# the value of the variable `true`; the serialiser has a separate branch for a Path in root position
for _w in RESERVED_VARS:
    PRIMS.append((f"[{_w}]", "path-root-nested-reserved", "any"))
for _p, _f, _k in (
    ("[a.k]", "path-root-nested", "any"), ("[a.k].size", "path-root-nested-then-dot", "any num"),
    ("[e.g][0]", "path-root-nested-then-index", "any"), ("[nil].size", "path-root-nested-reserved-then-dot", "any num"),
    ("[e[with]]", "path-root-nested-reserved-twice", "any"), ("[[true]]", "path-root-nested-reserved-twice", "any"),
    ("[a[for]]", "path-root-nested-reserved-twice", "any"), ("a[[true]]", "path-nested-root-nested-reserved", "any"),
    ("[x.if]", "path-root-nested-reserved-later-segment", "any"),
):
    PRIMS.append((_p, _f, _k))

_NOT_IN_LIQUID_LINE: set[str] = set()  # primitives containing a literal newline (none above)


def prims(kind: str = "any") -> list[tuple[str, str]]:
    return [(p, f) for p, f, k in PRIMS if kind in k.split()]


# expression sites: {} is replaced by a primitive
SITES_ANY: list[tuple[str, str]] = [
    ("{{ {} }}", "output"),
    ("{% echo {} %}", "echo"),
    ("{% assign v = {} %}[{{ v }}]", "assign"),
    ("{% liquid echo {} %}", "liquid-echo"),
    ("{% liquid\n  assign v = {}\n  echo v\n%}", "liquid-assign"),
    ("{{ z | default: {} }}", "filter-arg"),
    ("{{ s | append: {} | size }}", "filter-arg-chained"),
    ("{{ f | default: {}, allow_false: true }}", "filter-arg-then-kw"),
    ("{{ s | replace: 'l', {} }}", "filter-second-arg"),
    ("{{ 'hi %(v)s' | t: v: {} }}", "filter-kwarg"),
    ("{{ 'hi %(v)s' | t: v = {}, w: 1 }}", "filter-kwarg-eq"),
    ("{{ {} | json }}", "filter-left"),
    ("{{ {} | default: 'd' | upcase }}", "filter-left-chain"),
    ("{% if {} %}T{% else %}F{% endif %}", "if"),
    ("{% if {} == s %}T{% else %}F{% endif %}", "if-eq-left"),
    ("{% if n != {} %}T{% else %}F{% endif %}", "if-ne-right"),
    ("{% if arr contains {} %}T{% else %}F{% endif %}", "if-contains"),
    ("{% if {} in arr %}T{% else %}F{% endif %}", "if-in"),
    ("{% if t and {} or f %}T{% else %}F{% endif %}", "if-logical"),
    ("{% if not {} %}T{% else %}F{% endif %}", "if-not"),
    ("{% unless {} %}T{% else %}F{% endunless %}", "unless"),
    ("{% if f %}{% elsif {} %}E{% else %}F{% endif %}", "elsif"),
    ("{{ 'T' if {} else 'F' }}", "ternary-cond"),
    ("{{ s if f else {} }}", "ternary-alt"),
    ("{{ s if f else {} | json || append: '!' }}", "ternary-alt-filters"),
    ("{{ {} if t }}", "ternary-left"),
    ("{{ {} | json if t else n }}", "ternary-left-filtered"),
    ("{% case {} %}{% when 3 %}a{% when 'abc', nil %}b{% else %}c{% endcase %}", "case"),
    ("{% case n %}{% when {} %}a{% when 1, {} %}b{% else %}c{% endcase %}", "when"),
    ("{% case s %}{% when 'x' or {} %}a{% endcase %}", "when-or"),
    ("{% for i in {} %}{{ i }},{% else %}E{% endfor %}", "for-iter"),
    ("{% cycle {}, 'b' %}{% cycle {}, 'b' %}", "cycle-item"),
    ("{% cycle 'g': 'a', {} %}{% cycle 'g': 'a', {} %}", "cycle-named-item"),
    ("{% include 'p' with {} %}", "include-with"),
    ("{% include 'p' with {} as x %}", "include-with-as"),
    ("{% include 'p' for {} as x %}", "include-for-as"),
    ("{% include 'p', y: {} %}", "include-kwarg"),
    ("{% render 'p' with {} as x %}", "render-with-as"),
    ("{% render 'p' for {} as x %}", "render-for-as"),
    ("{% render 'q.html' for {} %}", "render-for"),
    ("{% render 'p', x: {}, y = {} %}", "render-kwarg"),
    ("{% with v: {} %}[{{ v }}]{% endwith %}", "with-arg"),
    ("{% macro m a: {} %}[{{ a }}]{% endmacro %}{% call m %}", "macro-default"),
    ("{% macro m a, b %}[{{ a }}{{ b }}]{% endmacro %}{% call m {}, b: {} %}", "call-args"),
    ("{% translate v: {} %}x {{ v }}{% endtranslate %}", "translate-arg"),
    ("{{ 'a${ {} }b' }}", "tstr-interp"),
    ('{{ "a${{} | json}b" }}', "tstr-interp-filter"),
    ("{{ items | where: i => i.x == {} | size }}", "lambda-body-cmp"),
    ("{{ items | reject: i => {} | size }}", "lambda-body"),
    ("{{ items | find: (i, j) => {} | json }}", "lambda2-body"),
    ("{% tablerow i in {} %}{{ i }}{% endtablerow %}", "tablerow-iter"),
    ("{{ {}, {} | join: '-' }}", "array-literal"),
    ("{% for i in {}, 2 %}{{ i }}{% endfor %}", "for-array-literal"),
    ("{% for i in 2, {} %}{{ i }};{% endfor %}", "for-array-literal-second"),
    ("{% liquid\nfor i in 2, {}\n  echo i\nendfor %}", "liquid-for-array-literal"),
    ("{% liquid\nfor i in {}\n  echo i\n  echo ';'\nendfor\n%}", "liquid-for-iter"),
    ("{% liquid\n  if {} == s or {}\n    echo 'T'\n  else\n    echo 'F'\n  endif\n%}", "liquid-if"),
    ("{% liquid\ncycle {}, 'b'\ncycle {}, 'b'\n%}", "liquid-cycle"),
    ("{% liquid\ncase {}\nwhen 3, {}\n  echo 'a'\nelse\n  echo 'b'\nendcase %}", "liquid-case-when"),
    ("{% liquid\nrender 'p', x: {}\ninclude 'p' with {} as y\n%}", "liquid-render-include"),
    ("{% liquid\necho s | append: {} | size\nassign v = z | default: {}, allow_false: true\necho v %}", "liquid-filter-arg"),
    # single-element array literals (a trailing comma is what makes them arrays)
    ("{{ {}, | json }}", "array-literal-single"),
    ("{% assign v = {}, %}[{{ v | first }}|{{ v | size }}]", "assign-array-literal-single"),
    ("{% for i in {}, %}{{ i }};{% endfor %}", "for-array-literal-single"),
    ("{% echo {}, | join: '+' %}", "echo-array-literal-single"),
]
SITES_NUM: list[tuple[str, str]] = [
    ("{% for i in arr limit: {} %}{{ i }}{% endfor %}", "for-limit"),
    ("{% for i in arr offset: {} %}{{ i }}{% endfor %}", "for-offset"),
    ("{% for i in arr reversed limit: {} offset: {} %}{{ i }}{% endfor %}", "for-limit-offset-reversed"),
    ("{% tablerow i in arr cols: {} %}{{ i }}{% endtablerow %}", "tablerow-cols"),
    ("{% tablerow i in arr limit: {} offset: {} %}{{ i }}{% endtablerow %}", "tablerow-limit-offset"),
    ("{% liquid\nfor i in arr offset: {} limit: {}\n  echo i\nendfor %}", "liquid-for-limit-offset"),
    ("{% liquid\ntablerow i in arr cols: {}\n  echo i\nendtablerow %}", "liquid-tablerow-cols"),
    ("{{ s | slice: {}, 2 }}", "filter-multi-arg-first"),
    ("{{ s | slice: 1, {} }}", "filter-multi-arg-second"),
]
SITES_RNG: list[tuple[str, str]] = [
    ("{{ ({}..3) }}", "range-start"), ("{{ (1..{}) | join: ',' }}", "range-stop"),
    ("{% for i in ({}..{}) %}{{ i }}{% endfor %}", "for-range"),
]
SITES_NAME: list[tuple[str, str]] = [
    ("{% include {} %}", "include-name"), ("{% include {} with s as x, y: 1 %}", "include-name-args"),
]
SITES_PATH_SEG: list[tuple[str, str]] = [("{{ a[{}] }}", "path-seg"), ("{{ a[{}].d[0].e }}", "path-seg-mid")]
PATH_SEGS = [("'b'", "seg-quoted"), ('"b c"', "seg-quoted-space"), ("0", "seg-int"), ("e.g", "seg-path"),
             ("a.k", "seg-path"), (r"'it\'s'", "seg-quoted-escape"), ("'é'", "seg-unicode"),
             (r'"x\ty"', "seg-quoted-escape"), ("e['g']", "seg-path-quoted"), ("-1", "seg-neg")]


def _fill(site: str, prim: str) -> str:
    # sites use {} placeholders but also contain literal braces
    return site.replace("{}", prim)


# filter applications ({s} separator, {k} key/value separator)
FILTER_FORMS: list[tuple[str, str]] = [
    ("{{ s | slice: 1{s}3 }}", "filter-2-args"),
    ("{{ s | replace: 'l'{s}'L' }}", "filter-2-str-args"),
    ("{{ s | replace: 'l'{s}\"L\" | replace: 'e'{s}u | upcase }}", "filter-chain-2-args"),
    ("{{ s | truncate: 4{s}'~' }}", "filter-2-mixed-args"),
    ("{{ u | truncatewords: 1{s}\"…\" }}", "filter-2-mixed-args"),
    ("{{ f | default: x{s}allow_false{k}true }}", "filter-pos-and-kw"),
    ("{{ f | default: 'd'{s}allow_false{k}false }}", "filter-pos-and-kw"),
    ("{{ z | default: allow_false{k}true{s}'first-kw' }}", "filter-kw-then-pos"),
    ("{{ 'hi %(a)s %(b)s' | t: a{k}s{s}b{k}n }}", "filter-2-kw"),
    ("{{ 'one' | t: count{k}n{s}plural{k}'many %(count)s' }}", "filter-2-kw"),
    ("{{ s | t: 'ctx'{s}count{k}1 }}", "filter-pos-and-kw"),
    ("{{ 'x' | ngettext: 'xs'{s}n }}", "filter-2-args"),
    ("{{ arr | json: indent{k}2 }}", "filter-1-kw"),
    ("{{ items | where: 'x'{s}2 | map: 't' | join: ',' }}", "filter-2-args"),
    ("{{ items | where: 'f' | size }}", "filter-1-arg"),
    ("{{ items | find: 'x'{s}3 | json }}", "filter-2-args"),
    ("{{ items | has: 'x'{s}n }}", "filter-2-args"),
    ("{{ items | map: i => i.x | join: ',' }}", "lambda-1"),
    ("{{ items | map: (i) => i.t | join: ',' }}", "lambda-1-paren"),
    ("{{ items | map: (i, idx) => idx | join: ',' }}", "lambda-2"),
    ("{{ items | where: i => i.x > 1 and i.x < 3 | map: 't' | first }}", "lambda-logical"),
    ("{{ items | where: i => not i.f | size }}", "lambda-not"),
    ("{{ items | where: i => (i.f or i.x == 3) and i.t contains 'o' | size }}", "lambda-grouped"),
    ("{{ items | reject: (i, j) => j == 0 or i.x in arr | size }}", "lambda-2-logical"),
    ("{{ items | find_index: i => i.t == \"two\" }}", "lambda-str"),
    ("{{ items | sort: 'x' | reverse | map: 'x' | join: ', ' }}", "filter-chain"),
    ("{{ arr | slice: 1{s}2 | join: '-' | prepend: '<' | append: \">\" }}", "filter-chain-2-args"),
    ("{{ n | plus: 1 | times: 2.5 | minus: -1 | divided_by: 2 | round: 1 }}", "filter-math"),
    ("{{ fl | at_least: 3 | at_most: 10 | modulo: 4 }}", "filter-math"),
    ("{{ s | upcase|downcase|capitalize }}", "filter-tight-pipes"),
    ("{{ '2020-01-02' | date: '%Y/%m' }}", "filter-date"),
    ("{{ 'a,b' | split: ',' | concat: arr | join: '' }}", "filter-path-arg"),
    ("{{ s | slice: -3{s}arr.size }}", "filter-neg-arg"),
    ("{{ s | default: (1..3){s}allow_false{k}t }}", "filter-range-arg"),
    ("{{ s | append: 'a${n}'{s} }}", "filter-trailing-comma"),
    ("{{ s | slice: {s}1{s}{s}2 }}", "filter-extra-commas"),
    ("{{ s | slice: 1 2 }}", "filter-args-no-comma"),
    ("{% assign v = s | slice: 1{s}3 | append: n %}{{ v }}", "assign-filter-2-args"),
    ("{% echo s | slice: 0{s}2 | replace: 'h'{s}'J' %}", "echo-filter-2-args"),
    ("{{ s | slice: 0{s}1 if t else 'F' }}", "ternary-left-filter-2-args"),
    ("{{ s | slice: 1{s}2 if t else u | slice: 2{s}3 || slice: 0{s}1 | append: n }}", "ternary-all-filters-2-args"),
    ("{{ s if f else u | replace: 'W'{s}'w' }}", "ternary-alt-filter-2-args"),
    ("{{ s if f || default: 'z'{s}allow_false{k}true | upcase }}", "ternary-tail-no-else"),
    ("{{ 'a${ s | slice: 1{s}2 }b' }}", "tstr-filter-2-args"),
]
SEPS = [", ", ",", " , ", ",\t"]
KSEPS = [": ", ":", "=", " = "]

CMP_OPS = ["==", "!=", "<>", "<", "<=", ">", ">=", "contains", "in"]
BOOL_ATOMS = ["t", "f", "z", "n == 3", "s contains 'l'", "nil", "arr != empty", "1 in arr"]

WCS = ["", "-", "~", "+"]

# ---------------------------------------------------------------------------
# unit enumeration
# ---------------------------------------------------------------------------


# Several cycle tags of ONE group (equal items, equal name) spelled in ways str() normalises.
# "cycle tags with the same items share one iterator": each program below must render the
# same as its canonical twin (RESPELLED), and the same before and after str().
_CYC_VARIANTS: list[tuple[str, list[str]]] = [
    ("quotes", ["'a','b'", '"a","b"', "'a', \"b\""]),
    ("int-spelling", ["100, 2", "1e2, 2", "1E+2, 2"]),
    ("float-spelling", ["1.0, 2.5", "1.00, 2.50", "1.0e0, 25.0e-1"]),
    ("nil-null", ["nil, 'x'", "null, 'x'"]),
    ("escapes", ["'a', 'b'", "'\\u0061', \"\\u0062\""]),
    ("whitespace", ["'a','b'", "  'a'  ,\t'b'  ", "'a',\n'b'"]),
    ("trailing-comma", ["'a', 'b'", "'a', 'b',"]),
    ("path-spelling", ["a.x, n", "a['x'], n", 'a["x"], [\'n\']']),
    ("group-name-quotes", ["'g': 1, 2", "g: 1, 2", '"g": 1, 2']),
    ("group-name-escape", ["'g': 'a', 'b'", "'\\u0067': \"a\", 'b'"]),
    ("bool-range", ["true, (1..2)", "true , ( 1 .. 2 )"]),
]
CYCLE_SPELLINGS: list[tuple[str, str]] = []
RESPELLED: list[tuple[str, str, str]] = []  # (feature, program, canonical twin)


def _mk_cycle_programs() -> None:
    for name, vs in _CYC_VARIANTS:
        seq = [vs[k % len(vs)] for k in range(len(vs) + 1)]
        flat = "".join(f"{{% cycle {v} %}}" for v in seq)
        flat0 = "".join(f"{{% cycle {vs[0]} %}}" for _ in seq)
        loop = "{% for i in (1..3) %}" + "".join(f"{{% cycle {v} %}}" for v in vs) + ";{% endfor %}"
        loop0 = "{% for i in (1..3) %}" + "".join(f"{{% cycle {vs[0]} %}}" for _ in vs) + ";{% endfor %}"
        liq = "{% liquid\n" + "".join(f"cycle {v}\n" for v in seq if "\n" not in v) + "%}"
        liq0 = "{% liquid\n" + "".join(f"cycle {vs[0]}\n" for v in seq if "\n" not in v) + "%}"
        for kind, prog, twin in (("flat", flat, flat0), ("loop", loop, loop0), ("liquid", liq, liq0)):
            CYCLE_SPELLINGS.append((prog, f"cycle-spelling-{name}-{kind}"))
            RESPELLED.append((f"cycle-spelling-{name}-{kind}", prog, twin))
    # across partials sharing the cycle state
    for prog, twin in (
        ("{% cycle 'x', 'y' %}{% include 'cyc2' %}{% cycle 'x', 'y' %}{% include 'cyc2' %}",
         "{% cycle 'x', 'y' %}{% include 'cyc' %}{% cycle 'x', 'y' %}{% include 'cyc' %}"),
        ("{% for i in (1..2) %}{% include 'cyc2' %}{% cycle 'g': 1, 2 %}{% endfor %}",
         "{% for i in (1..2) %}{% include 'cyc' %}{% cycle 'g': 1, 2 %}{% endfor %}"),
    ):
        CYCLE_SPELLINGS.append((prog, "cycle-spelling-partial"))
        RESPELLED.append(("cycle-spelling-partial", prog, twin))


_mk_cycle_programs()


def _bool_trees() -> Iterator[tuple[str, str]]:
    atoms = ["t", "f", "z", "n == 3"]
    for a in BOOL_ATOMS:
        yield a, "bool-atom"
        yield f"not {a}", "bool-not"
        yield f"({a})", "bool-group"
        yield f"not ({a})", "bool-not-group"
    for op in CMP_OPS:
        yield f"n {op} 3", f"cmp-{op}"
        yield f"s {op} 'hello'", f"cmp-{op}"
        yield f"arr {op} 2", f"cmp-{op}"
        yield f"'3' {op} n", f"cmp-{op}"
        yield f"t {op} (f or t)", f"cmp-{op}-group-right"
        yield f"(t and f) {op} f", f"cmp-{op}-group-left"
        yield f"not t {op} f", f"cmp-{op}-not"
        yield f"t {op} not f", f"cmp-{op}-not-right"
        yield f"n {op} m and t", f"cmp-{op}-and"
        yield f"t or n {op} m", f"cmp-{op}-or"
    for a, b, c in itertools.product(atoms[:3], repeat=3):
        for o1, o2 in itertools.product(("and", "or"), repeat=2):
            yield f"{a} {o1} {b} {o2} {c}", "bool-3-flat"
            yield f"({a} {o1} {b}) {o2} {c}", "bool-3-group-left"
            yield f"{a} {o1} ({b} {o2} {c})", "bool-3-group-right"
            yield f"not {a} {o1} {b} {o2} {c}", "bool-3-not-first"
            yield f"(not {a}) {o1} {b} {o2} {c}", "bool-3-not-first-group"
            yield f"{a} {o1} not {b} {o2} {c}", "bool-3-not-mid"
            yield f"{a} {o1} (not {b}) {o2} {c}", "bool-3-not-mid-group"
            yield f"{a} {o1} {b} {o2} not {c}", "bool-3-not-last"
            yield f"not ({a} {o1} {b}) {o2} {c}", "bool-3-not-group"
            yield f"not (not {a} {o1} {b}) {o2} (not {c})", "bool-3-not-nested"
    yield "((t))", "bool-double-group"
    yield "(t or f) and (z or n == 3)", "bool-two-groups"
    yield "not not t", "bool-not-not"
    yield "not (not (not f))", "bool-not-nested"
    yield "t and (f or (z and not (n == 3 or m)))", "bool-deep"
    yield "1 < 2 == true", "cmp-chain"
    yield "n == 3 == t", "cmp-chain"
    yield "(n == 3) == t", "cmp-chain-group"
    yield "n == (3 == t)", "cmp-chain-group-right"
    yield "s == empty or arr == blank", "cmp-empty-blank"
    yield "empty == s and blank != u", "cmp-empty-blank-left"
    yield "a.b contains 2 and 'b' in words", "cmp-membership"
    yield "not a.b contains 9", "cmp-not-membership"
    yield "n <> m", "cmp-<>"


BOOL_SITES = [
    ("{% if {} %}T{% else %}F{% endif %}", "if"),
    ("{% unless {} %}T{% else %}F{% endunless %}", "unless"),
    ("{% if nosuch %}{% elsif {} %}T{% else %}F{% endif %}", "elsif"),
    ("{{ 'T' if {} else 'F' }}", "ternary"),
    ("{{ 'T' if {} }}", "ternary-no-else"),
    ("{{ 'T' if {} else 'F' | downcase || append: '.' }}", "ternary-filters"),
    ("{{ items | where: i => {} | size }}", "lambda"),
    ("{% liquid if {}\necho 'T'\nelse\necho 'F'\nendif %}", "liquid-if"),
    ("{{ 'a${ 'T' if {} else 'F' }b' }}", "tstr-ternary"),
]


def _wc_units() -> Iterator[tuple[str, str]]:
    pad_l, pad_r = " \n x \r\n\t", "\t \n y \n "
    for l, r in itertools.product(WCS, repeat=2):
        L, R = f"{{%{l} ", f" {r}%}}"
        yield f"{pad_l}{{{{{l} s {r}}}}}{pad_r}", "wc-output"
        yield f"{pad_l}{L}echo s{R}{pad_r}", "wc-echo"
        yield f"{pad_l}{L}assign v = 1{R}{pad_r}", "wc-assign"
        yield f"{pad_l}{{#{l} c {r}#}}{pad_r}", "wc-comment-hash"
        yield f"{pad_l}{{###{l} c # ## {r}###}}{pad_r}", "wc-comment-hashes"
        yield f"{pad_l}{{%{l} # inline {r}%}}{pad_r}", "wc-comment-inline"
        yield f"{pad_l}{{%{l} # line1\n   # line2 {r}%}}{pad_r}", "wc-comment-inline-multi"
        yield f"{pad_l}{L}comment{R} c {{% endcomment %}}{pad_r}", "wc-comment-block-open"
        yield f"{pad_l}{{% comment %}} c {L}endcomment{R}{pad_r}", "wc-comment-block-close"
        yield f"{pad_l}{L}comment{r}%}} c {{%{l} endcomment{R}{pad_r}", "wc-comment-block-mixed"
        yield f"{pad_l}{L}if t{R} a {{% endif %}}{pad_r}", "wc-if-open"
        yield f"{pad_l}{{% if t %}} a {L}endif{R}{pad_r}", "wc-if-close"
        yield f"{pad_l}{{% if f %}} a {L}else{R} b {{% endif %}}{pad_r}", "wc-else"
        yield f"{pad_l}{{% if f %}} a {L}elsif t{R} b {{% endif %}}{pad_r}", "wc-elsif"
        yield f"{pad_l}{{% unless f %}} a {L}endunless{R}{pad_r}", "wc-unless-close"
        yield f"{pad_l}{{% unless t %}} a {L}else{R} b {{% endunless %}}{pad_r}", "wc-unless-else"
        yield f"{pad_l}{L}case n{R} {L}when 3{R} a {L}else{R} b {L}endcase{R}{pad_r}", "wc-case"
        yield f"{pad_l}{{% case n %}}{L}when 1{R} a {L}else{R} b {{% endcase %}}{pad_r}", "wc-case-else"
        yield f"{pad_l}{L}for i in (1..2){R} {{{{ i }}}} {L}endfor{R}{pad_r}", "wc-for"
        yield f"{pad_l}{{% for i in z %}} a {L}else{R} b {{% endfor %}}{pad_r}", "wc-for-else"
        yield (f"{pad_l}{{% for i in (1..3) %}} {{{{ i }}}} {L}break{R} {{% endfor %}}{pad_r}", "wc-break")
        yield (f"{pad_l}{{% for i in (1..3) %}} {{{{ i }}}} {L}continue{R} z {{% endfor %}}{pad_r}",
               "wc-continue")
        yield f"{pad_l}{L}capture v{R} a {L}endcapture{R}[{{{{ v }}}}]{pad_r}", "wc-capture"
        yield f"{pad_l}{L}tablerow i in (1..2){R} {{{{ i }}}} {L}endtablerow{R}{pad_r}", "wc-tablerow"
        yield f"{pad_l}{L}cycle 'a', 'b'{R}{pad_r}", "wc-cycle"
        yield f"{pad_l}{L}increment k{R}{pad_r}{L}decrement k{R}", "wc-increment-decrement"
        yield f"{pad_l}{L}include 'p'{R}{pad_r}", "wc-include"
        yield f"{pad_l}{L}render 'p', x: 1{R}{pad_r}", "wc-render"
        yield f"{pad_l}{L}with v: 1{R} {{{{ v }}}} {L}endwith{R}{pad_r}", "wc-with"
        yield (f"{pad_l}{L}macro m a{R} [{{{{ a }}}}] {L}endmacro{R}{pad_r}{L}call m 1{R}{pad_r}", "wc-macro-call")
        yield (f"{pad_l}{L}translate{R} Hello {L}endtranslate{R}{pad_r}", "wc-translate")
        yield (f"{pad_l}{{% translate count: n %}} One {L}plural{R} Many {{% endtranslate %}}{pad_r}", "wc-plural")
        yield f"{pad_l}{L}block bb{R} a {L}endblock{R}{pad_r}", "wc-block"
        yield f"{L}extends 'base'{R}{pad_l}{L}block b1{R} c {L}endblock b1{R}{pad_r}", "wc-extends"
        yield f"{pad_l}{L}liquid echo s{R}{pad_r}", "wc-liquid"
        yield f"{pad_l}{L}liquid\n  echo s\n  echo n\n{r}%}}{pad_r}", "wc-liquid-multiline"
        yield f"{pad_l}{{%{l} liquid {r}%}}{pad_r}", "wc-liquid-empty"
        yield f"{pad_l}{L}liquid\n # c\n{r}%}}{pad_r}", "wc-liquid-comment-only"
        yield f"{pad_l}{L}raw{R} r {{% endraw %}}{pad_r}", "wc-raw-open"
        yield f"{pad_l}{{% raw %}} r {L}endraw{R}{pad_r}", "wc-raw-close"
        yield f"{pad_l}{{%{l}raw{r}%}}{{{{ r }}}}{{%{l}endraw{r}%}}{pad_r}", "wc-raw-tight"
        yield f"{{{{{l}s{' ' if r else ''}{r}}}}}{{%{l}if t{' ' if r else ''}{r}%}}a{{%{l}endif{' ' if r else ''}{r}%}}", "wc-tight-layout"
        yield (f"{pad_l}{{{{{l}\n\ts\n | upcase\n{r}}}}}{pad_r}{{%{l}\n if\n\tt\n{r}%}}a{{%{l}\tendif\t{r}%}}", "wc-wide-layout")
    for a, b, c, d in itertools.product(WCS, repeat=4):
        yield f" \n a \n {{%{a} raw {b}%}} \n r \n {{%{c} endraw {d}%}} \n b \n ", "wc-raw-all-four"


def _tag_units() -> Iterator[tuple[str, str]]:
    # for / tablerow option subsets, orders and separators
    opts = {"limit": ["limit: 2", "limit:n", "limit = 2"], "offset": ["offset: 1", "offset:m", "offset: continue"],
            "reversed": ["reversed"]}
    for r in range(0, 4):
        for combo in itertools.permutations(opts, r):
            for choice in itertools.product(*(opts[c] for c in combo)):
                for sep in (" ", ", "):
                    args = sep.join(choice)
                    pre = sep if args and sep == ", " else (" " if args else "")
                    yield (f"{{% for i in arr{pre}{args} %}}{{{{ i }}}}{{% endfor %}}"
                           f"{{% for i in arr{pre}{args} %}}{{{{ i }}}}{{% else %}}E{{% endfor %}}", "for-options")
    topts = {"cols": ["cols: 2", "cols:n"], "limit": ["limit: 3"], "offset": ["offset: 1", "offset = m"]}
    for r in range(0, 4):
        for combo in itertools.permutations(topts, r):
            for choice in itertools.product(*(topts[c] for c in combo)):
                args = " ".join(choice)
                yield (f"{{% tablerow i in arr {args} %}}{{{{ i }}}}{{{{ tablerowloop.col }}}}"
                       f"{{{{ tablerowloop.row }}}}{{% endtablerow %}}", "tablerow-options")
    yield "{% tablerow i in (1..4) cols: 2 %}{% if tablerowloop.col_first %}<{% endif %}{{ i }}{% endtablerow %}", "tablerow-range"
    yield "{% tablerow i in arr cols: nil %}{{ i }}{% endtablerow %}", "tablerow-cols-nil"
    yield "{% tablerow pair in e %}{{ pair[0] }}={{ pair[1] }}{% endtablerow %}", "tablerow-mapping"
    body = ("{{ forloop.index }}/{{ forloop.length }}:{{ i }}{% if forloop.first %}F{% endif %}"
            "{% if forloop.last %}L{% endif %}{{ forloop.rindex0 }} ")
    yield f"{{% for i in arr %}}{body}{{% endfor %}}", "forloop-vars"
    yield ("{% for i in (1..2) %}{% for j in (1..2) %}{{ forloop.parentloop.index }}{{ forloop.index0 }}"
           "{% endfor %}{% endfor %}"), "for-nested-parentloop"
    yield "{% for i in (1..5) %}{% if i == 2 %}{% continue %}{% endif %}{% if i > 3 %}{% break %}{% endif %}{{ i }}{% endfor %}", "for-break-continue"
    yield ("{% for i in arr limit: 2 %}{{ i }}{% endfor %}|{% for i in arr offset: continue limit: 2 %}{{ i }}"
           "{% endfor %}|{% for i in arr offset: continue %}{{ i }}{% endfor %}"), "for-offset-continue"
    yield "{% for i in 1, 2, 3 %}{{ i }}{% endfor %}{% for i in 'a', n, nil, (1..2) %}[{{ i }}]{% endfor %}", "for-array-literal"
    yield "{% for pair in e %}{{ pair[0] }}={{ pair[1] }};{% endfor %}", "for-mapping"
    yield "{% for c in s %}{{ c }}.{% endfor %}", "for-string"
    yield "{% for i in arr %}{% endfor %}{% for i in z %}{% else %}{% endfor %}", "for-empty-bodies"
    # if / unless / case shapes
    yield "{% if t %}a{% endif %}{% if f %}a{% else %}b{% endif %}", "if-else"
    yield "{% if f %}a{% elsif z %}b{% elsif t %}c{% else %}d{% endif %}", "if-elsif-chain"
    yield "{% if f %}a{% elsif t %}b{% endif %}", "if-elsif-no-else"
    yield "{% if t %}{% endif %}{% if t %}{% else %}{% endif %}{% if t %} {% elsif f %}\n{% else %}\t{% endif %}", "if-blank-bodies"
    yield "{% if t %}{% if f %}a{% else %}{% if z %}b{% else %}c{% endif %}{% endif %}{% endif %}", "if-nested"
    yield "{% unless f %}u{% endunless %}{% unless t %}u{% else %}w{% endunless %}", "unless-else"
    yield "{% unless t %}u{% elsif f %}v{% elsif t %}x{% else %}w{% endunless %}", "unless-elsif"
    yield "{% case n %}{% when 1, 2 %}a{% when 3 or 4 %}b{% else %}c{% endcase %}", "case-multi-when"
    yield "{% case n %}{% when 3 %}a{% when 3 %}again{% when n %}var{% endcase %}", "case-multiple-matches"
    yield "{% case n %}\n  {% when 3 %}three\n  {% else %}other\n{% endcase %}", "case-leading-whitespace"
    yield "{% case n %}{% else %}only-else{% endcase %}", "case-only-else"
    yield "{% case n %}{% endcase %}{% case n %} \n {% endcase %}", "case-empty"
    yield "{% case s %}{% when 'hello', \"x\" or nil %}a{% endcase %}", "case-when-mixed-separators"
    yield "{% case a.b[0] %}{% when 1 %}{% assign q = 1 %}{% else %}E{% endcase %}", "case-silent-when"
    yield "{% case n %}{% when 3 %}{% case s %}{% when 'hello' %}in{% endcase %}{% endcase %}", "case-nested"
    # assign / capture / echo / counters / cycle
    yield "{% assign v = s | upcase %}{{ v }}{% assign v=n %}{{ v }}{% assign é = 'u' %}{{ é }}{% assign a-b = 1 %}{{ a-b }}", "assign-forms"
    yield "{% assign v = 1, 2, s %}{{ v | join: '+' }}{% assign w = 'a', 'b', | last %}{{ w }}", "assign-array-literal"
    yield "{% assign v = s if t else n | plus: 1 || json %}{{ v }}", "assign-ternary"
    yield "{% capture c %}x{{ s }}{% if t %}y{% endif %}{% endcapture %}[{{ c }}]{% capture c %}{% endcapture %}[{{ c }}]", "capture"
    yield "{% echo s | upcase %}{% echo 1, 2 | join: '-' %}{% echo s if f else 'alt' %}", "echo-forms"
    yield "{% increment k %}{% increment k %}{% decrement k %}{% decrement j %}{{ k }}{{ j }}{% increment n %}{{ n }}", "increment-decrement"
    yield "{% cycle 1, 2 %}{% cycle 1, 2 %}{% cycle 1, 2 %}", "cycle"
    yield "{% cycle 'g': 1, 2 %}{% cycle \"g\": 1, 2 %}{% cycle g: 'a', 'b' %}{% cycle s: 'a', 'b', %}{% cycle s: 'a', 'b' %}", "cycle-named"
    yield "{% cycle s, n, nil, 1.5, (1..2), a.b[0], 'x${n}' %}{% cycle 'only' %}", "cycle-item-kinds"
    yield "{% for i in (1..4) %}{% cycle 'odd', 'even' %}{% cycle 'grp': 'a', 'b', 'c' %}{% endfor %}", "cycle-in-loop"
    # include / render
    for tag in ("include", "render"):
        yield f"{{% {tag} 'p' %}}", f"{tag}-plain"
        yield f'{{% {tag} "p" %}}', f"{tag}-double-quoted"
        yield f"{{% {tag} 'p' with s %}}", f"{tag}-with"
        yield f"{{% {tag} 'p' with s as x %}}", f"{tag}-with-as"
        yield f"{{% {tag} 'p' with s as 'x' %}}", f"{tag}-with-as-quoted"
        yield f"{{% {tag} 'p' for arr %}}", f"{tag}-for"
        yield f"{{% {tag} 'p' for arr as x %}}", f"{tag}-for-as"
        yield f"{{% {tag} 'q.html' for words %}}", f"{tag}-for-dotted-name"
        yield f"{{% {tag} 'p' for (1..3) as x %}}", f"{tag}-for-range"
        yield f"{{% {tag} 'p', x: 1, y: s %}}", f"{tag}-kwargs"
        yield f"{{% {tag} 'p' x: 1 y = s %}}", f"{tag}-kwargs-no-commas"
        yield f"{{% {tag} 'p' with s as x, y: n %}}", f"{tag}-with-as-kwargs"
        yield f"{{% {tag} 'p' for arr as x, y: n, p: 'P' %}}", f"{tag}-for-as-kwargs"
        yield f"{{% {tag} 'p' for arr, y: n %}}", f"{tag}-for-kwargs"
        yield f"{{% {tag} 'p' with a[\"b c\"].d[0], y: nil %}}", f"{tag}-with-path"
        yield f"{{% {tag} 'nosuch' %}}", f"{tag}-missing"
        yield f"{{% {tag} 'loop', x: '-' %}}{{% {tag} 'inc' with s as x %}}[{{{{ leaked }}}}{{{{ cnt }}}}]", f"{tag}-scope"
        yield f"{{% for i in (1..2) %}}{{% {tag} 'q.html', q: i %}}{{% endfor %}}", f"{tag}-in-loop"
        yield f"{{% {tag} '\\u0070' %}}{{% {tag} 'q\\u002ehtml', q: 1 %}}", f"{tag}-name-escape"
    yield "{% include tpl %}{% include a.x %}{% include tpl with s as x, y: 1 %}{% include tpl for arr %}", "include-variable-name"
    yield "{% include 'mac' %}{% call pm 1 %}{% call pm 'a', b: 'b' %}", "include-macro"
    # extends / block
    yield "{% extends 'base' %}{% block b1 %}child{% endblock %}", "extends"
    yield "{% extends \"base\" %}{% block b1 %}c1 {{ block.super }}{% endblock b1 %}{% block b3 %}c3{% endblock b3 %}ignored", "extends-super"
    yield "{% extends 'mid' %}{% block b1 %}leaf<{{ block.super }}>{% endblock %}{% block b2 %}{% endblock %}", "extends-chain"
    yield "{% extends 'reqbase' %}{% block rq %}given{% endblock rq %}", "extends-required"
    yield "{% extends 'reqbase' %}", "extends-required-missing"
    yield "{% extends 'nosuch' %}", "extends-missing"
    yield "{% extends base %}{% block b1 %}word-name{% endblock %}", "extends-word-name"
    yield "{% block nm %}x{% endblock %}{% block nm2 %}y{% endblock nm2 %}{% block 'q' %}z{% endblock 'q' %}{% block \"r\" %}{% endblock r %}", "block-standalone"
    yield "{% block rq required %}x{% endblock %}", "block-required-standalone"
    yield "{% block outer %}o{% block inner %}i{{ s }}{% endblock inner %}{% endblock outer %}", "block-nested"
    yield "{% extends 'base' %}{% block b2 %}{% for i in (1..2) %}{{ i }}{{ block.super }}{% endfor %}{% endblock %}", "extends-super-in-loop"
    # macro / call
    yield "{% macro m a, b: 2, c='x' %}{{ a }}{{ b }}{{ c }}|{{ args | join: ',' }}|{% for kv in kwargs %}{{ kv[0] }}{{ kv[1] }}{% endfor %}{% endmacro %}{% call m 1, c: 3 %}{% call m %}{% call m 1, 2, 3, 4, z: 5 %}{% call 'm' 1 %}", "macro-call"
    yield "{% macro 'q' %}Q{% endmacro %}{% call q %}{% call \"q\" %}{% call nosuch %}{% call nosuch 1, k: 2 %}", "macro-quoted-name"
    yield "{% macro m a b: 2 %}{{ a }}{{ b }}{% endmacro %}{% call m 1 2 %}{% call m b: 1, 2 %}{% call m, 1, %}", "macro-no-commas"
    yield "{% macro m a: nil, b: (1..2), c: 'x${s}', d: a.b[0], e: 1.5, f: true %}{{ a }}{{ b }}{{ c }}{{ d }}{{ e }}{{ f }}{% endmacro %}{% call m %}{% call m f: false, a: n %}", "macro-default-kinds"
    yield "{% macro m x %}{{ x }}{{ s }}{% include 'p' %}{% endmacro %}{% call m 1 %}", "macro-disabled-include"
    for prog, feat in CYCLE_SPELLINGS:
        yield prog, feat
    yield "{% cycle 'x', 'y' %}{% include 'cyc' %}{% cycle 'x', 'y' %}|{% cycle 'g': 1, 2 %}{% render 'cyc' %}{% cycle s, n %}", "cycle-group-shared-with-partial"
    # quoted names that are not identifiers
    yield "{% cycle 'a b': 1, 2 %}{% cycle 'a b': 1, 2 %}{% cycle \"c-d e\": 'x', 'y' %}", "cycle-name-with-space"
    yield "{% cycle '': 1, 2 %}{% cycle 1, 2 %}{% cycle '': 1, 2 %}", "cycle-empty-name"
    yield "{% cycle 'and': 1, 2 %}{% cycle '1': 1, 2 %}{% cycle 'é ü': 1, 2 %}", "cycle-odd-names"
    yield "{% block 'my b' %}x{% endblock %}{% block \"it's\" %}y{% endblock \"it's\" %}", "block-name-with-space"
    yield "{% extends 'base' %}{% block 'b1' %}quoted-name{% endblock 'b1' %}", "block-quoted-name-override"
    yield "{% macro 'my func' %}M{% endmacro %}{% call 'my func' %}{% call my %}{% call 'my' %}", "macro-name-with-space"
    yield "{% macro 'my func' a, b: 2 %}[{{ a }}{{ b }}{{ func }}]{% endmacro %}{% call 'my func' 1 %}{% call \"my func\" b: 3, 4 %}", "macro-name-with-space-args"
    yield "{% macro '' %}E{% endmacro %}{% call '' %}", "macro-empty-name"
    yield "{% include 'p' with s as 'my x' %}{% render 'p' for arr as 'x y' %}", "alias-with-space"
    yield "{% assign x = 'ab', %}{{ x | first }}|{% for i in 'ab', %}{{ i }};{% endfor %}|{{ 'ab', | size }}", "array-literal-single"
    yield "{% for x in arr offset: ['continue'] %}{{ x }}{% endfor %}|{% for x in arr offset: continue %}{{ x }}{% endfor %}", "for-offset-variable-named-continue"
    yield "{% for x in a.b, ['limit'] %}{{ x }};{% endfor %}{% for x in ['limit'], ['reversed'] %}{{ x }};{% endfor %}", "for-array-literal-keyword-names"
    yield "{{ 1.0e999 }}|{{ -1.0e999 }}|{{ 1.0e999 | json }}|{% if 1.0e999 > 1 %}T{% endif %}", "float-overflow"
    # with
    yield "{% with p: 1, y: s %}{{ p }}{{ y }}{% endwith %}[{{ p }}]{% with %}x{% endwith %}{% with q = n %}{{ q }}{% endwith %}", "with"
    yield "{% with a: (1..3), b: 'x${s}', c: nil, d: a.b[0] %}{{ a }}{{ b }}{{ c }}{{ d }}{% endwith %}", "with-arg-kinds"
    yield "{% with x: 1 y: 2, %}{{ x }}{{ y }}{% with x: 3 %}{{ x }}{{ y }}{% endwith %}{% endwith %}", "with-nested"
    # translate
    yield "{% translate %}Hello{% endtranslate %}", "translate"
    yield "{% translate you: s, count: n %}Hi {{ you }}{% plural %}His {{ you }} {{ count }}{% endtranslate %}", "translate-plural"
    yield "{% translate context: 'c', you = u %}X {{ you }} 100%{% endtranslate %}", "translate-context"
    yield "{% translate count: 1 %}One{% plural %}Many{% endtranslate %}{% translate count: m %}\n  One\n  thing\n{% plural %}\n  Many\n{% endtranslate %}", "translate-count"
    yield "{% translate x: nil, y: (1..2), w: 'a${n}' %}{{ x }}{{ y }}{{ w }}{% endtranslate %}", "translate-arg-kinds"
    yield "{{ s | t }}{{ s | t: count: 1, plural: 'us' }}{{ s | gettext }}{{ s | pgettext: 'ctx' }}{{ 'x' | npgettext: 'ctx', 'xs', n }}", "translate-filters"
    # comments / raw
    yield "{# c #}{## c # {# nested #} ##}{#c#}{# {{ x }} {% if %} #}{#\n multi\n line\n#}", "comment-hash"
    yield "{% # inline %}{% #inline%}{%\n  # a\n  # b\n%}{% # {{ x }} %}", "comment-inline"
    yield "{% comment %} c {% endcomment %}{% comment %}{{ x }}{% if %}{% endcomment %}{% comment %}a{% comment %}b{% endcomment %}c{% endcomment %}", "comment-block"
    yield "{% comment %}{% raw %}{% endcomment %}{% endraw %}{% endcomment %}{% comment note %}x{% endcomment %}", "comment-block-raw"
    yield "{% raw %}{{ x }}{% if %}{% endraw %}{% raw %}{% endraw %}{% raw %} {# c #} {% endraw %}{% raw %}\n{% comment %}\n{% endraw %}", "raw"
    yield "{% if t %}{% raw %}hello{% endraw %}{% endif %}{% if t %}{# c #}{% endif %}", "raw-in-block"
    # liquid tag
    yield "{% liquid %}{% liquid\n%}{%liquid echo s%}", "liquid-empty-and-tight"
    yield "{% liquid\n  assign q = 1\n  # a comment\n  echo q\n\n  if q\n    echo 'y'\n  endif\n%}", "liquid-basic"
    yield "{% liquid\ncomment\nhi there {{ x }}\nendcomment\necho s\n%}", "liquid-block-comment"
    yield "{% liquid comment\nhi\ncomment\nnested\nendcomment\nendcomment\necho s %}", "liquid-block-comment-nested"
    yield "{% liquid\n# c1\n  # c2\necho s\n#c3 %}", "liquid-trailing-comment"
    yield "{% liquid # only a comment %}{% liquid\n  ##########\n  # boxed #\n  ########## -%}", "liquid-comment-only"
    yield ("{% liquid\nfor i in arr limit: 2, offset: 1\n  echo i\n  if i == 2\n    break\n  endif\nelse\n  echo 'none'\nendfor\n"
           "case n\nwhen 3, 4\n echo 'three'\nwhen 5 or 6\n echo 'five'\nelse\n echo 'x'\nendcase\nrender 'p', x: 1\ninclude 'p' with s as x\n"
           "cycle 1, 2\ncycle 'g': 1, 2\nincrement q\ndecrement q\nunless f\necho 'u'\nelsif t\necho 'v'\nelse\necho 'w'\nendunless\n"
           "capture c\necho 'cap'\nendcapture\necho c | upcase\n%}"), "liquid-all-tags"
    yield ("{% liquid with x: 1\necho x\nendwith\nmacro mm a, b: 2\necho a\necho b\nendmacro\ncall mm 1\ncall mm 1, b: 3\n"
           "tablerow i in arr cols: 2 limit: 3\necho i\nendtablerow\nblock lb\necho 'B'\nendblock lb %}"), "liquid-more-tags"
    yield "{% liquid\n  echo nil\n  echo s | slice: 1, 3\n  echo [\"a b\"]\n  assign v = 'a${n}' | append: \"x\\ty\"\n  echo v\n  echo s if f else 1.0e20\n%}", "liquid-expression-forms"
    yield "{% liquid echo s\n\techo n   \n\n\n   echo t\t\n -%} after", "liquid-whitespace"
    yield "{% liquid echo 'a\nb' %}", "liquid-newline-in-string"
    yield "{% liquid\n  echo 'x'\r\n  echo 'y'\r\n%}", "liquid-crlf"
    yield "{% for i in (1..3) %}{% liquid\n if i == 2\n continue\n endif\n echo i %}{% endfor %}", "liquid-in-loop"
    yield "{% liquid\ntranslate x: s\nendtranslate\n%}", "liquid-translate"
    # content
    yield "plain text only", "content-only"
    yield " \n\t ", "content-whitespace-only"
    yield "a { b } c {x} {- -} { { } } % } #} é ✓ \\n \\ ' \" ${x}", "content-lookalikes"
    yield "line1\r\nline2\rline3\n", "content-line-endings"
    yield "", "empty-template"
    yield "{{ s }}{{ s }}\n{{ n }}", "adjacent-outputs"
    # number formats
    yield "{{ 1 }}{{ -1 }}{{ 1.5 }}{{ 1e2 }}{{ 1.5e3 }}{{ 2e-2 }}{{ 1E3 }}{{ -1e2 }}{{ 12E+1 }}", "number-formats"
    yield "{{ 1.0e-7 }}|{{ 0.000001 }}|{{ 0.00001 }}|{{ 1e-5 }}", "number-small-floats"
    yield "{{ 1.0e20 }}|{{ 1.0e16 }}|{{ 12345678901234567.0 }}|{{ 1.5e300 }}", "number-big-floats"
    yield "{{ 100000000000000000000 }}|{{ 1e16 }}|{{ 9007199254740993 }}", "number-big-ints"
    yield "{{ 1.0 }}{{ 3.0e0 }}{{ -0.0 }}{{ 0.1 }}{{ 2.50 }}{{ 007 }}{{ -0 }}", "number-odd-forms"
    yield "{% assign v = 1.0e20 %}{{ v | json }}{% if 1.0e16 > 1 %}T{% endif %}{% for i in arr limit: 1e0 %}{{ i }}{% endfor %}", "number-sites"


def _branch_units() -> Iterator[tuple[str, str]]:
    """Every block-bearing tag with each of its branches empty / whitespace-only /
    comment-only / inline-comment-only, every marker pair on the tag that opens that branch and
    two settings on the tag that closes it, next to text that starts and ends with whitespace.
    The data sets take either side of every condition."""
    fillers = [("", "empty"), (" \n\t ", "space"), ("{# c #}", "comment"), (" {% # c %} ", "inline-comment")]
    # (name, template with {O} = tag opening the branch, {C} = tag closing it, {B} = branch body)
    shapes = [
        ("if-body", "{% if t %}", "{O:if t}{B}{C:else} no {% endif %}"),
        ("if-body-no-else", "", "{O:if t}{B}{C:endif}"),
        ("if-else", "", "{% if t %} yes {O:else}{B}{C:endif}"),
        ("if-else-falsy", "", "{% if f %} yes {O:else}{B}{C:endif}"),
        ("if-elsif", "", "{% if f %} yes {O:elsif t}{B}{C:else} no {% endif %}"),
        ("if-elsif-last", "", "{% if f %} yes {O:elsif t}{B}{C:endif}"),
        ("if-both-empty", "", "{O:if t}{C:else}{B}{% endif %}"),
        ("unless-body", "", "{O:unless t}{B}{C:else} no {% endunless %}"),
        ("unless-else", "", "{% unless t %} yes {O:else}{B}{C:endunless}"),
        ("unless-elsif", "", "{% unless t %} yes {O:elsif f}{B}{C:endunless}"),
        ("case-when", "", "{% case n %}{O:when 3}{B}{C:else} other {% endcase %}"),
        ("case-when-last", "", "{% case n %}{% when 0 %} zero {O:when 3}{B}{C:endcase}"),
        ("case-else", "", "{% case n %}{% when 3 %} three {O:else}{B}{C:endcase}"),
        ("case-only-else", "", "{% case n %}{O:else}{B}{C:endcase}"),
        ("for-body", "", "{O:for i in arr limit: 2}{B}{C:else} none {% endfor %}"),
        ("for-body-no-else", "", "{O:for i in (1..2)}{B}{C:endfor}"),
        ("for-else", "", "{% for i in arr limit: 2 %} {{ i }} {O:else}{B}{C:endfor}"),
        ("for-else-taken", "", "{% for i in z %} {{ i }} {O:else}{B}{C:endfor}"),
        ("tablerow-body", "", "{O:tablerow i in (1..2)}{B}{C:endtablerow}"),
        ("capture-body", "", "{O:capture v}{B}{C:endcapture}[{{ v }}]"),
        ("with-body", "", "{O:with v: 1}{B}{C:endwith}"),
        ("block-body", "", "{O:block bb}{B}{C:endblock}"),
        ("macro-body", "", "{O:macro m}{B}{C:endmacro} {% call m %} "),
        ("translate-body", "", "{O:translate}{B}{C:endtranslate}"),
        ("translate-plural", "", "{% translate count: n %} one {O:plural}{B}{C:endtranslate}"),
        ("nested-if-else", "", "{% if t %} a {% if f %} b {O:else}{B}{C:endif} c {% endif %}"),
    ]
    import re as _re

    for name, _unused, shape in shapes:
        for body, bname in fillers:
            if name.startswith("translate") and bname in ("comment", "inline-comment"):
                continue  # comments are not allowed in translation messages
            for l, r in itertools.product(WCS, repeat=2):
                for l2 in ("", "-"):
                    def sub(m: "_re.Match[str]") -> str:
                        kind, expr = m.group(1), m.group(2)
                        if kind == "O":
                            return f"{{%{l} {expr} {r}%}}"
                        return f"{{%{l2} {expr} %}}"
                    src = _re.sub(r"\{([OC]):([^}]*)\}", sub, shape).replace("{B}", body)
                    yield f" \n pre \n {src} \n post \n ", f"branch-{name}-{bname}"


# Template strings whose interpolations are literals of every kind, alone and mixed with
# variables, with HTML-special characters in the text (they matter under auto_escape).
HTML_TSTRS = [
    "\"<b>${'bold'}</b>\"", "'<${\"a&b\"}>'", "'n=${1}&'", "'${1.5}<'", "'${true}&${false}'", "'<${nil}>'", "'${(1..3)}<'",
    "'<${'in${'ner'}'}>'", "'<${'x'}${\"y\"}>'", "'<${'lit'}&${h}>'", "'${h}'", "'<${h}>'", "'<${'lit' | upcase}>'",
    "\"${'<'}\"", "'a${''}b<'", "'<${s}&${'lit'}>${n}'", "'${'<b>'}${s | upcase}${\"</b>\"}'", "'<${-3}|${1e2}|${2.50}>'",
    "'${'it\\'s <'}&'", "\"${\"q\\\"<\"}&\"", "'<b>&</b>'", '"<a href=\\"x\\">"', "h", "'${'a'}'", "'${blank}<${empty}>'",
]
HTML_SITES = [
    "{{ {} }}", "{% echo {} %}", "{% assign v = {} %}{{ v }}|{{ v | escape }}", "{{ {} | upcase }}", "{{ h | append: {} }}",
    "{{ {} | append: h }}", "{% if {} == '<b>bold</b>' %}T{% else %}F{% endif %}{{ {} }}", "{{ {} if t else h }}",
    "{{ h if f else {} }}", "{% capture c %}{{ {} }}{% endcapture %}{{ c }}", "{% liquid echo {} %}",
    "{% cycle {}, h %}{% cycle {}, h %}", "{% render 'p', x: {} %}", "{% include 'p' with {} as x %}",
    "{% with v: {} %}{{ v }}{{ v | safe }}{% endwith %}", "{% for i in {}, h %}{{ i }}{% endfor %}",
    "{{ 'o${ {} }c' }}", "{{ {} | safe }}|{{ {} | escape_once }}", "{% case {} %}{% when '<b>bold</b>' %}m{% else %}{{ {} }}{% endcase %}",
]


def _htmlts_units() -> Iterator[tuple[str, str]]:
    for ti, t in enumerate(HTML_TSTRS):
        for si, site in enumerate(HTML_SITES):
            if "${ {} }" in site and ("'" in t and '"' in t):
                continue
            yield _fill(site, t), f"htmlts-{ti}@{si}"


def _digit_limits() -> list[int]:
    import sys

    lims = set()
    if hasattr(sys, "get_int_max_str_digits") and sys.get_int_max_str_digits():
        lims.add(sys.get_int_max_str_digits())
    try:
        from liquid2.limits import MAX_STR_INT  # noqa: PLC0415

        if MAX_STR_INT:
            lims.add(int(MAX_STR_INT))
    except Exception:  # noqa: BLE001
        pass
    return sorted(lims) or [4300]


def _bignum_units() -> Iterator[tuple[str, str]]:
    """Integer (and float) literals whose digit count sits at limit-1, limit, limit+1 in every
    mantissa/exponent split, in positions that do not print them.  Whatever parses must have a
    str() that does not raise and that round-trips."""
    sites = [
        ("{% if {} > 1 %}T{% else %}F{% endif %}", "if"), ("{% assign v = {} %}ok", "assign"),
        ("{{ 'T' if {} else 'F' }}", "ternary"), ("{% if n < {} and {} == {} %}T{% endif %}", "if-compare-self"),
        ("{% for i in arr limit: {} %}{{ i }}{% endfor %}", "for-limit"), ("{% case {} %}{% when {} %}same{% endcase %}", "case"),
        ("{% liquid assign v = {}\n echo 'ok' %}", "liquid-assign"), ("{{ arr | where: i => i < {} | size }}", "lambda"),
        ("{% assign v = {} %}{{ v | size }}", "assign-then-filter"), ("{% unless {} %}F{% endunless %}", "unless"),
    ]
    for lim in _digit_limits():
        for d in (lim - 1, lim, lim + 1):
            lits = [f"1e{d - 1}", f"25e{d - 2}", f"123456e{d - 6}", "7" * 100 + f"e{d - 100}", "9" * d,
                    f"-1e{d - 1}", f"-{'9' * d}", f"1E+{d - 1}", "1" + "0" * (d - 3) + "e2", f"1.5e{d}", f"{'9' * d}.5"]
            for li, lit in enumerate(lits):
                for site, sname in sites:
                    yield _fill(site, lit), f"bignum-{'lim' if d == lim else ('lim-1' if d < lim else 'lim+1')}-{li}@{sname}"


def encode_string(value: str, q: str) -> str:
    """Liquid source text (without the delimiters) of a string whose value is *value*, using
    only the escapes that are mandatory inside a *q*-quoted string."""
    out = []
    for i, ch in enumerate(value):
        if ch == "\\":
            out.append("\\\\")
        elif ch == q:
            out.append("\\" + q)
        elif ch == "$" and value[i + 1:i + 2] == "{":
            out.append("\\$")
        else:
            out.append(ch)
    return "".join(out)


_SEQ_ALPHABET = ["\\", "'", '"', "$", "{", "}", "a"]
_SEQ_SITES = [
    ("{{ {} }}", "output"), ("{% echo {} %}", "echo"), ("{% assign v = {} %}[{{ v }}]", "assign"),
    ("{{ s | append: {} | size }}", "filter-arg"), ("{% if {} == s %}T{% else %}F{% endif %}", "if"),
    ("{% liquid echo {} %}", "liquid-echo"), ("{% cycle {}, 'z' %}{% cycle {}, 'z' %}", "cycle"),
    ("{% case {} %}{% when {} %}same{% else %}other{% endcase %}", "case-when"),
    ("{{ 'x${ {} }y' }}", "tstr-interp"), ("{% render 'p', x: {} %}", "render-kwarg"),
]


def _strseq_units() -> Iterator[tuple[str, str]]:
    """String values made of every sequence (length 1..3) over backslash, both quotes, `$`,
    `{`, `}` and an ordinary character - as plain strings, as template strings with an
    interpolation at the start / in the middle / at the end, and as quoted path segments, in
    both quote styles; sites rotate."""
    k = 0
    for n in (1, 2, 3):
        for tup in itertools.product(_SEQ_ALPHABET, repeat=n):
            value = "".join(tup)
            for q in ("'", '"'):
                body = encode_string(value, q)
                half = encode_string(value[: n // 2 + 1], q), encode_string(value[n // 2 + 1:], q)
                forms = [
                    (f"{q}{body}{q}", "plain"),
                    (f"{q}${{s}}{body}{q}", "tstr-start"),
                    (f"{q}{half[0]}${{n}}{half[1]}{q}", "tstr-middle"),
                    (f"{q}{body}${{s | upcase}}{q}", "tstr-end"),
                ]
                for lit, fname in forms:
                    site, sname = _SEQ_SITES[k % len(_SEQ_SITES)]
                    k += 1
                    yield _fill(site, lit), f"strseq-{n}-{fname}@{sname}"
                yield f"{{{{ a[{q}{body}{q}] }}}}|{{{{ a[{q}k{body}{q}].size }}}}", f"strseq-{n}-path-segment"


# C0 controls, DEL and C1 controls, raw in the source with no backslash in the same string.  A
# tree may reject some of these sources outright (then there is nothing to check); whatever a
# tree accepts must survive the round trip.
_RAW_CONTROLS = [chr(c) for c in [*range(0x00, 0x20), 0x7F, *range(0x80, 0xA0)]]


def _rawctl_units() -> Iterator[tuple[str, str]]:
    for ch in _RAW_CONTROLS:
        tag = f"rawctl-{ord(ch):04x}"
        yield f"{{{{ 'x{ch}y' }}}}|{{{{ \"{ch}\" | size }}}}", tag + "-string"
        yield f"{{{{ 'p${{s}}{ch}q' }}}}|{{{{ \"{ch}${{n}}\" }}}}", tag + "-template-string"
        yield f"{{{{ a['k{ch}'] }}}}|{{{{ [\"{ch}\"] }}}}|{{{{ a['{ch}'].x }}}}", tag + "-path-segment"
        yield f"{{% cycle 'g{ch}': 1, 2 %}}{{% cycle 'g{ch}': 1, 2 %}}", tag + "-cycle-name"
        yield f"{{% macro 'm{ch}' %}}M{{% endmacro %}}{{% call 'm{ch}' %}}", tag + "-macro-name"
        yield f"{{% block 'b{ch}' %}}B{{% endblock %}}", tag + "-block-name"
        yield f"{{% if s == 'hello{ch}' or '{ch}' contains '{ch}' %}}T{{% endif %}}", tag + "-condition"
        yield f"{{% liquid echo 'x{ch}y'\nassign v = a['k{ch}']\necho v %}}", tag + "-liquid"
        yield f"{{% include 'p' with '{ch}' as x %}}{{% render 'p', x: \"{ch}\" %}}", tag + "-partial-arg"


def unit_cases() -> list[tuple[str, str, str]]:
    """[(label, feature, source)] — deterministic."""
    out: list[tuple[str, str, str]] = []
    seen: set[str] = set()

    def add(label: str, feat: str, src: str) -> None:
        if src not in seen:
            seen.add(src)
            out.append((label, feat, src))

    for site, sfeat in SITES_ANY:
        for p, pf in prims("any"):
            add("prim-site", f"{pf}@{sfeat}", _fill(site, p))
    for site, sfeat in SITES_NUM:
        for p, pf in prims("num"):
            add("prim-site", f"{pf}@{sfeat}", _fill(site, p))
    for site, sfeat in SITES_RNG:
        for p, pf in prims("rng"):
            add("prim-site", f"{pf}@{sfeat}", _fill(site, p))
    for site, sfeat in SITES_NAME:
        for p, pf in prims("name"):
            add("prim-site", f"{pf}@{sfeat}", _fill(site, p))
    for site, sfeat in SITES_PATH_SEG:
        for p, pf in PATH_SEGS:
            add("prim-site", f"{pf}@{sfeat}", _fill(site, p))
    for form, feat in FILTER_FORMS:
        for s in SEPS:
            for k in KSEPS:
                add("filter-form", feat, form.replace("{s}", s).replace("{k}", k))
    for b, feat in _bool_trees():
        for site, sfeat in BOOL_SITES:
            add("bool", f"{feat}@{sfeat}", _fill(site, b))
    for src, feat in _wc_units():
        add("wc", feat, src)
    for src, feat in _tag_units():
        add("tag", feat, src)
    for src, feat in _branch_units():
        add("branch", feat, src)
    for src, feat in _strseq_units():
        add("strseq", feat, src)
    for src, feat in _rawctl_units():
        add("rawctl", feat, src)
    for src, feat in _htmlts_units():
        add("htmlts", feat, src)
    for src, feat in _bignum_units():
        add("bignum", feat, src)
    return out


# ---------------------------------------------------------------------------
# random composition
# ---------------------------------------------------------------------------

TEXTS = ["x", " \n hello \n ", "\n", "  ", "a\r\nb", "<p>", " { not markup } ", "} }", "é✓", "", "\t", " - ",
         "text with 'quotes' and \"quotes\"", " \n"]
ASSIGN_NAMES = ["v", "w", "s", "x", "é", "a-b", "acc", "n", "q"]
LOOP_VARS = ["i", "j", "item", "x"]
SIMPLE_FILTERS = ["upcase", "downcase", "size", "first", "last", "reverse", "sort", "json", "escape", "strip",
                  "capitalize", "uniq", "compact", "abs", "floor", "ceil", "t", "sort_natural", "strip_html",
                  "url_encode", "lstrip", "rstrip", "strip_newlines", "escape_once", "safe", "sum"]


class Gen:
    """Seeded random composition.  In `oneline` mode (inside {% liquid %}) every tag is
    emitted as "\\n<name> <expr>" and constructs with no line-statement form vanish."""

    NL = "\x01"  # newline inside a single liquid "line" (block comment bodies)

    def __init__(self, rng: random.Random, *, shopify: bool = True, max_depth: int = 3) -> None:
        self.rng = rng
        self.shopify = shopify
        self.max_depth = max_depth
        self.features: set[str] = set()
        self.partials: dict[str, str] = {}
        self.oneline = 0
        self.counter = 0
        self.macros: list[str] = []
        self.in_tablerow = 0

    # -- helpers ---------------------------------------------------------------
    def feat(self, f: str) -> None:
        self.features.add(f)

    def pick(self, xs):  # noqa: ANN001, ANN201
        return xs[self.rng.randrange(len(xs))]

    def chance(self, p: float) -> bool:
        return self.rng.random() < p

    def uid(self, prefix: str) -> str:
        self.counter += 1
        return f"{prefix}{self.counter}"

    def wc(self) -> str:
        r = self.rng.random()
        if r < 0.55:
            return ""
        return "-" if r < 0.75 else ("~" if r < 0.875 else "+")

    def sep(self) -> str:
        return self.pick([", ", ", ", ",", " , "])

    def ksep(self) -> str:
        return self.pick([": ", ": ", ":", "=", " = "])

    # -- markup ----------------------------------------------------------------
    def tag(self, name: str, expr: str = "") -> str:
        if self.oneline:
            return "\n" + (f"{name} {expr}".rstrip() if expr else name)
        l, r = self.wc(), self.wc()
        if l or r:
            self.feat(f"wc:tag:{l or '.'}{r or '.'}")
        style = self.rng.random()
        body = f"{name} {expr}" if expr else name
        if style < 0.08:
            self.feat("layout-tight")
            return f"{{%{l}{body}{' ' if r else ''}{r}%}}"
        if style < 0.16:
            self.feat("layout-wide")
            return f"{{%{l}\n  {name}\t{expr}\n{r}%}}"
        return f"{{%{l} {body} {r}%}}"

    def output(self, expr: str) -> str:
        if self.oneline:
            return "\necho " + expr
        l, r = self.wc(), self.wc()
        if l or r:
            self.feat(f"wc:output:{l or '.'}{r or '.'}")
        style = self.rng.random()
        if style < 0.08 and expr[:1] not in "-+~":
            self.feat("layout-tight")
            return f"{{{{{l}{expr}{' ' if r else ''}{r}}}}}"
        if style < 0.16:
            self.feat("layout-wide")
            return f"{{{{{l}\n\t{expr}\n {r}}}}}"
        return f"{{{{{l} {expr} {r}}}}}"

    # -- expressions -----------------------------------------------------------
    def prim(self, kind: str = "any") -> str:
        p, f = self.pick(prims(kind))
        self.feat(f)
        return p

    def val(self) -> str:
        """A primitive biased towards defined, printable values."""
        if self.chance(0.6):
            return self.pick(["s", "n", "u", "arr", "a.b", "a.x", "items[0].t", "'lit'", '"dq"', "3", "2.5",
                              "t", "f", "x", "v", "i", "w", "a.b[1]", "e.f", "words", "'a${n}'", "(1..3)"])
        if self.chance(0.12):
            return self.tstr()
        return self.prim()

    def tstr(self) -> str:
        """A template string whose literal segments mix quote kinds."""
        self.feat("tstr-generated")
        q = self.pick(["'", '"'])
        other = '"' if q == "'" else "'"
        lits = ["it" + "'" + "s", 'say "hi"', "'", '"', "a'b", 'c"d', "plain ", "\\\\", "\\n", "\\${z}", "$ {z}", "{ }",
                "é", "%} }}"]
        interps = ["${s}", "${n}", "${ t }", "${s | upcase}", "${a.b[0]}", "${s | slice: 0, 2}",
                   "${ " + other + "in" + q + "ner" + other + " }", "${x}"]
        parts = []
        for k in range(self.rng.randint(2, 5)):
            if k % 2 == 0:
                parts.append(self.pick(lits).replace(q, "\\" + q))
            else:
                parts.append(self.pick(interps))
        if not any(p.startswith("${") for p in parts):
            parts.insert(1, "${s}")
        return q + "".join(parts) + q

    def num(self) -> str:
        if self.chance(0.85):
            return self.pick(["1", "2", "3", "n", "m", "a.b[0]", "arr.size", "0", "-1"])
        return self.prim("num")

    def lam(self, path_only: bool = False) -> str:
        v = self.pick(["i", "it", "x"])
        body = self.pick([lambda: f"{v}.x", lambda: f"{v}.t", lambda: f"{v}", lambda: f"{v}['x']"] if path_only else [
            lambda: f"{v}.x", lambda: f"{v}.x == {self.num()}", lambda: f"{v}.x > 1 and {v}.x < 3",
            lambda: f"not {v}.f", lambda: f"{v}.t contains 'o'", lambda: f"{v}",
            lambda: f"({v}.f or {v}.x == 3) and {v}.t", lambda: f"{v}.x in arr",
            lambda: f"{v}.t == s or {v}.x >= n",
        ])()
        r = self.rng.random()
        if r < 0.6:
            self.feat("lambda-1")
            return f"{v} => {body}"
        if r < 0.8:
            self.feat("lambda-1-paren")
            return f"({v}) => {body}"
        self.feat("lambda-2")
        return f"({v}, idx) => {body if self.chance(0.5) or path_only else 'idx == 1'}"

    def filt(self) -> str:
        if self.chance(0.3):
            return self.pick(SIMPLE_FILTERS)
        self.feat("filter-with-args")
        s, k = self.sep(), self.ksep()
        forms = [
            lambda: f"append: {self.val()}", lambda: f"prepend: {self.val()}",
            lambda: f"slice: {self.num()}{s}{self.num()}", lambda: f"slice: {self.num()}",
            lambda: f"replace: {self.prim()}{s}{self.val()}", lambda: f"default: {self.val()}",
            lambda: f"default: {self.val()}{s}allow_false{k}{self.pick(['true', 'false', 't'])}",
            lambda: "join: " + self.pick(["', '", '"-"', "s"]), lambda: "split: ','",
            lambda: f"plus: {self.num()}", lambda: f"minus: {self.num()}",
            lambda: f"times: {self.pick(['2', '2.5', 'n'])}", lambda: "divided_by: 2", lambda: "modulo: 3",
            lambda: f"at_least: {self.num()}", lambda: f"at_most: {self.num()}", lambda: "round: 1",
            lambda: f"truncate: {self.num()}{s}'…'", lambda: "truncate: 4",
            lambda: f"truncatewords: 1{s}\"~\"", lambda: f"map: {self.lam(True)}", lambda: f"sum: {self.lam(True)}", lambda: f"sort: {self.lam(True)}", lambda: "map: 'x'",
            lambda: f"where: {self.lam()}", lambda: f"where: 'x'{s}{self.num()}", lambda: "where: 'f'",
            lambda: f"reject: {self.lam()}", lambda: f"find: {self.lam()}", lambda: f"find_index: {self.lam()}",
            lambda: f"has: 'x'{s}{self.num()}", lambda: "sort: 'x'",
            lambda: f"concat: {self.pick(['arr', 'words', 'a.b'])}", lambda: f"json: indent{k}2",
            lambda: f"t: count{k}{self.num()}{s}plural{k}'many'", lambda: f"t: who{k}{self.val()}",
            lambda: "date: '%Y'", lambda: f"ngettext: 'many'{s}{self.num()}", lambda: f"remove: {self.prim()}",
            lambda: "remove_first: 'l'", lambda: f"replace_first: 'l'{s}'L'",
            lambda: f"replace_last: 'l'{s}\"L\"", lambda: "sum: 'x'", lambda: "compact: 'x'", lambda: "uniq: 'x'",
        ]
        out = self.pick(forms)()
        if s in out[out.index(":"):] if ":" in out else False:
            self.feat("filter-multi-arg")
        if "allow_false" in out or "indent" in out or "count" in out or "who" in out:
            self.feat("filter-kwarg")
        return out

    def filters(self, lo: int = 0, hi: int = 3) -> str:
        n = self.rng.randint(lo, hi)
        if not n:
            return ""
        if n > 1:
            self.feat("filter-chain")
        pipe = self.pick([" | ", " | ", "|", " |", "| "])
        return "".join(pipe + self.filt() for _ in range(n))

    def filtered(self, depth: int = 0) -> str:
        """A filtered (possibly ternary) expression, as accepted by output/echo/assign."""
        r = self.rng.random()
        if r < 0.12:
            self.feat("array-literal")
            left = self.sep().join(self.val() for _ in range(self.rng.randint(2, 4)))
            if self.chance(0.15):
                left += ","
                self.feat("array-literal-trailing-comma")
        else:
            left = self.val() if self.chance(0.7) else self.prim()
        expr = left + self.filters(0, 3)
        if self.chance(0.22):
            self.feat("ternary")
            expr += f" if {self.boolean(depth + 1)}"
            if self.chance(0.75):
                self.feat("ternary-else")
                expr += f" else {self.val() if self.chance(0.7) else self.prim()}"
                if self.chance(0.5):
                    self.feat("ternary-else-filters")
                    expr += self.filters(1, 2)
            if self.chance(0.4):
                self.feat("ternary-tail-filters")
                expr += " || " + self.filt() + self.filters(0, 1)
        return expr

    def boolean(self, depth: int = 0) -> str:
        r = self.rng.random()
        if depth >= 3 or r < 0.3:
            if self.chance(0.5):
                return self.pick(["t", "f", "z", "n", "s", "arr", "x", "v", "a.b", "items", "nosuch", "nil",
                                  "true", "false"])
            op = self.pick(CMP_OPS)
            self.feat(f"cmp:{op}")
            if op in ("contains", "in"):
                a, b = self.pick([("arr", self.num()), ("s", "'l'"), ("words", "'a'"), ("a.b", "2"), ("u", "s")])
                return f"{a} contains {b}" if op == "contains" else f"{b} in {a}"
            right = self.pick([self.num, self.val, lambda: "empty", lambda: "blank", lambda: "nil",
                               lambda: "true", lambda: "'hello'"])()
            return f"{self.val()} {op} {right}"
        if r < 0.45:
            self.feat("bool-not")
            return f"not {self.boolean(depth + 1)}"
        if r < 0.6:
            self.feat("bool-group")
            return f"({self.boolean(depth + 1)})"
        op = self.pick(["and", "or"])
        self.feat(f"bool-{op}")
        return f"{self.boolean(depth + 1)} {op} {self.boolean(depth + 1)}"

    # -- simple statements -----------------------------------------------------
    def block(self, depth: int, in_loop: bool = False, lo: int = 0, hi: int = 3) -> str:
        n = self.rng.randint(lo, hi)
        return "".join(self.stmt(depth, in_loop) for _ in range(n))

    def text(self) -> str:
        if self.oneline:
            return ""
        return self.pick(TEXTS)

    def comment(self) -> str:
        r = self.rng.random()
        if self.oneline:
            if r < 0.7:
                self.feat("liquid-line-comment")
                return "\n#" + self.pick([" a comment", " {{ x }}", "", "##", "no-space"])
            self.feat("liquid-block-comment")
            # block comment body lines must not be indented (lexer restriction)
            return "\ncomment" + self.NL + self.pick(["hi there", "echo s", "# {{ x }}", "if x"]) + self.NL + "endcomment"
        l, rr = self.wc(), self.wc()
        if l or rr:
            self.feat(f"wc:comment:{l or '.'}{rr or '.'}")
        if r < 0.4:
            h = "#" * self.pick([1, 1, 2, 3])
            self.feat(f"comment-hash-{len(h)}")
            inner = self.pick([" c ", "c", " {{ x }} {% if %} ", "\n multi\n", " x # y "])
            if len(h) == 1:
                inner = inner.replace("#", "")
            return f"{{{h}{l}{inner}{rr}{h}}}"
        if r < 0.7:
            self.feat("comment-inline")
            inner = self.pick(["inline", "a b c", "x\n  # second line", "{{ x }}"])
            return f"{{%{l} # {inner} {rr}%}}"
        self.feat("comment-block")
        inner = self.pick([" c ", "{{ x }}", "{% if %}", "a{% comment %}b{% endcomment %}c", ""])
        return f"{{%{l} comment {self.wc()}%}}{inner}{{%{self.wc()} endcomment {rr}%}}"

    def raw(self) -> str:
        if self.oneline:
            return ""
        self.feat("raw")
        a, b, c, d = self.wc(), self.wc(), self.wc(), self.wc()
        if a or b or c or d:
            self.feat(f"wc:raw:{a or '.'}{b or '.'}{c or '.'}{d or '.'}")
        inner = self.pick([" r ", "{{ x }}", "{% if %}", " \n raw \n ", "", "{# c #}"])
        return f"{{%{a} raw {b}%}}{inner}{{%{c} endraw {d}%}}"

    def loop_args(self, tablerow: bool = False) -> str:
        parts = []
        if self.chance(0.4):
            parts.append(f"limit{self.ksep()}{self.num()}")
        if self.chance(0.35):
            if not tablerow and self.chance(0.3):
                self.feat("offset-continue")
                parts.append(f"offset{self.ksep()}continue")
            else:
                parts.append(f"offset{self.ksep()}{self.num()}")
        if tablerow and self.chance(0.6):
            parts.append(f"cols{self.ksep()}{self.num()}")
        if not tablerow and self.chance(0.3):
            parts.append("reversed")
        self.rng.shuffle(parts)
        for p in parts:
            self.feat(("tablerow-" if tablerow else "for-") + p.split(":")[0].split("=")[0].strip())
        sep = self.pick([" ", " ", ", "])
        s = sep.join(parts)
        if s and sep == ", " and self.chance(0.5):
            s = "," + s
        return (" " + s) if s else ""

    def iterable(self) -> str:
        if self.chance(0.85):
            return self.pick(["arr", "(1..3)", "(1..n)", "a.b", "items", "words", "z", "nosuch", "(n..5)", "s",
                              "e", "a[\"b c\"].d", "arr"])
        return self.prim("iter")

    def kwargs(self, lo: int = 1, hi: int = 3, names: list[str] | None = None) -> str:
        names = names or ["x", "y", "p", "k"]
        n = self.rng.randint(lo, hi)
        sep = self.pick([", ", ", ", " ", ","])
        return sep.join(f"{self.pick(names)}{self.ksep()}{self.val() if self.chance(0.6) else self.prim()}"
                        for _ in range(n))

    def partial_tag(self, tag: str) -> str:
        self.feat(tag)
        name = self.pick(list(PARTIALS)[:4] + list(self.partials))
        q = self.pick(["'", "'", '"'])
        expr = f"{q}{name}{q}"
        if tag == "include" and self.chance(0.15):
            self.feat("include-variable-name")
            expr = "tpl"
        r = self.rng.random()
        if r < 0.25:
            self.feat(f"{tag}-with")
            expr += f" with {self.val()}"
        elif r < 0.5:
            self.feat(f"{tag}-for")
            expr += f" for {self.iterable()}"
        if r < 0.5 and self.chance(0.5):
            self.feat(f"{tag}-as")
            alias = self.pick(["x", "y", "p"])
            expr += f" as {alias}" if self.chance(0.8) else f" as '{alias}'"
        if self.chance(0.4):
            self.feat(f"{tag}-kwargs")
            expr += self.pick([", ", " ", ","]) + self.kwargs()
        return self.tag(tag, expr)

    def translate(self) -> str:
        self.feat("translate")
        args = ""
        names: list[str] = []
        if self.chance(0.6):
            names = self.rng.sample(["you", "who", "count", "context"], self.rng.randint(1, 2))
            args = ", ".join(f"{nm}{self.ksep()}{self.num() if nm == 'count' else self.val()}" for nm in names)
        vars_ = [nm for nm in names if nm != "context"] + ["s"]

        def msg() -> str:
            if self.oneline:
                return ""
            return self.pick(["Hello", " Hi there ", "100% sure", "\n  Multi\n  line\n"]) + "".join(
                f" {{{{ {self.pick(vars_)} }}}}" for _ in range(self.rng.randint(0, 2)))

        out = self.tag("translate", args) + msg()
        if self.chance(0.4):
            self.feat("translate-plural")
            out += self.tag("plural") + msg()
        return out + self.tag("endtranslate")

    # -- statements ------------------------------------------------------------
    def stmt(self, depth: int, in_loop: bool = False) -> str:  # noqa: PLR0911, PLR0912, PLR0915
        r = self.rng.random()
        deep = depth >= self.max_depth
        if r < 0.16:
            return self.text()
        if r < 0.36:
            self.feat("output")
            return self.output(self.filtered())
        if r < 0.40:
            self.feat("echo")
            return self.tag("echo", self.filtered())
        if r < 0.46:
            self.feat("assign")
            eq = " = " if self.oneline else self.pick([" = ", "=", " ="])
            return self.tag("assign", f"{self.pick(ASSIGN_NAMES)}{eq}{self.filtered()}")
        if r < 0.50:
            return self.comment()
        if r < 0.52:
            return self.raw()
        if r < 0.55:
            self.feat("cycle")
            name = ""
            if self.chance(0.4):
                self.feat("cycle-named")
                name = self.pick(["'g': ", '"g": ', "g: ", "s: "])
            # (no interpolated template strings as cycle items: the real cycle group key then
            # hashes an expression object by identity, so a cycle in a partial that is parsed
            # once per iteration never advances - or advances when an address is reused; that
            # nondeterminism belongs to C09, and would make this check flaky)
            vals = []
            while len(vals) < self.rng.randint(1, 3):
                v = self.val() if self.chance(0.7) else self.prim()
                if "${" not in v or "\\${" in v:
                    vals.append(v)
            return self.tag("cycle", name + ", ".join(vals))
        if r < 0.58:
            t = self.pick(["increment", "decrement"])
            self.feat(t)
            return self.tag(t, self.pick(["k", "cnt", "n", "a-b"]))
        if r < 0.62:
            return self.partial_tag("include")
        if r < 0.66:
            return self.partial_tag("render")
        if in_loop and r < 0.69:
            t = self.pick(["break", "continue"])
            self.feat(t)
            if self.chance(0.7):
                return self.tag("if", self.boolean()) + self.tag(t) + self.tag("endif")
            return self.tag(t)
        if r < 0.71 and self.macros:
            self.feat("call")
            args = []
            for _ in range(self.rng.randint(0, 3)):
                args.append(self.val() if self.chance(0.6) else f"{self.pick(['a', 'b', 'zz'])}{self.ksep()}{self.val()}")
            nm = self.pick([*self.macros, "nosuchmacro"])
            if self.chance(0.1):
                nm = f"'{nm}'"
            return self.tag("call", (nm + " " + self.sep().join(args)).strip())
        if r < 0.74 and not self.oneline:
            return self.liquid(depth, in_loop)
        if r < 0.76:
            return self.translate()
        if deep:
            self.feat("output")
            return self.output(self.filtered())
        # block tags ------------------------------------------------------------
        d = depth + 1
        if r < 0.82:
            t = "if" if self.chance(0.75) else "unless"
            self.feat(t)
            out = self.tag(t, self.boolean()) + self.block(d, in_loop)
            for _ in range(self.pick([0, 0, 1, 2])):
                self.feat(f"{t}-elsif")
                out += self.tag("elsif", self.boolean()) + self.block(d, in_loop)
            if self.chance(0.5):
                self.feat(f"{t}-else")
                out += self.tag("else") + self.block(d, in_loop)
            return out + self.tag("end" + t)
        if r < 0.86:
            self.feat("case")
            out = self.tag("case", self.val())
            if not self.oneline:
                out += self.pick(["", "", "\n  ", " "])
            for _ in range(self.rng.randint(0, 3)):
                n = self.rng.randint(1, 3)
                if n > 1:
                    self.feat("when-multiple")
                seps = [self.pick([", ", " or ", ","]) for _ in range(n - 1)]
                if " or " in seps:
                    self.feat("when-or")
                vals = [self.pick(["3", "n", "'hello'", "s", "nil", "1", "2", "true", "x", "'a${n}'", "empty"])
                        for _ in range(n)]
                expr = vals[0] + "".join(sp + v for sp, v in zip(seps, vals[1:]))
                out += self.tag("when", expr) + self.block(d, in_loop)
            if self.chance(0.5):
                self.feat("case-else")
                out += self.tag("else") + self.block(d, in_loop)
            return out + self.tag("endcase")
        if r < 0.91:
            self.feat("for")
            var = self.pick(LOOP_VARS)
            if self.chance(0.12):
                self.feat("for-array-literal")
                head = f"{var} in " + ", ".join(self.val() for _ in range(self.rng.randint(2, 3)))
            else:
                head = f"{var} in {self.iterable()}{self.loop_args()}"
            body = self.block(d, True, 1, 3)
            if self.chance(0.4):
                body += self.output(self.pick(["forloop.index", "forloop.first", "forloop.length", "forloop.rindex0",
                                               "forloop.parentloop.index", var]))
            out = self.tag("for", head) + body
            if self.chance(0.3):
                self.feat("for-else")
                out += self.tag("else") + self.block(d, in_loop)
            return out + self.tag("endfor")
        if r < 0.93 and self.shopify and not self.in_tablerow:
            # (a tablerow nested in a tablerow is rejected by the real parser: its end-tag set
            # is the *string* "endtablerow", so `"tablerow" in end` is true)
            self.feat("tablerow")
            var = self.pick(LOOP_VARS)
            head = f"{var} in {self.iterable()}{self.loop_args(tablerow=True)}"
            self.in_tablerow += 1
            try:
                body = self.block(d, False, 1, 2) + self.output(
                    self.pick([var, "tablerowloop.col", "tablerowloop.row", "tablerowloop.col_last"]))
            finally:
                self.in_tablerow -= 1
            return self.tag("tablerow", head) + body + self.tag("endtablerow")
        if r < 0.95:
            self.feat("capture")
            return self.tag("capture", self.pick(ASSIGN_NAMES)) + self.block(d, in_loop) + self.tag("endcapture")
        if r < 0.97:
            self.feat("with")
            args = self.kwargs(0, 3, ["v", "w", "x", "s"]) if self.chance(0.9) else ""
            return self.tag("with", args) + self.block(d, in_loop) + self.tag("endwith")
        if r < 0.985:
            self.feat("macro")
            name = self.uid("m")
            params = []
            for pn in self.rng.sample(["a", "b", "c"], self.rng.randint(0, 3)):
                if self.chance(0.5):
                    self.feat("macro-default")
                    params.append(f"{pn}{self.ksep()}{self.val() if self.chance(0.6) else self.prim()}")
                else:
                    params.append(pn)
            body = self.block(d, False, 0, 2) + self.output(self.pick(["a", "b", "c", "args", "kwargs | size", "s"]))
            nm = f"'{name}'" if self.chance(0.1) else name
            out = self.tag("macro", (nm + " " + self.sep().join(params)).strip()) + body + self.tag("endmacro")
            self.macros.append(name)
            if self.chance(0.7):
                self.feat("call")
                out += self.tag("call", f"{name} {self.val()}{self.sep()}b{self.ksep()}{self.val()}")
            return out
        self.feat("block")
        name = self.uid("blk")
        req = ""
        if self.chance(0.1):
            self.feat("block-required")
            req = " required"
        end = ""
        if self.chance(0.4):
            self.feat("block-named-end")
            end = name
        return self.tag("block", name + req) + self.block(d, in_loop) + self.tag("endblock", end)

    # -- liquid tag --------------------------------------------------------------
    def liquid(self, depth: int, in_loop: bool) -> str:
        self.feat("liquid")
        l, r = self.wc(), self.wc()
        if l or r:
            self.feat(f"wc:liquid:{l or '.'}{r or '.'}")
        self.oneline += 1
        try:
            body = self.block(depth + 1, in_loop, 0, 5)
        finally:
            self.oneline -= 1
        lines = [ln for ln in body.split("\n") if ln]
        if not lines:
            return f"{{%{l} liquid {r}%}}"
        first_inline = self.chance(0.3) and not lines[0].startswith("comment")
        out = ""
        for k, ln in enumerate(lines):
            ind = self.pick(["", "  ", "\t", "    "])
            ln = ln.replace(self.NL, "\n")
            if k == 0 and first_inline:
                out += " " + ln
            else:
                out += "\n" + ind + ln
            if self.chance(0.1):
                out += self.pick(["  ", "\n", "\t"])
        end = self.pick(["\n", " ", "\n  "])
        return f"{{%{l} liquid{out}{end}{r}%}}"


def random_case(rng: random.Random, shopify: bool, max_depth: int = 3) -> tuple[str, dict[str, str], set[str]]:
    """(root source, partial templates, features)."""
    g = Gen(rng, shopify=shopify, max_depth=max_depth)
    # 0-2 generated partials the root may include/render
    for _ in range(rng.choice([0, 0, 1, 2])):
        name = g.uid("r")
        g2 = Gen(rng, shopify=shopify, max_depth=1)
        g.partials[name] = g2.block(0, False, 1, 3)
        g.features |= g2.features
    if rng.random() < 0.08:
        g.feat("extends")
        base = rng.choice(["base", "mid", "reqbase"])
        q = rng.choice(["'", '"'])
        src = g.tag("extends", f"{q}{base}{q}")
        for b in rng.sample(["b1", "b2", "b3", "rq"], rng.randint(0, 3)):
            body = g.block(1, False, 0, 2)
            if g.chance(0.5):
                g.feat("block-super")
                body += g.output("block.super")
            src += g.text() + g.tag("block", b) + body + g.tag("endblock", b if g.chance(0.5) else "")
    else:
        src = g.block(0, False, 1, 5)
    templates = dict(PARTIALS)
    templates.update(g.partials)
    return src, templates, g.features
