"""C19 runner: law bookkeeping, execution wrappers, unit registry, minimisation."""

from __future__ import annotations

from typing import Any
from typing import Callable

from .c19_lib import Engine
from .c19_lib import Res
from .c19_lib import jn
from .c19_lib import shrink_inp
from .c19_lib import skey

# unit name -> (filters owned, generator(rng, i) -> inp, case(R, inp) -> None)
MAX_MINIMISATIONS = 40

# Laws that relate several applications to each other.  When a filter also breaks one of
# its reference laws in the same case, the relational failure is the same mechanism seen
# twice and only the reference law is reported.
DERIVED = {
    "form-equivalence", "template-equals-registry", "idempotent", "order-independent",
    "first-of-where", "index-of-find", "item-at-find-index", "iff-find-index",
    "partition-with-where", "partition-with-reject", "size-is-additive", "mirror-of-prepend",
    "size-drops-by-occurrences", "size-drops-by-one-occurrence", "replacing-by-itself-is-identity",
    "lstrip-then-rstrip", "keeps-the-rest", "join-undoes-split", "split-undoes-join", "involution",
    "commutative", "undoes-plus", "undoes-minus", "undoes-times", "quotient-times-divisor-plus-remainder",
    "never-longer-than-limit-or-input", "prefix-plus-suffix-is-input", "second-argument-defaults-to-empty",
    "decode-undoes-encode", "never-double-escapes", "unescapes-to-input",
}

UNITS: dict[str, tuple[tuple[str, ...], Callable[..., dict[str, Any]], Callable[..., None]]] = {}


def unit(name: str, filters: tuple[str, ...], gen: Callable[..., dict[str, Any]]):  # noqa: ANN201
    def deco(fn: Callable[..., None]) -> Callable[..., None]:
        UNITS[name] = (filters, gen, fn)
        return fn

    return deco


# where a template can bind a variable other than render data
LOCAL_SITES = {
    "assign": "{% assign t = tv %}OUT",
    "capture": "{% capture t %}{{ tv }}{% endcapture %}OUT",
    "for": "{% for t in tvs %}OUT{% endfor %}",
    "with": "{% with t: tv %}OUT{% endwith %}",
    "macro": "{% macro m t %}OUT{% endmacro %}{% call m tv %}",
    "nested": "{% for q in tvs %}{% if true %}{% assign t = q %}{% endif %}{% endfor %}OUT",
}


class Runner:
    def __init__(self, ctx: Any, eng: Engine | None = None):
        self.ctx = ctx
        self.eng = eng or Engine()
        self.recording = True
        self.fails: list[tuple[str, str, str, Any]] = []
        self.minimisations: dict[tuple[str, str], int] = {}

    # -- bookkeeping ----------------------------------------------------------
    def law(self, filt: str, law: str, ok: bool, q: Any = "", detail: Any = None) -> bool:
        """One evaluation of law *law* of filter *filt*.  q (str or callable) qualifies
        the input class of a failure."""
        if self.recording:
            c = self.ctx
            c.ev()
            c.count(f"law:{filt}")
            c.seen("filters", filt)
            c.seen("laws", f"{filt}:{law}")
        if not ok:
            if callable(q):
                q = q()
            self.fails.append((filt, law, q or "", detail))
        return ok

    # -- execution ------------------------------------------------------------
    def _guard(self, owner: str, res: Res, before: Any, data: Any, cls: str, via: str) -> Res:
        self.law(owner, "no-foreign-exception", res.kind != "foreign",
                 lambda: res.exc + (":" + cls if cls else ""),
                 {"via": via, "exc": res.exc, "msg": res.msg})
        self.law(owner, "input-not-mutated", skey(data) == before, "", {"via": via})
        return res

    def T(self, owner: str, chain: str, cls: str = "", decode: str = "json", **data: Any) -> Res:
        before = skey(data)
        res = self.eng.T(chain, data, decode)
        if self.recording:
            self.ctx.count("template_applications")
        return self._guard(owner, res, before, data, cls, "template:" + chain)

    def TL(self, owner: str, site: str, chain: str, value: Any, cls: str = "", **data: Any) -> Res:
        """`{{ x | <chain> | json }}` where the chain refers to a variable `t` that is bound to
        *value* by a template construct (assign, capture, enclosing for, with, macro argument)
        instead of being render data."""
        import json as _json

        d = dict(data)
        d["tv"] = value
        d["tvs"] = [value]
        src = LOCAL_SITES[site].replace("OUT", "{{ x | " + chain + " | json }}")
        before = skey(d)
        res = self.eng.render(src, d)
        if res.ok:
            try:
                res = Res("ok", _json.loads(res.value))
            except ValueError:
                res = Res("foreign", None, "UndecodableOutput", res.value[:200])
        if self.recording:
            self.ctx.count("template_applications")
            self.ctx.count("template_local_variable_applications")
            self.ctx.seen("local_binding_sites", site)
        return self._guard(owner, res, before, d, cls, f"template:{site}:{chain}")

    def locals_agree(self, owner: str, chain_t: str, ref: Res, value: Any, law: str,
                     sites: tuple[str, ...] | None = None, **data: Any) -> None:
        """The chain (which mentions `t`) must give the same result as *ref* (obtained with the
        value passed as render data) wherever `t` is bound."""
        if ref.kind == "foreign":
            return
        for site in sites or tuple(LOCAL_SITES):
            if site == "capture" and not isinstance(value, str):
                continue  # capture stringifies
            r = self.TL(owner, site, chain_t, value, **data)
            if r.kind == "foreign":
                continue
            ok = r.kind == ref.kind and (not r.ok or skey(r.value) == skey(ref.value))
            self.law(owner, law, ok, site, None if ok else {"chain": chain_t, "t": jn(value), "bound_by": site,
                                                         "with_local": r.brief(), "with_render_data": ref.brief()})

    def D(self, owner: str, name: str, x: Any, *args: Any, cls: str = "", **kw: Any) -> Res:
        data = (x, args, kw)
        before = skey(data)
        res = self.eng.D(name, x, *args, **kw)
        if self.recording:
            self.ctx.count("registry_applications")
        return self._guard(owner, res, before, data, cls, "registry:" + name)

    def both(self, name: str, x: Any, *args: Any, cls: str = "", decode: str = "json",
             owner: str | None = None) -> Res:
        """Apply filter *name* through a template and through the registry, demand that
        the two agree, return the template result (JSON space)."""
        owner = owner or name
        data = {"x": x}
        for i, a in enumerate(args):
            data[f"a{i}"] = a
        chain = name + (": " + ", ".join(f"a{i}" for i in range(len(args))) if args else "")
        t = self.T(owner, chain, cls=cls, decode=decode, **data)
        d = self.D(owner, name, x, *args, cls=cls)
        if t.kind == "foreign" or d.kind == "foreign":
            return t if t.kind == "foreign" else d
        agree = (t.kind == d.kind) and (not t.ok or skey(t.value) == skey(jn(d.value)))
        self.law(owner, "template-equals-registry", agree, cls,
                 {"template": t.brief(), "registry": jn(d.value) if d.ok else d.brief()})
        if self.recording:
            self.ctx.count("template_vs_registry")
        return t

    def expect(self, filt: str, law: str, res: Res, want: Any, q: Any = "", extra: Any = None) -> bool:
        """res must be a success whose value equals *want* (strict, JSON space)."""
        if res.kind == "foreign":
            return False  # already reported by no-foreign-exception
        ok = res.ok and skey(res.value) == skey(jn(want))
        return self.law(filt, law, ok, q,
                        None if ok else {"want": jn(want), "got": res.brief(), "extra": extra})

    def expect_ok(self, filt: str, law: str, res: Res, q: Any = "") -> bool:
        if res.kind == "foreign":
            return False
        return self.law(filt, law, res.ok, q, None if res.ok else {"got": res.brief()})

    # -- one case + minimisation ---------------------------------------------
    def run_case(self, uname: str, inp: dict[str, Any]) -> list[tuple[str, str, str, Any]]:
        self.fails = []
        UNITS[uname][2](self, inp)
        fails = self.fails
        # a form-equivalence failure explained by a reference-law failure of the same
        # filter in the same case is the same mechanism, named more precisely there
        precise = {f for f, law, _q, _d in fails if law not in DERIVED}
        return [t for t in fails if not (t[1] in DERIVED and t[1] != "template-equals-registry" and t[0] in precise)]

    def process(self, uname: str, inp: dict[str, Any]) -> None:
        ctx = self.ctx
        fails = self.run_case(uname, inp)
        if not fails:
            return
        seen_fl = set()
        for filt, law, q, detail in fails:
            if (filt, law) in seen_fl:
                continue
            seen_fl.add((filt, law))
            key0 = _key(filt, law, q)
            n = self.minimisations.get((filt, law), 0)
            if (key0 in ctx.violations and n >= 3) or n >= MAX_MINIMISATIONS:
                if key0 not in ctx.violations:
                    # budget spent: file under the commonest minimised key of this law so
                    # that keys stay mechanism names (the qualifier of an unminimised
                    # witness may mention bystanders)
                    pre = f"{filt}:{law}"
                    cands = [(v["count"], kk) for kk, v in ctx.violations.items()
                             if kk == pre or kk.startswith(pre + ":")]
                    key0 = max(cands)[1] if cands else key0
                    ctx.count("violations_filed_without_minimisation")
                ctx.violation(key0, _what(filt, law, q, detail),
                              {"unit": uname, "inp": inp, "detail": detail, "minimised": False})
                continue
            self.minimisations[(filt, law)] = n + 1
            small, q2, d2 = self.minimise(uname, inp, filt, law)
            ctx.violation(_key(filt, law, q2), _what(filt, law, q2, d2),
                          {"unit": uname, "inp": small, "detail": d2, "minimised": True})
        self.fails = []

    def minimise(self, uname: str, inp: dict[str, Any], filt: str, law: str):  # noqa: ANN201
        rec = self.recording
        self.recording = False
        try:
            def still(d: dict[str, Any]) -> bool:
                return any(f == filt and lw == law for f, lw, _q, _d in self.run_case(uname, d))

            small = shrink_inp(inp, still)
            q2, d2 = "", None
            for f, lw, q, d in self.run_case(uname, small):
                if f == filt and lw == law:
                    q2, d2 = q, d
                    break
            return small, q2, d2
        finally:
            self.recording = rec
            self.fails = []


def _key(filt: str, law: str, q: str) -> str:
    return f"{filt}:{law}" + (f":{q}" if q else "")


def _what(filt: str, law: str, q: str, detail: Any) -> str:
    s = f"filter '{filt}' breaks law '{law}'" + (f" ({q})" if q else "")
    if detail is not None:
        s += " " + repr(detail)[:300]
    return s
