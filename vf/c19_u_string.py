"""C19 units: string filters.

Documentation used (filter_reference.md): upcase / downcase ("all characters in
uppercase/lowercase"), capitalize ("first character in upper case and the rest
lowercase"), append / prepend ("If either the input value or argument are not a string,
they will be coerced to a string before concatenation"), strip / lstrip / rstrip (leading
and/or trailing whitespace removed), replace / replace_first / replace_last, remove /
remove_first / remove_last (all / first / last occurrence; second argument of replace and
replace_first defaults to the empty string), truncate ("truncated to length minus the
length of the second argument, with the second argument appended"; defaults 50 and
"..."), truncatewords (defaults 15 and "..."; "If the input string already has fewer than
the given number of words, it is returned unchanged"; CTS: whitespace runs become single
spaces when truncating, a word count of 0 means 1).  Non-string inputs and arguments are
stringified the Liquid way (nil -> "", true/false, decimal integers).
"""

from __future__ import annotations

import random
from typing import Any

from .c19_lib import ALL_CHARS
from .c19_lib import TRICKY_WORDS
from .c19_lib import g_int
from .c19_lib import g_text
from .c19_lib import lstr
from .c19_lib import value_class
from .c19_run import Runner
from .c19_run import unit

# letters whose case mapping is one-to-one and context free (no sharp s, no final sigma)
CASE_CHARS = list("abcxyzABCXYZ019 ,.-!<>&'\"\t\n") + ["é", "É", "ñ", "Ñ", "Ü", "ü", "ж", "Ж", "λ", "Λ", "Ω", "ω", "测", "😀", "ø", "Ø"]
WSCHARS = [" ", "\t", "\n", "\r", " ", " "]


def _input(rng: random.Random, alphabet: Any = None) -> Any:
    c = rng.random()
    if c < 0.8:
        return g_text(rng, 0, 12, alphabet)
    return rng.choice((None, 0, 5, -42, g_int(rng), 7.5, True, False, ""))


def gen_strcase(rng: random.Random, i: int) -> dict[str, Any]:
    x = _input(rng, CASE_CHARS)
    if rng.random() < 0.15:
        # case mappings that are not one-to-one: upcase / downcase only (capitalize is skipped)
        return {"mode": "tricky", "x": " ".join(rng.sample(TRICKY_WORDS, rng.randint(1, 3))), "arg": ""}
    if isinstance(x, str) and rng.random() < 0.5:
        pad = lambda: "".join(rng.choice(WSCHARS[:4] if rng.random() < 0.8 else WSCHARS) for _ in range(rng.randint(0, 3)))  # noqa: E731
        x = pad() + x + pad()
    c = rng.random()
    if c < 0.6:
        arg: Any = g_text(rng, 0, 5, CASE_CHARS)
    else:
        arg = rng.choice((None, True, False, 5, -3, g_int(rng), 7.5, [1, 2], ["a", None], ""))
    return {"mode": "case", "x": x, "arg": arg}


def _arg_q(arg: Any) -> str:
    c = value_class(arg)
    c = {"true": "bool", "false": "bool", "empty-array": "array", "zero": "int"}.get(c, c)
    return c + "-argument"


@unit("strcase", ("upcase", "downcase", "capitalize", "append", "prepend", "strip", "lstrip", "rstrip"), gen_strcase)
def case_strcase(R: Runner, inp: dict[str, Any]) -> None:
    x, arg = inp["x"], inp["arg"]
    s = lstr(x)
    q = "" if isinstance(x, str) else value_class(x) + "-input"
    R.expect("upcase", "all-characters-uppercase", R.both("upcase", x), s.upper(), q)
    R.expect("downcase", "all-characters-lowercase", R.both("downcase", x), s.lower(), q)
    R.expect("upcase", "idempotent", R.T("upcase", "upcase | upcase", x=x), s.upper(), q)
    R.expect("downcase", "idempotent", R.T("downcase", "downcase | downcase", x=x), s.lower(), q)
    if inp["mode"] == "tricky":
        q = "special-case-mapping"
        R.expect("upcase", "all-characters-uppercase", R.both("upcase", x), s.upper(), q)
        R.expect("downcase", "all-characters-lowercase", R.both("downcase", x), s.lower(), q)
        return
    R.expect("capitalize", "first-upper-rest-lower", R.both("capitalize", x), s[:1].upper() + s[1:].lower(), q)
    R.expect("strip", "no-outer-whitespace", R.both("strip", x), s.strip(), q)
    R.expect("lstrip", "no-leading-whitespace", R.both("lstrip", x), s.lstrip(), q)
    R.expect("rstrip", "no-trailing-whitespace", R.both("rstrip", x), s.rstrip(), q)
    R.expect("strip", "lstrip-then-rstrip", R.T("strip", "lstrip | rstrip", x=x), s.strip(), q)
    R.expect("lstrip", "keeps-the-rest", R.T("lstrip", "lstrip | size", x=x), len(s) - (len(s) - len(s.lstrip())), q)
    R.expect("rstrip", "keeps-the-rest", R.T("rstrip", "rstrip | size", x=x), len(s.rstrip()), q)
    a = lstr(arg)
    qa = lambda: _arg_q(arg) if not isinstance(arg, str) else q  # noqa: E731
    R.expect("append", "input-then-argument", R.both("append", x, arg), s + a, qa)
    R.expect("prepend", "argument-then-input", R.both("prepend", x, arg), a + s, qa)
    R.expect("append", "size-is-additive", R.T("append", "append: a | size", x=x, a=arg), len(s) + len(a), qa)
    # append and prepend mirror each other: (a | append: x) == (x | prepend: a)
    m1 = R.T("append", "append: b", x=arg, b=x)
    m2 = R.T("prepend", "prepend: b", x=x, b=arg)
    if m1.ok and m2.ok and isinstance(x, str) and isinstance(arg, str):
        R.law("append", "mirror-of-prepend", m1.value == m2.value,
              lambda: _arg_q(x) if not isinstance(x, str) else "",
              {"append": m1.value, "prepend": m2.value})


# ---------------------------------------------------------------------------


def gen_strrepl(rng: random.Random, i: int) -> dict[str, Any]:
    alpha = rng.choice(("ab", "abc ", "a,b <é", "my "))
    c = rng.random()
    x: Any = g_text(rng, 0, 12, alpha) if c < 0.9 else rng.choice((5, 155, None, 15.5))
    s = lstr(x)
    c = rng.random()
    if s and c < 0.6:
        i0 = rng.randrange(len(s))
        needle: Any = s[i0: i0 + rng.randint(1, 3)]
    elif c < 0.9:
        needle = g_text(rng, 1, 3, alpha)
    else:
        needle = rng.choice((5, 1, True, None))
    sub: Any = rng.choice(("", "X", "your", needle, g_text(rng, 0, 3, alpha), 7, None))
    words = [g_text(rng, 1, 4, "abcé.,") for _ in range(rng.randint(0, 7))]
    gaps = [rng.choice((" ", " ", "  ", "\t", "\n", " \n ")) for _ in words]
    w = "".join(a + b for a, b in zip(words, gaps))
    if rng.random() < 0.5:
        w = w.strip()
    if rng.random() < 0.15:
        w = " " + w
    return {"mode": "repl", "x": x, "needle": needle, "sub": sub,
            "n": rng.choice((rng.randint(0, len(s) + 3), rng.randint(0, 8), "$default", str(rng.randint(1, 9)), 10**30)),
            "end": rng.choice(("$default", "...", "", "--", ", and so on", "…", 1)),
            "w": w, "wn": rng.choice((rng.randint(0, 9), rng.randint(1, 4), "$default", 2**31, 10**20))}


def _replace_last(s: str, a: str, b: str) -> str:
    i = s.rfind(a)
    return s if i < 0 else s[:i] + b + s[i + len(a):]


def _replace_first(s: str, a: str, b: str) -> str:
    i = s.find(a)
    return s if i < 0 else s[:i] + b + s[i + len(a):]


def _replace_all(s: str, a: str, b: str) -> str:
    out = []
    i = 0
    while True:
        j = s.find(a, i)
        if j < 0:
            out.append(s[i:])
            return "".join(out)
        out.append(s[i:j])
        out.append(b)
        i = j + len(a)


@unit("strrepl", ("replace", "replace_first", "replace_last", "remove", "remove_first", "remove_last",
                  "truncate", "truncatewords"), gen_strrepl)
def case_strrepl(R: Runner, inp: dict[str, Any]) -> None:
    x, needle, sub = inp["x"], inp["needle"], inp["sub"]
    s, a, b = lstr(x), lstr(needle), lstr(sub)
    if a != "":
        def q(ref: Any):  # noqa: ANN202
            def f() -> str:
                if ref == "last" and s.rfind(a) == 0:
                    return "only-occurrence-at-start"
                if not isinstance(needle, str):
                    return value_class(needle) + "-argument"
                if not isinstance(sub, str) and ref == "sub":
                    return value_class(sub) + "-argument"
                if not isinstance(x, str):
                    return value_class(x) + "-input"
                if a not in s:
                    return "no-occurrence"
                return ""
            return f

        R.expect("replace", "every-occurrence", R.both("replace", x, needle, sub), _replace_all(s, a, b), q("sub"))
        R.expect("replace_first", "first-occurrence", R.both("replace_first", x, needle, sub), _replace_first(s, a, b), q("sub"))
        R.expect("replace_last", "last-occurrence", R.both("replace_last", x, needle, sub), _replace_last(s, a, b), q("last"))
        R.expect("remove", "every-occurrence", R.both("remove", x, needle), _replace_all(s, a, ""), q(""))
        R.expect("remove_first", "first-occurrence", R.both("remove_first", x, needle), _replace_first(s, a, ""), q(""))
        R.expect("remove_last", "last-occurrence", R.both("remove_last", x, needle), _replace_last(s, a, ""), q("last"))
        # documented defaults: replace / replace_first without a second argument remove
        R.expect("replace", "second-argument-defaults-to-empty", R.T("replace", "replace: a", x=x, a=needle),
                 _replace_all(s, a, ""), q(""))
        R.expect("replace_first", "second-argument-defaults-to-empty",
                 R.T("replace_first", "replace_first: a", x=x, a=needle), _replace_first(s, a, ""), q(""))
        # relations between the filters
        r1 = R.T("remove", "remove: a | size", x=x, a=needle)
        R.expect("remove", "size-drops-by-occurrences", r1, len(s) - len(a) * _count(s, a), q(""))
        r2 = R.T("replace_last", "replace_last: a, a", x=x, a=needle)
        R.expect("replace_last", "replacing-by-itself-is-identity", r2, s, q(""))
        r3 = R.T("replace_first", "replace_first: a, a", x=x, a=needle)
        R.expect("replace_first", "replacing-by-itself-is-identity", r3, s, q(""))
        r4 = R.T("remove_first", "remove_first: a | size", x=x, a=needle)
        R.expect("remove_first", "size-drops-by-one-occurrence", r4, len(s) - (len(a) if a in s else 0), q(""))
        r5 = R.T("remove_last", "remove_last: a | size", x=x, a=needle)
        R.expect("remove_last", "size-drops-by-one-occurrence", r5, len(s) - (len(a) if a in s else 0), q("last"))
    # truncate
    n, end = inp["n"], inp["end"]
    nn = 50 if n == "$default" else int(n)
    ee = "..." if end == "$default" else lstr(end)
    ts = s if isinstance(x, str) else s
    if len(ts) != nn:  # the documentation does not say what happens at exactly the limit
        if n == "$default":
            tr = R.both("truncate", x)
        elif end == "$default":
            tr = R.both("truncate", x, n)
        else:
            tr = R.both("truncate", x, n, end)
        want = ts if len(ts) < nn else ts[: max(0, nn - len(ee))] + ee
        R.expect("truncate", "at-most-length-with-ellipsis", tr, want,
                 lambda: "length-below-ellipsis-size" if nn < len(ee) and len(ts) > nn else
                 ("" if isinstance(x, str) else value_class(x) + "-input"))
        if tr.ok and isinstance(tr.value, str) and nn >= len(ee):
            R.law("truncate", "never-longer-than-limit-or-input", len(tr.value) <= max(nn, 0) or tr.value == ts, "",
                  {"got": tr.value, "limit": nn})
    # truncatewords
    w, wn = inp["w"], inp["wn"]
    wnn = 15 if wn == "$default" else int(wn)
    if wnn <= 0:
        wnn = 1  # CTS: a word count of 0 behaves like 1
    words = w.split()
    if len(words) != wnn:
        if wn == "$default":
            tw = R.both("truncatewords", w)
        elif end == "$default":
            tw = R.both("truncatewords", w, wn)
        else:
            tw = R.both("truncatewords", w, wn, end)
        if len(words) < wnn:
            R.expect("truncatewords", "fewer-words-returned-unchanged", tw, w,
                     lambda: "whitespace-rewritten" if " ".join(words) != w else "")
        else:
            R.expect("truncatewords", "first-words-then-ellipsis", tw, " ".join(words[:wnn]) + ee, "")


def _count(s: str, a: str) -> int:
    n = 0
    i = 0
    while True:
        j = s.find(a, i)
        if j < 0:
            return n
        n += 1
        i = j + len(a)
