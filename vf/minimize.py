"""Delta debugging helpers (witness minimisation)."""

from __future__ import annotations

from typing import Callable
from typing import Sequence
from typing import TypeVar

T = TypeVar("T")


def ddmin(items: Sequence[T], test: Callable[[list[T]], bool], max_calls: int = 400) -> list[T]:
    """Shrink *items* while test(items) stays True.  Bounded number of test calls."""
    cur = list(items)
    calls = 0
    n = 2
    while len(cur) >= 2 and calls < max_calls:
        chunk = max(1, len(cur) // n)
        reduced = False
        i = 0
        while i < len(cur) and calls < max_calls:
            cand = cur[:i] + cur[i + chunk :]
            calls += 1
            if cand and test(cand):
                cur = cand
                n = max(n - 1, 2)
                reduced = True
            else:
                i += chunk
        if not reduced:
            if chunk == 1:
                break
            n = min(len(cur), n * 2)
    return cur


def ddmin_str(s: str, test: Callable[[str], bool], max_calls: int = 400) -> str:
    return "".join(ddmin(list(s), lambda cs: test("".join(cs)), max_calls))
