"""C08 reference model: block resolution over an *abstract* description of templates.

Nothing here parses Liquid text.  A program is ``{name: items}``; an item is a JSON list:

    ["t", text]                          literal text (never contains '{')
    ["v", var]                           {{ var }}
    ["s"]                                {{ block.super }}
    ["b", name, required, body, end]     {% block name [required] %}body{% endblock [end] %}
    ["if", var, body]                    {% if var %}body{% endif %}
    ["for", var, n, body]                {% for var in (1..n) %}body{% endfor %}
    ["forin", var, listvar, body]        {% for var in listvar %}body{% endfor %}
    ["unless", var, None, body]          {% unless var %}body{% endunless %}
    ["case", var, value, body]           {% case var %}{% when 'value' %}body{% endcase %}
    ["with", name, var, body]            {% with name: var %}body{% endwith %}
    ["c", text]                          {# text #}   (renders nothing)
    ["cap", name, body]                  {% capture name %}body{% endcapture %}  (blocks inside
                                         take part in the chain; print with ["v", name])
    ["mac", name, body] / ["call", name] {% macro name %}body{% endmacro %} / {% call name %}
    ["com", body] / ["hcom", body]       {% comment %}body{% endcomment %} / {# body #}: markup
                                         inside is NOT template markup (no definitions)
    ["raw", body]                        {% raw %}body{% endraw %}: body is literal text
    a "b" item with a 6th element "liquid" is emitted in {% liquid %} line form
    ["trow", var, n, body]               {% tablerow var in (1..n) %}body{% endtablerow %} (optional
                                         shopify tag; one table row, one cell per item)
    ["box", None, None, body]            {% box %}body{% endbox %}: a docs-style custom block tag
    ["boxnc", None, None, body]          the same tag written WITHOUT children() (the docs call it
                                         optional); blocks inside still belong to the template
    ["ifeq", var, value, body]           {% if var == value %}body{% endif %}
    ["brk"] / ["cnt"]                    {% break %} / {% continue %}: end the innermost loop /
                                         iteration that is being rendered, wherever it is written
                                         (text already written stays written)
    ["as", name, value]                  {% assign name = 'value' %}
    ["inc", kind, target, kwargs]        {% include|render 'target'[, k: var ...] %}
                                         (target "@var" = {% include var %}, name from scope)
    ["x", parent]                        {% extends 'parent' %}

`expected()` gives the outcome the property demands when template *entry* is rendered:
the chain entry -> ... -> root is followed through the "x" items, every block definition
of every template on the chain (nested ones included) is collected per name with the
most-derived first, and the ROOT's items are rendered with each block occurrence replaced
by definition 0 of its name; ``["s"]`` inside definition k renders definition k+1 (with
its own super = k+2), or nothing when there is none; items outside blocks in non-root
templates are never rendered; `include`/`render` start an independent resolution for
their target.  A definition re-entered while it is being rendered (mutually nested blocks
across templates) is ill-formed: 'recursive-nesting', any LiquidError is accepted.  Errors: most-derived definition required (and reached) -> 'required';
duplicate block names in a template / more than one extends / endblock name mismatch /
a cycle -> structural kinds.
"""

from __future__ import annotations

from typing import Any

Item = list
Program = dict


class RefError(Exception):
    def __init__(self, kind: str, detail: str = "") -> None:
        super().__init__(f"{kind}: {detail}")
        self.kind = kind
        self.detail = detail


STRUCTURAL = ("cycle", "duplicate", "extends2", "endblock")


class _Interrupt(Exception):
    def __init__(self, kind: str) -> None:
        super().__init__(kind)
        self.kind = kind


class Sem:
    """Semantics switch.  The default is the property; the others are *wrong* semantics
    used only to name the mechanism of an observed mismatch."""

    def __init__(self, select: str = "most", sup: str = "next", standalone: str = "own",
                 super_reescape: bool = False) -> None:
        # (wrong) auto-escape reading: the text produced by block.super is escaped again
        self.super_reescape = super_reescape
        self.select = select  # most | least
        self.sup = sup  # next | base | none
        # An `include`d template that has blocks but no `extends`, rendered while a chain
        # of depth >= 2 is being resolved: "own" = it is a chain of one template;
        # "participate" = its block occurrences whose name the including chain defines
        # are resolved by the including chain.  The property statement does not pin
        # this (it speaks of templates linked by extends); both are accepted.
        self.standalone = standalone


class Outcome:
    __slots__ = ("kind", "text", "err", "detail", "stats", "dont_care")

    def __init__(self) -> None:
        self.kind = "out"
        self.text = ""
        self.err = ""
        self.detail = ""
        self.dont_care = False
        self.stats = {
            "supers": 0,  # executed block.super that had a less-derived definition
            "supers_undefined": 0,
            "blocks": 0,  # block occurrences resolved
            "overrides": 0,  # occurrences resolved to a definition of another template
            "nested": 0,  # occurrences resolved while inside another block
            "entries": 0,  # chain resolutions started (1 + include/render entries)
            "max_depth": 0,
            "var_reads": 0,
            "required_defs": 0,
        }

    def sig(self) -> tuple:
        return (self.kind, self.text if self.kind == "out" else self.err)


# ---------------------------------------------------------------------------
# static helpers
# ---------------------------------------------------------------------------


# containers whose body is it[3]
BODY3 = ("for", "forin", "unless", "case", "with", "trow", "box", "boxnc", "ifeq")


def body_index(it: list) -> int | None:
    """Index of the nested item list of a container item (None for leaves)."""
    if it[0] == "b" or it[0] in BODY3:
        return 3
    if it[0] in ("if", "cap", "mac"):
        return 2
    return None


def walk(items: list) -> Any:
    """All items, depth first, with the enclosing block name (or None)."""
    stack = [(it, None) for it in reversed(items)]
    while stack:
        it, encl = stack.pop()
        yield it, encl
        k = it[0]
        if k == "b":
            stack.extend((c, it[1]) for c in reversed(it[3]))
        elif k in ("if", "cap", "mac"):
            stack.extend((c, encl) for c in reversed(it[2]))
        elif k in BODY3:
            stack.extend((c, encl) for c in reversed(it[3]))


def extends_of(items: list) -> list[str]:
    return [it[1] for it, _ in walk(items) if it[0] == "x"]


def block_defs(items: list) -> list[list]:
    return [it for it, _ in walk(items) if it[0] == "b"]


def includes_of(items: list) -> list[list]:
    return [it for it, _ in walk(items) if it[0] == "inc"]


def chain_of(prog: Program, entry: str) -> list[str] | None:
    """entry..root, or None if cyclic / dangling."""
    out = []
    cur: str | None = entry
    while cur is not None:
        if cur in out or cur not in prog:
            return None
        out.append(cur)
        ex = extends_of(prog[cur])
        cur = ex[0] if ex else None
    return out


# ---------------------------------------------------------------------------
# the model
# ---------------------------------------------------------------------------


class _Entry:
    """One chain resolution."""

    __slots__ = ("defs", "reached", "chain", "active")

    def __init__(self) -> None:
        self.defs: dict[str, list[tuple[str, list, bool]]] = {}
        self.reached: set[str] = set()
        self.chain: list[str] = []
        self.active: set[tuple[str, int]] = set()


class Ref:
    def __init__(self, prog: Program, data: dict, sem: Sem | None = None,
                 escape: bool = False) -> None:
        self.prog = prog
        self.data = data
        self.sem = sem or Sem()
        # auto-escape: literal template text is output verbatim, a value coming from a
        # variable is HTML-escaped exactly once, however many block.super levels the
        # text passes through afterwards
        self.escape = escape
        self.macros: dict[str, tuple] = {}
        self.o = Outcome()
        self.budget = 200_000

    # -- chain resolution -------------------------------------------------
    def _load(self, name: str) -> list:
        if name not in self.prog:
            raise RefError("missing", name)
        items = self.prog[name]
        for b in block_defs(items):
            if b[4] is not None and b[4] != b[1]:
                raise RefError("endblock", f"{name}: block {b[1]} closed as {b[4]}")
        return items

    def _resolve(self, entry: str) -> _Entry:
        e = _Entry()
        seen: list[str] = []
        cur: str | None = entry
        while cur is not None:
            if cur in seen:
                raise RefError("cycle", " -> ".join([*seen, cur]))
            seen.append(cur)
            items = self._load(cur)
            ex = extends_of(items)
            if len(ex) > 1:
                raise RefError("extends2", cur)
            names = [b[1] for b in block_defs(items)]
            if len(set(names)) != len(names):
                raise RefError("duplicate", f"{cur}: {names}")
            for b in block_defs(items):
                e.defs.setdefault(b[1], []).append((cur, b[3], bool(b[2])))
                if b[2]:
                    self.o.stats["required_defs"] += 1
            cur = ex[0] if ex else None
        e.chain = seen
        self.o.stats["max_depth"] = max(self.o.stats["max_depth"], len(seen))
        return e

    # -- rendering -----------------------------------------------------------
    def render_entry(self, entry: str, scope: list[dict], out: list[str],
                     ambient: _Entry | None = None) -> None:
        self.o.stats["entries"] += 1
        e = self._resolve(entry)
        root = e.chain[-1]
        own = e
        if (ambient is not None and len(e.chain) == 1 and len(ambient.chain) > 1
                and self.sem.standalone == "participate"):
            e = _Entry()
            e.defs = {**own.defs, **ambient.defs}
            e.reached = ambient.reached
            e.active = ambient.active
            e.chain = ambient.chain
        self._items(self.prog[root], e, None, root, scope, out)
        sel = 0 if self.sem.select == "most" else -1
        for name, lst in own.defs.items():
            if e is not own and name in ambient.defs:  # type: ignore[union-attr]
                continue
            if lst[sel][2] and name not in e.reached:
                # required, but nothing that is rendered ever asks for this name
                self.o.dont_care = True

    def _lookup(self, scope: list[dict], var: str) -> object:
        for fr in reversed(scope):
            if var in fr:
                return fr[var]
        return None

    @staticmethod
    def _str(v: object) -> str:
        if v is None:
            return ""
        if v is True:
            return "true"
        if v is False:
            return "false"
        return str(v)

    def _items(self, items, e, cur, owner, scope, out) -> None:  # noqa: ANN001
        """cur = (block name, index of the definition being rendered) or None;
        owner = template whose text is being rendered (for the override counter)."""
        for it in items:
            self.budget -= 1
            if self.budget < 0:
                raise RefError("model-budget", "reference model ran too long")
            k = it[0]
            if k == "t":
                out.append(it[1])
            elif k == "v":
                self.o.stats["var_reads"] += 1
                txt = self._str(self._lookup(scope, it[1]))
                out.append(html_escape(txt) if self.escape else txt)
            elif k == "s":
                self._super(e, cur, scope, out)
            elif k == "b":
                self._block(it, e, cur, owner, scope, out)
            elif k == "if":
                v = self._lookup(scope, it[1])
                if v is not None and v is not False:
                    self._items(it[2], e, cur, owner, scope, out)
            elif k == "for":
                for i in range(1, it[2] + 1):
                    scope.append({it[1]: i})
                    try:
                        self._items(it[3], e, cur, owner, scope, out)
                    except _Interrupt as intr:
                        if intr.kind == "break":
                            break
                    finally:
                        scope.pop()
            elif k == "trow":
                out.append('<tr class="row1">\n')
                for i in range(1, it[2] + 1):
                    out.append('<td class="col%d">' % i)
                    scope.append({it[1]: i})
                    try:
                        self._items(it[3], e, cur, owner, scope, out)
                    finally:
                        scope.pop()
                    out.append("</td>")
                out.append("</tr>\n")
            elif k in ("box", "boxnc"):
                self._items(it[3], e, cur, owner, scope, out)
            elif k == "ifeq":
                if self._lookup(scope, it[1]) == it[2]:
                    self._items(it[3], e, cur, owner, scope, out)
            elif k == "brk":
                raise _Interrupt("break")
            elif k == "cnt":
                raise _Interrupt("continue")
            elif k == "unless":
                v = self._lookup(scope, it[1])
                if v is None or v is False:
                    self._items(it[3], e, cur, owner, scope, out)
            elif k == "case":
                if self._lookup(scope, it[1]) == it[2]:
                    self._items(it[3], e, cur, owner, scope, out)
            elif k == "with":
                scope.append({it[1]: self._lookup(scope, it[2])})
                try:
                    self._items(it[3], e, cur, owner, scope, out)
                finally:
                    scope.pop()
            elif k in ("c", "com", "hcom"):
                pass
            elif k == "raw":
                out.append(emit_items(it[1]))
            elif k == "cap":
                sub: list[str] = []
                self._items(it[2], e, cur, owner, scope, sub)
                scope[1][it[1]] = "".join(sub)
            elif k == "mac":
                self.macros[it[1]] = (it[2], e, owner)
            elif k == "call":
                m = self.macros.get(it[1])
                if m is not None:
                    if any(x[0] == "b" for x, _ in walk(m[0])):
                        # the engine forbids block inside a called macro; the statement
                        # does not speak about it: not judged
                        raise RefError("block-in-called-macro", it[1])
                    self._items(m[0], m[1], None, m[2], [self.data, {}], out)
            elif k == "forin":
                seq = self._lookup(scope, it[2])
                for v in seq if isinstance(seq, list) else []:
                    scope.append({it[1]: v})
                    try:
                        self._items(it[3], e, cur, owner, scope, out)
                    except _Interrupt as intr:
                        if intr.kind == "break":
                            break
                    finally:
                        scope.pop()
            elif k == "as":
                scope[1][it[1]] = it[2]
            elif k == "inc":
                self._include(it, e, scope, out)
            elif k == "x":
                pass
            else:  # pragma: no cover
                raise ValueError(f"unknown item {it!r}")

    def _block(self, it, e, cur, owner, scope, out) -> None:  # noqa: ANN001
        name = it[1]
        lst = e.defs[name]
        idx = 0 if self.sem.select == "most" else len(lst) - 1
        tname, body, required = lst[idx]
        e.reached.add(name)
        if required:
            raise RefError("required", f"block {name} of {tname}")
        st = self.o.stats
        st["blocks"] += 1
        if tname != owner:
            st["overrides"] += 1
        if cur is not None:
            st["nested"] += 1
        self._enter(body, e, (name, idx), tname, scope, out)

    def _enter(self, body, e, cur, tname, scope, out) -> None:  # noqa: ANN001
        """Render definition *cur*.  Re-entering a definition that is already being
        rendered (a nests b in one template, b nests a in another) has no finite
        meaning: the configuration is ill-formed, the engine must merely stop."""
        if cur in e.active:
            raise RefError("recursive-nesting", f"{cur[0]}#{cur[1]}")
        e.active.add(cur)
        try:
            self._items(body, e, cur, tname, scope, out)
        finally:
            e.active.discard(cur)

    def _super(self, e, cur, scope, out) -> None:  # noqa: ANN001
        if cur is None:
            self.o.stats["supers_undefined"] += 1
            return
        name, idx = cur
        lst = e.defs[name]
        mode = self.sem.sup
        if mode == "none":
            return
        if self.sem.select == "least":
            return
        nxt = idx + 1
        if nxt >= len(lst):
            self.o.stats["supers_undefined"] += 1
            return
        if mode == "base":
            nxt = len(lst) - 1
        self.o.stats["supers"] += 1
        tname, body, _req = lst[nxt]
        if self.escape and self.sem.super_reescape:
            sub: list[str] = []
            self._enter(body, e, (name, nxt), tname, scope, sub)
            out.append(html_escape("".join(sub)))
            return
        self._enter(body, e, (name, nxt), tname, scope, out)

    def _include(self, it, e, scope, out) -> None:  # noqa: ANN001
        _, kind, target, kwargs = it
        if target.startswith("@"):  # {% include var %}: the name comes from the scope
            target = self._lookup(scope, target[1:])
            if not isinstance(target, str):
                raise RefError("missing", f"dynamic include of {target!r}")
        frame = {k: self._lookup(scope, v) for k, v in kwargs.items()}
        if kind == "include":
            scope.append(frame)
            try:
                self.render_entry(target, scope, out, ambient=e)
            finally:
                scope.pop()
        else:
            self.render_entry(target, [self.data, {}, frame], out)


def html_escape(s: str) -> str:
    return (s.replace("&", "&amp;").replace("<", "&lt;").replace(">", "&gt;")
            .replace("'", "&#39;").replace('"', "&#34;"))


def rename(prog: Program, entry: str, data: dict, mapping: dict[str, str]) -> tuple[Program, str, dict]:
    """The same program with its templates renamed (extends / include targets and lists
    of template names in the data follow).  A chain is identified by FULL names."""

    def items_(items: list) -> list:
        out = []
        for it in items:
            it = list(it)
            k = it[0]
            if k == "x":
                it[1] = mapping.get(it[1], it[1])
            elif k == "inc" and not it[2].startswith("@"):
                it[2] = mapping.get(it[2], it[2])
            elif k == "b" or k in BODY3:
                it[3] = items_(it[3])
            elif k in ("if", "cap", "mac"):
                it[2] = items_(it[2])
            out.append(it)
        return out

    p2 = {mapping.get(n, n): items_(items) for n, items in prog.items()}
    d2 = {
        k: ([mapping.get(x, x) if isinstance(x, str) else x for x in v] if isinstance(v, list) else v)
        for k, v in data.items()
    }
    return p2, mapping.get(entry, entry), d2


def expected(prog: Program, entry: str, data: dict, sem: Sem | None = None,
             escape: bool = False) -> Outcome:
    r = Ref(prog, data, sem, escape)
    out: list[str] = []
    try:
        r.render_entry(entry, [data, {}], out)
        r.o.text = "".join(out)
    except RefError as err:
        r.o.kind = "err"
        r.o.err = err.kind
        r.o.detail = err.detail
    except _Interrupt as intr:  # break / continue outside any loop: not generated
        r.o.kind = "err"
        r.o.err = "missing"
        r.o.detail = f"stray {intr.kind}"
    return r.o


# ---------------------------------------------------------------------------
# emitter: abstract program -> Liquid sources
# ---------------------------------------------------------------------------


# -- spellings ----------------------------------------------------------------
# The same abstract program can be written in many ways.  _STYLE = None is the plain
# spelling; (seed, wc) picks, per block item and deterministically from the item's own
# content (so that the model's rendition of a raw body agrees with the emitted source),
# how names are quoted, whether endblock repeats the name, whitespace-control markers
# on the block tags (only when wc: the program's texts carry no edge whitespace) and the
# {% liquid %} line form.
_STYLE: tuple | None = None  # (seed, wc[, bare extends names])
_KEYWORDS = {"required", "if", "true", "false", "nil", "null", "and", "or", "not", "in",
             "contains", "with", "for", "as", "else", "blank", "empty", "reversed", "limit",
             "offset", "cols"}


def set_style(style: tuple[int, bool] | None) -> None:
    global _STYLE  # noqa: PLW0603
    _STYLE = style


def _h(*parts: object) -> int:
    import zlib

    return zlib.crc32(repr(parts).encode("utf-8"))


def spell_name(name: str, h: int) -> str:
    import re

    opts = ["'%s'" % name, '"%s"' % name]
    if re.fullmatch(r"[^\W\d][\w-]*", name) and name not in _KEYWORDS:
        opts += [name, name]
    return opts[h % len(opts)]


def _emit_block_styled(it: list) -> str:
    seed, wc = _STYLE[0], _STYLE[1]  # type: ignore[index]
    h = _h(seed, it[1], bool(it[2]), it[4], len(it[3]))
    name = spell_name(it[1], h)
    end = "" if it[4] is None else " " + spell_name(it[4], h // 7)
    req = " required" if it[2] else ""
    simple = all(
        c[0] == "s" or (c[0] == "t" and "'" not in c[1] and "\n" not in c[1] and c[1].strip() == c[1] and c[1])
        for c in it[3]
    )
    if (len(it) > 5 and it[5] == "liquid") or (simple and h % 6 == 0):
        lines = ["block %s%s" % (name, req)]
        for c in it[3]:
            lines.append("echo block.super" if c[0] == "s" else "echo '%s'" % c[1])
        lines.append("endblock" + end)
        return "{%% liquid\n%s\n%%}" % "\n".join(lines)
    marks = [("{%", "%}"), ("{%-", "-%}"), ("{%~", "~%}"), ("{%-", "%}"), ("{%", "-%}")]
    o1, c1 = marks[(h // 11) % len(marks)] if wc else marks[0]
    o2, c2 = marks[(h // 13) % len(marks)] if wc else marks[0]
    sp = ("  ", " ", "\t")[(h // 17) % 3]
    return "%s block%s%s%s %s%s%s endblock%s %s" % (
        o1, sp, name, req, c1, emit_items(it[3]), o2, end, c2)


def emit_items(items: list) -> str:
    parts: list[str] = []
    for it in items:
        k = it[0]
        if k == "t":
            assert "{" not in it[1]
            parts.append(it[1])
        elif k == "v":
            parts.append("{{ %s }}" % it[1])
        elif k == "s":
            parts.append("{{ block.super }}")
        elif k == "b" and _STYLE is not None:
            parts.append(_emit_block_styled(it))
        elif k == "b" and len(it) > 5 and it[5] == "liquid":
            lines = ["block %s%s" % (it[1], " required" if it[2] else "")]
            for c in it[3]:
                lines.append("echo block.super" if c[0] == "s" else "echo '%s'" % c[1])
            lines.append("endblock")
            parts.append("{%% liquid\n%s\n%%}" % "\n".join(lines))
        elif k == "b":
            req = " required" if it[2] else ""
            end = f" {it[4]}" if it[4] is not None else ""
            parts.append(
                "{%% block %s%s %%}%s{%% endblock%s %%}" % (it[1], req, emit_items(it[3]), end)
            )
        elif k == "if":
            parts.append("{%% if %s %%}%s{%% endif %%}" % (it[1], emit_items(it[2])))
        elif k == "for":
            parts.append(
                "{%% for %s in (1..%d) %%}%s{%% endfor %%}" % (it[1], it[2], emit_items(it[3]))
            )
        elif k == "forin":
            parts.append(
                "{%% for %s in %s %%}%s{%% endfor %%}" % (it[1], it[2], emit_items(it[3]))
            )
        elif k == "unless":
            parts.append("{%% unless %s %%}%s{%% endunless %%}" % (it[1], emit_items(it[3])))
        elif k == "trow":
            parts.append(
                "{%% tablerow %s in (1..%d) %%}%s{%% endtablerow %%}" % (it[1], it[2], emit_items(it[3]))
            )
        elif k in ("box", "boxnc"):
            parts.append("{%% %s %%}%s{%% end%s %%}" % (k, emit_items(it[3]), k))
        elif k == "ifeq":
            parts.append("{%% if %s == %d %%}%s{%% endif %%}" % (it[1], it[2], emit_items(it[3])))
        elif k == "brk":
            parts.append("{% break %}")
        elif k == "cnt":
            parts.append("{% continue %}")
        elif k == "case":
            parts.append(
                "{%% case %s %%}{%% when '%s' %%}%s{%% endcase %%}" % (it[1], it[2], emit_items(it[3]))
            )
        elif k == "with":
            parts.append("{%% with %s: %s %%}%s{%% endwith %%}" % (it[1], it[2], emit_items(it[3])))
        elif k == "c":
            parts.append("{# %s #}" % it[1])
        elif k == "cap":
            parts.append("{%% capture %s %%}%s{%% endcapture %%}" % (it[1], emit_items(it[2])))
        elif k == "mac":
            parts.append("{%% macro %s %%}%s{%% endmacro %%}" % (it[1], emit_items(it[2])))
        elif k == "call":
            parts.append("{%% call %s %%}" % it[1])
        elif k == "com":
            parts.append("{%% comment %%}%s{%% endcomment %%}" % emit_items(it[1]))
        elif k == "hcom":
            parts.append("{## %s ##}" % emit_items(it[1]))
        elif k == "raw":
            parts.append("{%% raw %%}%s{%% endraw %%}" % emit_items(it[1]))
        elif k == "as":
            parts.append("{%% assign %s = '%s' %%}" % (it[1], it[2]))
        elif k == "inc":
            kw = "".join(f", {a}: {b}" for a, b in it[3].items())
            tgt = it[2][1:] if it[2].startswith("@") else "'%s'" % it[2]
            parts.append("{%% %s %s%s %%}" % (it[1], tgt, kw))
        elif (k == "x" and _STYLE is not None and len(_STYLE) > 2 and _STYLE[2]
              and _h(_STYLE[0], it[1], "bare") % 3 and spell_name(it[1], 2) == it[1]):
            # a bare word IS the template's name, whatever variables are called
            parts.append("{%% extends %s %%}" % it[1])
        elif k == "x" and _STYLE is not None and _h(_STYLE[0], it[1]) % 2:
            parts.append('{%% extends "%s" %%}' % it[1])
        elif k == "x":
            parts.append("{%% extends '%s' %%}" % it[1])
        else:  # pragma: no cover
            raise ValueError(f"unknown item {it!r}")
    return "".join(parts)


def rename_blocks(prog: Program, mapping: dict[str, str]) -> Program:
    """The same program with its block names changed (endblock names that repeat the
    block's name follow; mismatching ones are left alone)."""

    def items_(items: list) -> list:
        out = []
        for it in items:
            it = list(it)
            if it[0] == "b":
                if it[4] == it[1]:
                    it[4] = mapping.get(it[4], it[4])
                it[1] = mapping.get(it[1], it[1])
            bi = body_index(it)
            if bi is not None:
                it[bi] = items_(it[bi])
            out.append(it)
        return out

    return {n: items_(items) for n, items in prog.items()}


def emit(prog: Program) -> dict[str, str]:
    return {name: emit_items(items) for name, items in prog.items()}
