"""C14 reference model: what a *transparent* caching loader may answer.

Nothing in this file imports liquid2.  It contains

* the history vocabulary (`Op`) and its canonical enumeration (names / namespaces are
  interchangeable, so a history is enumerated once per renaming class);
* `RefLRU`: an ordered map  cache-key -> Entry(snapshot of the source, origin, stamp)
  with capacity C and least-recently-used eviction;
* `expect_load`: the oracle for one load step, returning the *allowed* outcomes and what
  each does to the model;
* `render_ref`: the reference rendering of the fixed template body (marker + the two
  globals it prints), so that the expected output never goes through liquid2;
* helpers that turn a (minimised) failing history into a mechanism pattern.
"""

from __future__ import annotations

import re
from collections import OrderedDict
from typing import Any
from typing import Callable
from typing import Iterator
from typing import Mapping
from typing import NamedTuple

NAMES = ("a", "b", "c")
NAMESPACES = ("t1", "t2")
# namespace-value families ("ns-*"): names chosen so that '<ns>/<name>' strings can
# coincide, namespace values chosen around Python falsiness / str() equality
NS_NAMES = ("x", "a/x", "b/x", "a/b/x")
NS_VALUES: tuple[object, ...] = (None, 0, 1, "0", "1", "", False, True, 0.0, "a", "a/b")
VIA = ("kwarg", "context", "render-tag", "include-tag", "kwarg+context")
PLACEHOLDER_WHO = "{{ who }}"


# partial-loading families ("p-*"): templates that contain render / include / extends tags
P_NAMES = ("page", "ipage", "child", "solo", "card", "leaf", "base",
           # roots that bind the namespace key's NAME locally to another caller's value
           # (global `other`) before a tag loads a partial; rpage passes it as a render
           # argument, which does become a global of the rendered partial's context
           "apage", "cpage", "fpage", "wpage", "kpage", "rpage")
P_LOCAL_ROOTS = (7, 8, 9, 10, 11, 12)
P_WRAP = {
    "apage": ("{% assign ns = other %}[{% render 'card' %}]", ""),
    "cpage": ("{% capture ns %}{{ other }}{% endcapture %}[{% render 'card' %}]", ""),
    "fpage": ("{% for ns in others %}[{% render 'card' %}]{% endfor %}", ""),
    "wpage": ("{% with ns: other %}[{% render 'card' %}]{% endwith %}", ""),
    "kpage": ("[{% include 'card', ns: other %}]", ""),
    "rpage": ("[{% render 'card', ns: other %}]", ""),
}
P_STRIP = ("{% assign ns = other %}", "{% capture ns %}{{ other }}{% endcapture %}",
           "{% for ns in others %}", "{% endfor %}", "{% with ns: other %}", "{% endwith %}")
P_TOPS = (0, 1, 2, 3, 4)  # what histories load at top level: page ipage child solo card
P_MUTATIONS = (("modify", 4), ("modify", 5), ("modify", 6), ("modify", 0),
               ("delete", 4), ("delete", 5))


# load-context routing families ("tag-*"): the docs' SnippetsFileSystemLoader customisation
T_NAMES = ("foo", "bar", "snippets/foo", "snippets/bar", "alt/foo", "alt/bar")
T_CHANNELS = (0, 2, 3, 5)  # top-level by name / render tag / include tag / variant='alt'


# constructor-argument families ("ctor-*"): names with and without a suffix
C_NAMES = ("a", "b", "c.txt")
C_ENCODINGS = ("utf-8", "latin-1", "utf-16", "cp1252")
C_EXTS = (None, ".liquid", ".html")
C_PATHKINDS = ("str", "Path", "list")
# non-ASCII text every source contains, restricted to what the encoding can express
C_CHARS = {"utf-8": "éß€漢", "latin-1": "éß", "utf-16": "éß€漢", "cp1252": "éß€"}


def is_c_family(fam: str) -> bool:
    return fam.startswith("ctor-")


def held_histories(length: int, with_ns: bool) -> Iterator[tuple[Op, ...]]:
    """Held-template family: every history of exactly *length* steps that ends in rendering
    a template KEPT from an earlier load, over {load a / b with or without globals, load a
    through a second Environment, load a under a namespace (with_ns)} and {modify a, break a
    (unparsable source), delete a, modify b} and renders of kept templates."""
    loads = [Op("load", n, 0, g) for n in (0, 1) for g in (1, 0)]
    loads.append(Op("load", 0, 0, 1, 0, 0, 1))
    if with_ns:
        loads.append(Op("load", 0, 1, 1))
    changes = (Op("modify", 0), Op("break", 0), Op("delete", 0), Op("modify", 1))

    def rec(prefix: tuple[Op, ...], n_loads: int) -> Iterator[tuple[Op, ...]]:
        final = len(prefix) + 1 == length
        last = prefix[-1] if prefix else None
        for j in range(n_loads):
            op = Op("held", j)
            if final:
                yield (*prefix, op)
            elif not (last is not None and last.kind == "held" and last.name == j):
                yield from rec((*prefix, op), n_loads)
        if final:
            return
        for ld in loads:
            if n_loads == 0 and ld.name != 0:
                continue  # canonical: the first load is of name a
            yield from rec((*prefix, ld), n_loads + 1)
        for c in changes:
            if last is not None and last.kind in ("modify", "break", "delete") and last.name == c.name:
                continue
            yield from rec((*prefix, c), n_loads)

    yield from rec((), 0)


def ctor_histories() -> Iterator[tuple[Op, ...]]:
    """Loads of a / b / c.txt by name or through a render tag, sync or async: every
    history of length <= 2 (second step may also follow a modify / delete) and every
    load, modify, load."""
    loads = [Op("load", n, 0, 0, mode, via) for n in range(3) for via in (0, 2) for mode in (0, 1)]
    for a in loads:
        yield (a,)
    for a in loads:
        for b in loads:
            yield (a, b)
    for kind in ("modify", "delete"):
        for n in range(3):
            for b in loads:
                yield (Op(kind, n), b)
    for a in loads:
        for n in range(3):
            for b in loads:
                yield (a, Op("modify", n), b)


def is_ns_family(fam: str) -> bool:
    return fam.startswith("ns-")


def is_t_family(fam: str) -> bool:
    return fam.startswith("tag-")


def t_route(via: int) -> str:
    return "snippets" if via in (2, 3) else ("alt" if via == 5 else "top")


def context_collision(a: Op, b: Op, fam: str, nskey: str) -> str | None:
    """(tag-* families, naming only) two loads of the same name whose load context routes
    them to different sources although the engine's cache key is the same."""
    if not is_t_family(fam) or a.kind != "load" or b.kind != "load" or a.name != b.name:
        return None
    ra, rb = t_route(a.via), t_route(b.via)
    if ra == rb:
        return None
    if nskey == "variant" and "alt" in (ra, rb):
        return None  # the variant is the namespace key: distinct cache keys
    return "kwarg-routing-subclass" if "alt" in (ra, rb) else "tag-routing-subclass"


def tagroute_histories(length: int) -> Iterator[tuple[Op, ...]]:
    """Every history of exactly *length* steps over {load foo/bar (canonical) by name, through
    a render tag, through an include tag, or with variant='alt'; sync/async} and
    {modify / delete any of the six sources}, ending in a load."""

    def rec(prefix: tuple[Op, ...], used: int) -> Iterator[tuple[Op, ...]]:
        final = len(prefix) + 1 == length
        last = prefix[-1] if prefix else None
        for n in range(min(used + 1, 2)):
            for via in T_CHANNELS:
                for mode in (0, 1):
                    op = Op("load", n, 0, 0, mode, via)
                    if final:
                        yield (*prefix, op)
                    else:
                        yield from rec((*prefix, op), max(used, n + 1))
        if final:
            return
        for kind in ("modify", "delete"):
            for base in range(min(used + 1, 2)):
                for src in (base, base + 2, base + 4):
                    if last is not None and last.kind in ("modify", "delete") and last.name == src:
                        continue
                    yield from rec((*prefix, Op(kind, src)), max(used, base + 1))

    yield from rec((), 0)


def is_p_family(fam: str) -> bool:
    return fam.startswith("p-")


def concrete_names(fam: str) -> bool:
    """Families whose template names mean something (never renamed, always printed)."""
    return is_ns_family(fam) or is_p_family(fam) or is_t_family(fam) or is_c_family(fam)


def names_of(fam: str) -> tuple[str, ...]:
    if is_p_family(fam):
        return P_NAMES
    if is_t_family(fam):
        return T_NAMES
    if is_c_family(fam):
        return C_NAMES
    return NS_NAMES if is_ns_family(fam) else NAMES


def p_source(place: str, name: str, version: int) -> str:
    """Source of a template of the partial-loading families: its own marker plus the
    tag(s) that make rendering it load other templates:
    page -> render card -> render leaf;  ipage -> include card -> render leaf;
    child -> extends base (base includes leaf and defines block b);  solo, leaf: plain."""
    m = f"<{place}:{name}:v{version}|{PLACEHOLDER_WHO}|>"
    if name == "page":
        return m + "[{% render 'card' %}]"
    if name == "ipage":
        return m + "[{% include 'card' %}]"
    if name == "card":
        return m + "[{% render 'leaf' %}]"
    if name == "base":
        return m + "[{% include 'leaf' %}](" + P_BLOCK + ")"
    if name == "child":
        return "{% extends 'base' %}{% block b %}" + m + "{% endblock %}"
    if name in P_WRAP:
        return m + P_WRAP[name][0]
    return m


P_BLOCK = "{% block b %}d{% endblock %}"
RE_P_TAG = re.compile(r"\{% (render|include) '(\w+)'(, ns: other)? %\}")
RE_P_EXTENDS = re.compile(r"^\{% extends '(\w+)' %\}\{% block b %\}(.*)\{% endblock %\}$", re.S)
RE_MARKER = re.compile(r"<([^:|<>]+):([^:|<>]+):v(\d+)\|([^|<>]*)\|([^|<>]*)>")


def p_expand(source: str, who: object, load: Callable[[str, str, bool], tuple[str, str]],
             other: bool = False) -> tuple[str, str]:
    """Reference rendering of a p_source text.  load(name, tag, other) performs the
    model-level load of a partial and returns ("ok", its source) or ("err", class); loads
    happen in document order, depth first — exactly when the engine's tags ask the loader.
    *other*: the enclosing render passed `ns: other` as an argument, which makes the other
    namespace a GLOBAL of that isolated render context (local bindings — assign, capture,
    for variable, with, include arguments — never are: they are stripped as no-ops here)."""
    m = RE_P_EXTENDS.match(source)
    if m:
        r = load(m.group(1), "extends", other)
        if r[0] != "ok":
            return r
        block = render_ref(m.group(2), who, None)
        r2 = p_expand(r[1].replace(P_BLOCK, "\x00"), who, load, other)
        if r2[0] != "ok":
            return r2
        return ("ok", r2[1].replace("\x00", block))
    for junk in P_STRIP:
        source = source.replace(junk, "")
    out: list[str] = []
    pos = 0
    for t in RE_P_TAG.finditer(source):
        out.append(render_ref(source[pos : t.start()], who, None))
        r = load(t.group(2), t.group(1), other)
        if r[0] != "ok":
            return r
        inner_other = other or (t.group(1) == "render" and t.group(3) is not None)
        r2 = p_expand(r[1], who, load, inner_other)
        if r2[0] != "ok":
            return r2
        out.append(r2[1])
        pos = t.end()
    out.append(render_ref(source[pos:], who, None))
    return ("ok", "".join(out))


def locals_histories() -> Iterator[tuple[Op, ...]]:
    """Namespace-key-bound-locally family: loads of the six binding roots, page and card
    under namespace none / t1 / t2; every history of length <= 2, and every
    load, CHANGE, load with CHANGE in modify card / modify leaf / delete leaf.
    (all-sync; the caller also runs them all-async)."""
    tops = (*P_LOCAL_ROOTS, 0, 4)
    loads = [Op("load", n, ns, 1) for n in tops for ns in (0, 1, 2)]
    changes = (Op("modify", 4), Op("modify", 5), Op("delete", 5))
    for a in loads:
        yield (a,)
    for a in loads:
        for b in loads:
            yield (a, b)
    for a in loads:
        for c in changes:
            for b in loads:
                yield (a, c, b)


def partials_histories(length: int, with_ns: bool) -> Iterator[tuple[Op, ...]]:
    """Every history of exactly *length* steps over {load+render one of page, ipage,
    child, solo, card (namespace none/t1/t2 through the template globals when with_ns)}
    and {modify card/leaf/base/page, delete card/leaf}, ending in a load; every load
    passes globals {'who': unique}."""
    nss = (0, 1, 2) if with_ns else (0,)

    def rec(prefix: tuple[Op, ...]) -> Iterator[tuple[Op, ...]]:
        final = len(prefix) + 1 == length
        last = prefix[-1] if prefix else None
        for n in P_TOPS:
            for ns in nss:
                op = Op("load", n, ns, 1, 0, 0)
                if final:
                    yield (*prefix, op)
                else:
                    yield from rec((*prefix, op))
        if final:
            return
        for kind, n in P_MUTATIONS:
            if last is not None and last.kind in ("modify", "delete") and last.name == n:
                continue
            yield from rec((*prefix, Op(kind, n)))

    yield from rec(())


def partials_skeletons() -> Iterator[tuple[Op, ...]]:
    """A, A, B, [B2], CHANGE, A — the parent A stays cached while other loads push its
    partials out and a partial changes (A in page ipage child card; B, B2 any top)."""
    for a in (0, 1, 2, 4):
        for b in P_TOPS:
            for b2 in (None, *P_TOPS):
                for kind, n in P_MUTATIONS:
                    h = [Op("load", a, 0, 1), Op("load", a, 0, 1), Op("load", b, 0, 1)]
                    if b2 is not None:
                        h.append(Op("load", b2, 0, 1))
                    h += [Op(kind, n), Op("load", a, 0, 1)]
                    yield tuple(h)


def with_mode(ops: tuple[Op, ...], mode: int) -> tuple[Op, ...]:
    """mode 0: all loads sync, 1: all async, 2: alternating starting sync."""
    out = []
    k = 0
    for o in ops:
        if o.kind == "load":
            out.append(o._replace(mode=(mode if mode < 2 else k % 2)))
            k += 1
        else:
            out.append(o)
    return tuple(out)


def globals_histories(length: int) -> Iterator[tuple[Op, ...]]:
    """Globals-precedence family: loads of <= 2 names (canonical) with no globals /
    template globals / template globals + a render argument / a render argument only,
    sync or async, and modify steps; ends in a load.  Run on an Environment whose own
    globals define the SAME variable name."""

    def rec(prefix: tuple[Op, ...], used: int) -> Iterator[tuple[Op, ...]]:
        final = len(prefix) + 1 == length
        last = prefix[-1] if prefix else None
        for n in range(min(used + 1, 2)):
            for g in (0, 1, 3, 4):
                for mode in (0, 1):
                    op = Op("load", n, 0, g, mode)
                    if final:
                        yield (*prefix, op)
                    else:
                        yield from rec((*prefix, op), max(used, n + 1))
        if final:
            return
        for n in range(min(used + 1, 2)):
            if last is not None and last.kind == "modify" and last.name == n:
                continue
            yield from rec((*prefix, Op("modify", n)), max(used, n + 1))

    yield from rec((), 0)


def ns_values_of(fam: str) -> tuple[object, ...]:
    return NS_VALUES if is_ns_family(fam) else NAMESPACES


def ns_tag(v: object) -> str:
    """Type-sensitive, file-system-safe identity of a namespace value: the engine is handed
    the value itself, so 1, '1', True and 1.0 are four different namespaces."""
    return f"{type(v).__name__}-{v}".replace("/", "%")


def other_ns(fam: str, ns: int) -> object:
    """The (different) value the render context carries when a load passes both."""
    vals = ns_values_of(fam)
    return vals[ns % len(vals)]

PLACEHOLDER_SITE = "{{ site }}"


def body(place: str, name: str, version: int, site: bool = False) -> str:
    """Source text of version *version* of template *name* stored at *place*: a marker
    naming exactly this source, the per-call global `who`, and (when *site*) the
    environment-level global `site`."""
    return f"<{place}:{name}:v{version}|{PLACEHOLDER_WHO}|{PLACEHOLDER_SITE if site else ''}>"


def render_ref(source: str, who: object, site: object) -> str:
    """Reference rendering: undefined globals print as the empty string."""
    return source.replace(PLACEHOLDER_WHO, "" if who is None else str(who)).replace(
        PLACEHOLDER_SITE, "" if site is None else str(site)
    )


def m_body(place: str, name: str, version: int) -> str:
    """Source with front matter (the documented FrontMatterLoader style): the matter
    defines `site` (which the environment may define too) and, for name 'b', also `who`
    (which template globals, environment globals and render arguments may define too)."""
    head = f"---\nsite: M{version}\n" + ("who: Mw\n" if name == "b" else "") + "---\n"
    return head + body(place, name, version, True)


RE_FRONT = re.compile(r"^---\n(.*?)---\n", re.S)


def split_front_matter(source: str) -> tuple[dict[str, object] | None, str]:
    m = RE_FRONT.match(source)
    if not m:
        return None, source
    matter: dict[str, object] = {}
    for line in m.group(1).splitlines():
        k, _, v = line.partition(": ")
        matter[k] = v
    return matter, source[m.end():]


def with_matter(source: str, matter: Mapping[str, object] | None) -> str:
    """Snapshot text of a loaded source: the matter travels with the text."""
    if not matter:
        return source
    head = "".join(f"{k}: {v}\n" for k, v in sorted(matter.items()))
    return "\x02" + head + "\x02" + source


def render_with_matter(snapshot: str, arg_who: object, tmpl_who: object, env_who: object,
                       env_site: object) -> str:
    """Reference rendering: render argument > matter > template globals > environment
    globals (docs: matter is 'merged with environment and template globals')."""
    matter: dict[str, str] = {}
    text = snapshot
    if snapshot.startswith("\x02"):
        _, head, text = snapshot.split("\x02", 2)
        for line in head.splitlines():
            k, _, v = line.partition(": ")
            matter[k] = v
    who = arg_who or matter.get("who") or tmpl_who or env_who
    site = matter.get("site") or env_site
    return render_ref(text, who, site)


def plain_text(snapshot: str) -> str:
    return snapshot.split("\x02", 2)[2] if snapshot.startswith("\x02") else snapshot


RE_OUT = re.compile(r"^<([^:|<>]+):([^:|<>]+):v(\d+)\|([^|<>]*)\|([^|<>]*)>$")


def parse_out(out: str) -> tuple[str, str, int, str, str] | None:
    m = RE_OUT.match(out)
    if not m:
        return None
    return (m.group(1), m.group(2), int(m.group(3)), m.group(4), m.group(5))


# ---------------------------------------------------------------------------
# history vocabulary
# ---------------------------------------------------------------------------


class Op(NamedTuple):
    """One step of a history.

    kind: 'load' | 'modify' | 'delete' | 'fail'
    name: index into NAMES (load/modify/delete)
    ns:   0 = the load carries no namespace, 1/2 = NAMESPACES[ns-1]
    g:    0 = no globals (None), 1 = globals {'who': <unique per step>}, 2 = globals {},
          3 = globals {'who': ...} and a render argument who=..., 4 = render argument only
    mode: 0 = sync, 1 = async
    via:  0 = namespace passed as keyword argument, 1 = through a render context,
          2 / 3 = the load is made by a render / include tag of a parent template,
          4 = keyword and context at once, 5 = keyword argument variant='alt' (tag-* families)

    For 'modify' on file-backed sources two of the fields are reused:
    g   = which mtime the new version gets (MTIME_KINDS): 0 newer than every stamp used
          so far, 1 older than every stamp used so far, 2 equal to the file's current
          mtime (content changes, mtime does not), 3 far future, 4 zero, 5 negative;
    via = 0 rewritten in place, 1 written elsewhere and renamed over it (new inode).
    Sources without files ignore both.
    """

    kind: str
    name: int = 0
    ns: int = 0
    g: int = 0
    mode: int = 0
    via: int = 0
    env: int = 0  # 1: the load is made through a second Environment sharing the loader

    def j(self) -> list[Any]:
        return [self.kind, self.name, self.ns, self.g, self.mode, self.via, self.env]


MTIME_KINDS = ("newer", "older", "equal", "future", "zero", "negative")


def op_from(j: Any) -> Op:
    return Op(str(j[0]), *[int(x) for x in j[1:7]])


def show_op(o: Op, fam: str = "") -> str:
    names = names_of(fam)
    if o.kind == "load":
        s = ("aload " if o.mode else "load ") + names[o.name]
        if is_ns_family(fam):
            if o.ns:
                v = NS_VALUES[o.ns - 1]
                s += f"[ns={v!r} via {VIA[o.via]}"
                if o.via == 4:
                    s += f", context ns={other_ns(fam, o.ns)!r}"
                s += "]"
            elif o.via:
                s += f"[no ns, via {VIA[o.via]}]"
        elif is_p_family(fam):
            if o.ns:
                s += f"[globals ns={NAMESPACES[o.ns - 1]}]"
        elif is_t_family(fam) or is_c_family(fam):
            if o.via:
                s += "[variant='alt']" if o.via == 5 else f"[via {VIA[o.via]}]"
        elif o.ns:
            s += f"[{NAMESPACES[o.ns - 1]} via {'context' if o.via else 'kwargs'}]"
        s += {0: "(no-g)", 1: "(g)", 2: "(g={})", 3: "(g+render-arg)", 4: "(render-arg)"}[o.g]
        if o.env:
            s += "@env2"
        return s
    if o.kind == "fail":
        return "fail-next"
    if o.kind == "held":
        return ("arender" if o.mode else "render") + f" the template kept from load #{o.name}"
    if o.kind == "modify" and (o.g or o.via):
        return f"modify {names[o.name]}[mtime {MTIME_KINDS[o.g]}{', rename' if o.via else ''}]"
    return f"{o.kind} {names[o.name]}"


def nsval_pairs() -> Iterator[tuple[Op, ...]]:
    """Namespace-value family: every ordered pair of loads over 4 names x {no namespace
    (top-level or through a render tag), each of the 11 namespace values supplied by
    keyword / render context / render tag / include tag / keyword and context at once};
    all pairs with both loads sync, and all same-name pairs with both loads async."""
    singles: list[tuple[int, int, int]] = []
    for n in range(len(NS_NAMES)):
        singles.append((n, 0, 0))
        singles.append((n, 0, 2))
        for ns in range(1, len(NS_VALUES) + 1):
            for via in range(5):
                singles.append((n, ns, via))
    for mode in (0, 1):
        for a in singles:
            for b in singles:
                if mode and a[0] != b[0]:
                    continue
                yield (Op("load", a[0], a[1], 0, mode, a[2]), Op("load", b[0], b[1], 0, mode, b[2]))


def nsval_count() -> int:
    per_name = 2 + 5 * len(NS_VALUES)
    k = len(NS_NAMES) * per_name
    return k * k + len(NS_NAMES) * per_name * per_name


def engine_key_collision(a: Op, b: Op, fam: str) -> str | None:
    """(diagnostic, for naming only) Do two loads of different (namespace, name) identity
    map to the same '<namespace>/<name>' string?"""
    def ident(o: Op) -> tuple[bool, object, str]:
        if not o.ns:
            return (False, None, NS_NAMES[o.name])
        return (True, NS_VALUES[o.ns - 1], NS_NAMES[o.name])

    def text(i: tuple[bool, object, str]) -> str:
        return f"{i[1]}/{i[2]}" if i[0] else i[2]

    if not is_ns_family(fam):
        return None
    ia, ib = ident(a), ident(b)
    same = ia[0] == ib[0] and ia[2] == ib[2] and type(ia[1]) is type(ib[1]) and ia[1] == ib[1]
    if same or text(ia) != text(ib):
        return None
    if ia[2] == ib[2]:
        return "values-with-equal-str"
    return "slash-in-name-or-namespace"


def canonical_histories(
    length: int, *, n_names: int = 3, n_ns: int = 2, per_op_mode: bool = True,
    uniform_modes: tuple[int, ...] = (0, 1), modify_kinds: tuple[int, ...] = (0,),
) -> Iterator[tuple[Op, ...]]:
    """Every history of exactly *length* steps that ends in a load, one per class of
    histories equal up to a renaming of template names and of namespaces.

    Canonical form: the first name used is NAMES[0], the next new one NAMES[1], …;
    likewise for namespaces.  Redundant steps are skipped: two consecutive
    modify/delete of the same name (the second makes the first unobservable) and two
    consecutive fail-next.  With per_op_mode every load picks sync/async on its own;
    otherwise all loads of a history share one mode out of *uniform_modes*.
    The namespace channel alternates with the step index (even: kwargs, odd: context).
    Every modify step takes each mtime kind of *modify_kinds* (in-place rewrite).
    """
    modes_outer: tuple[int | None, ...] = (None,) if per_op_mode else uniform_modes

    def rec(
        prefix: tuple[Op, ...], used_n: int, used_ns: int, fixed_mode: int | None
    ) -> Iterator[tuple[Op, ...]]:
        depth = len(prefix)
        last = prefix[-1] if prefix else None
        final = depth + 1 == length
        via = depth % 2
        for n in range(min(used_n + 1, n_names)):
            un = max(used_n, n + 1)
            for ns in range(0, min(used_ns + 1, n_ns) + 1):
                uns = max(used_ns, ns)
                for g in (0, 1):
                    for mode in (0, 1) if fixed_mode is None else (fixed_mode,):
                        op = Op("load", n, ns, g, mode, via if ns else 0)
                        if final:
                            yield (*prefix, op)
                        else:
                            yield from rec((*prefix, op), un, uns, fixed_mode)
        if final:
            return
        for kind in ("modify", "delete"):
            for n in range(min(used_n + 1, n_names)):
                if last is not None and last.kind in ("modify", "delete") and last.name == n:
                    continue
                for mk in modify_kinds if kind == "modify" else (0,):
                    yield from rec((*prefix, Op(kind, n, 0, mk)), max(used_n, n + 1), used_ns,
                                   fixed_mode)
        if not (last is not None and last.kind == "fail"):
            yield from rec((*prefix, Op("fail")), used_n, used_ns, fixed_mode)

    for fm in modes_outer:
        yield from rec((), 0, 0, fm)


def count_canonical(length: int, **kw: Any) -> int:
    """Closed-form-free count (walks the same recursion without building tuples)."""
    n_names = kw.get("n_names", 3)
    n_ns = kw.get("n_ns", 2)
    per_op_mode = kw.get("per_op_mode", True)
    uniform_modes = kw.get("uniform_modes", (0, 1))
    n_mk = len(kw.get("modify_kinds", (0,)))
    memo: dict[tuple[int, int, int, str, int], int] = {}

    def rec(depth: int, used_n: int, used_ns: int, lastk: str, lastn: int) -> int:
        key = (depth, used_n, used_ns, lastk, lastn)
        if key in memo:
            return memo[key]
        final = depth + 1 == length
        total = 0
        mult = 2 * (2 if per_op_mode else 1)
        for n in range(min(used_n + 1, n_names)):
            un = max(used_n, n + 1)
            for ns in range(0, min(used_ns + 1, n_ns) + 1):
                uns = max(used_ns, ns)
                total += mult * (1 if final else rec(depth + 1, un, uns, "load", n))
        if not final:
            for kind in ("modify", "delete"):
                for n in range(min(used_n + 1, n_names)):
                    if lastk in ("modify", "delete") and lastn == n:
                        continue
                    total += (n_mk if kind == "modify" else 1) * rec(
                        depth + 1, max(used_n, n + 1), used_ns, kind, n)
            if lastk != "fail":
                total += rec(depth + 1, used_n, used_ns, "fail", -1)
        memo[key] = total
        return total

    base = rec(0, 0, 0, "", -1)
    return base if per_op_mode else base * len(uniform_modes)


def lru_deep_histories(length: int) -> Iterator[tuple[Op, ...]]:
    """Restricted alphabet {sync load without namespace/globals, modify} on 3 names,
    canonical in the names, ending in a load — long enough (6+) to observe the LRU
    order behaviourally: fill, re-use, modify, overflow, observe."""

    def rec(prefix: tuple[Op, ...], used_n: int) -> Iterator[tuple[Op, ...]]:
        depth = len(prefix)
        final = depth + 1 == length
        last = prefix[-1] if prefix else None
        for n in range(min(used_n + 1, 3)):
            op = Op("load", n)
            if final:
                yield (*prefix, op)
            else:
                yield from rec((*prefix, op), max(used_n, n + 1))
        if final:
            return
        for n in range(min(used_n + 1, 3)):
            if last is not None and last.kind == "modify" and last.name == n:
                continue
            yield from rec((*prefix, Op("modify", n)), max(used_n, n + 1))

    yield from rec((), 0)


# modify variants of the mtime families: (mtime kind, rename?)
MTIME_VARIANTS = ((0, 0), (1, 0), (2, 0), (3, 0), (4, 0), (5, 0), (0, 1), (1, 1))


def mtime_histories(length: int) -> Iterator[tuple[Op, ...]]:
    """File freshness family: {load sync/async, modify with every MTIME_VARIANT, delete}
    on <= 2 names (canonical), no namespaces/globals, ending in a load.  A delete directly
    followed by a modify of the same name IS kept here (create after delete, any mtime)."""

    def rec(prefix: tuple[Op, ...], used_n: int) -> Iterator[tuple[Op, ...]]:
        depth = len(prefix)
        final = depth + 1 == length
        last = prefix[-1] if prefix else None
        for n in range(min(used_n + 1, 2)):
            for mode in (0, 1):
                op = Op("load", n, 0, 0, mode)
                if final:
                    yield (*prefix, op)
                else:
                    yield from rec((*prefix, op), max(used_n, n + 1))
        if final:
            return
        for n in range(min(used_n + 1, 2)):
            un = max(used_n, n + 1)
            if not (last is not None and last.kind == "modify" and last.name == n):
                for mk, rn in MTIME_VARIANTS:
                    yield from rec((*prefix, Op("modify", n, 0, mk, 0, rn)), un)
            if not (last is not None and last.kind in ("modify", "delete") and last.name == n):
                yield from rec((*prefix, Op("delete", n)), un)

    yield from rec((), 0)


def mtime_skeletons() -> Iterator[tuple[Op, ...]]:
    """load x, CHANGE1 x, [load y], load x, CHANGE2 x, [load y], load x — with CHANGE in
    every MTIME_VARIANT, or delete followed by create with every mtime kind; the optional
    load y evicts x at capacity 1; loads all sync, all async, or alternating."""
    changes: list[tuple[Op, ...]] = [(Op("modify", 0, 0, mk, 0, rn),) for mk, rn in MTIME_VARIANTS]
    changes += [(Op("delete", 0), Op("modify", 0, 0, mk)) for mk in range(len(MTIME_KINDS))]
    for modes in ((0, 0, 0, 0, 0), (1, 1, 1, 1, 1), (0, 1, 0, 1, 0), (1, 0, 1, 0, 1)):
        for c1 in changes:
            for e1 in (0, 1):
                for c2 in changes:
                    for e2 in (0, 1):
                        h: list[Op] = [Op("load", 0, 0, 0, modes[0]), *c1]
                        if e1:
                            h.append(Op("load", 1, 0, 0, modes[1]))
                        h.append(Op("load", 0, 0, 0, modes[2]))
                        h.extend(c2)
                        if e2:
                            h.append(Op("load", 1, 0, 0, modes[3]))
                        h.append(Op("load", 0, 0, 0, modes[4]))
                        yield tuple(h)


# ---------------------------------------------------------------------------
# the LRU reference
# ---------------------------------------------------------------------------


class Entry:
    __slots__ = ("source", "origin", "stamp", "step", "env", "bound")

    def __init__(self, source: str, origin: str, stamp: object, step: int, env: int = 0):
        self.env = env  # which Environment parsed it (a template answers only for that one)
        self.bound: object = None  # (held-template family) globals of the last load that hit it
        self.source = source  # snapshot of the source text when it was loaded
        self.origin = origin  # where the uncached loader found it (file path / dict key)
        self.stamp = stamp  # freshness token of the origin at load time (mtime) or None
        self.step = step  # history step that loaded it ("version" of the entry)

    def __repr__(self) -> str:
        return f"Entry({self.source!r} from {self.origin!r} stamp={self.stamp!r} @step{self.step})"


class RefLRU:
    """cache-key -> Entry, most recently used last, at most *capacity* entries."""

    def __init__(self, capacity: int):
        self.capacity = capacity
        self.od: OrderedDict[str, Entry] = OrderedDict()
        self.last: dict[str, Entry] = {}  # last snapshot each key ever had (diagnostic)
        self.evictions = 0

    def get(self, key: str) -> Entry | None:
        return self.od.get(key)

    def touch(self, key: str) -> None:
        self.od.move_to_end(key)

    def put(self, key: str, entry: Entry) -> str | None:
        evicted = None
        if key in self.od:
            self.od.move_to_end(key)
        elif len(self.od) >= self.capacity:
            evicted, _ = self.od.popitem(last=False)
            self.evictions += 1
        self.od[key] = entry
        self.last[key] = entry
        return evicted

    def view(self) -> list[str]:
        return [f"{k}={e.source.split('|')[0][1:]}" for k, e in self.od.items()]


def model_key(name: str, ns: str | None, namespace_key: str) -> str:
    """Cache identity of a load: name, or ns/name when the loader has a namespace key
    and the load carries that key."""
    if namespace_key and ns is not None:
        return f"{ns}/{name}"
    return name


class Alt(NamedTuple):
    outcome: tuple[str, str]  # ("ok", source text) | ("err", exception class name)
    event: str
    consumes_fault: bool
    commit: Callable[[], None]


def _noop() -> None:
    return None


def expect_load(
    model: RefLRU,
    key: str,
    now: tuple[Any, ...],
    *,
    step: int,
    auto_reload: bool,
    has_fresh: bool,
    is_fresh: Callable[[Entry], bool],
    armed: str | None,
    env_tag: int = 0,
) -> list[Alt]:
    """Allowed outcomes of one load of *key*.

    now    = ("ok", source, origin, stamp) | ("err", class name): what the uncached twin
             returns at this moment (without the injected fault).
    armed  = exception class name the next consultation of the source raises, or None.
    Rules (property C14):
      * entry resident and (auto_reload off or the source kind has no freshness
        information): the snapshot, no consultation of the source (an armed fault stays
        armed);
      * entry resident, auto_reload on, freshness information says "unchanged" (the mtime
        of the origin equals the one recorded at load — ANY other mtime, newer or older,
        is stale): what the uncached twin returns now (the source need not be consulted,
        so an armed fault may or may not fire — both accepted); if the origin's content
        changed under an unchanged mtime, snapshot and new content are both accepted;
      * otherwise the source is consulted: the armed fault, or what the twin returns now;
        a success is stored (evicting the least recently used entry when full), a
        failure leaves the entries unchanged (the lookup of a resident key still counts as
        a use of that key).
    """
    e = model.get(key)
    if e is not None and e.env != env_tag:
        # parsed by another Environment: not an answer for this one, the source is
        # consulted and the entry replaced (the lookup still counts as a use)
        kind = "reload-other-env"
        fail_commit0 = lambda: model.touch(key)  # noqa: E731
        if armed:
            return [Alt(("err", armed), kind + "-failed", True, fail_commit0)]
        if now[0] == "err":
            return [Alt(("err", now[1]), kind + "-error", False, fail_commit0)]
        other = Entry(now[1], now[2], now[3], step, env_tag)
        return [Alt(("ok", now[1]), kind, False, lambda: (model.put(key, other), None)[1])]
    if e is not None:
        # freshness information is per entry: an entry that came from a source without any
        # (a dict delegate inside a choice loader) has no stamp
        if not (auto_reload and has_fresh and e.stamp is not None):
            return [Alt(("ok", e.source), "hit", False, lambda: model.touch(key))]
        if is_fresh(e):
            if now[0] == "ok" and now[2] == e.origin and now[1] != e.source:
                # the documented blind spot: the very file the entry came from changed its
                # content but kept its mtime; freshness information cannot tell, so both
                # the snapshot and the new content are accepted (counted, don't-care)
                fresh_ent = Entry(now[1], now[2], now[3], step, env_tag)
                alts = [
                    Alt(("ok", e.source), "hit-equal-mtime", False, lambda: model.touch(key)),
                    Alt(("ok", now[1]), "reload-equal-mtime", False,
                        lambda: (model.put(key, fresh_ent), None)[1]),
                ]
                if armed:
                    alts.append(
                        Alt(("err", armed), "reload-failed", True, lambda: model.touch(key)))
                return alts
            out = ("ok", now[1]) if now[0] == "ok" else ("err", now[1])
            if now[0] == "ok" and (now[1] != e.source or now[2] != e.origin):
                # the twin now answers from somewhere else (a file that shadows the entry's
                # origin): a loader that returns this answer has re-read the source, so the
                # entry it holds from now on is the new one (origin and stamp included)
                moved = Entry(now[1], now[2], now[3], step, env_tag)
                alts = [Alt(out, "hit-verified", False,
                            lambda: (model.put(key, moved), None)[1])]
            else:
                alts = [Alt(out, "hit-verified", False, lambda: model.touch(key))]
            if armed:
                alts.append(Alt(("err", armed), "reload-failed", True, lambda: model.touch(key)))
            return alts
        kind = "reload"
    else:
        kind = "miss"
    # a failed load leaves the entries unchanged; looking a resident key up is a use
    fail_commit = _noop if e is None else (lambda: model.touch(key))
    if armed:
        return [Alt(("err", armed), kind + "-failed", True, fail_commit)]
    if now[0] == "err":
        return [Alt(("err", now[1]), kind + "-error", False, fail_commit)]
    ent = Entry(now[1], now[2], now[3], step, env_tag)

    def commit() -> None:
        if model.put(key, ent) is not None:
            pass

    return [Alt(("ok", now[1]), kind, False, commit)]


# ---------------------------------------------------------------------------
# mechanism patterns
# ---------------------------------------------------------------------------


def pattern(ops: list[Op], category: str, fam: str = "") -> str:
    """(namespace-value families: concrete names, values and channels are kept, they are
    the point.)  Abstract rendition of a (minimised) history: op kinds, sync/async, whether a
    namespace / globals were given; names and namespaces only when more than one
    distinct one occurs (renamed x,y,z / n1,n2 in order of first use)."""
    names: list[int] = []
    nss: list[int] = []
    for o in ops:
        if o.kind not in ("fail", "held") and o.name not in names:
            names.append(o.name)
        if o.kind == "load" and o.ns and o.ns not in nss:
            nss.append(o.ns)
    multi_n = len(names) > 1
    multi_ns = len(nss) > 1
    nsfam = is_ns_family(fam)
    pfam = is_p_family(fam)
    show_g = category.startswith("stale-globals") or category.startswith("env-globals")
    parts = []
    for o in ops:
        if o.kind == "fail":
            parts.append("fail-next")
            continue
        if o.kind == "held":
            parts.append(("arender" if o.mode else "render") + f"-kept#{o.name}")
            continue
        if nsfam:
            nm = " " + NS_NAMES[o.name]
        elif pfam:
            nm = " " + P_NAMES[o.name]
        elif is_t_family(fam):
            nm = " " + T_NAMES[o.name]
        elif is_c_family(fam):
            nm = " " + C_NAMES[o.name]
        else:
            nm = " " + "xyz"[names.index(o.name)] if multi_n else ""
        if o.kind != "load":
            extra = ""
            if o.kind == "modify" and (o.g or o.via):
                extra = "[" + "+".join(
                    ([MTIME_KINDS[o.g] + "-mtime"] if o.g else []) + (["rename"] if o.via else [])
                ) + "]"
            parts.append(o.kind + extra + nm)
            continue
        s = ("aload" if o.mode else "load") + nm
        if nsfam:
            if o.ns:
                s += f"[ns={NS_VALUES[o.ns - 1]!r}" + (f" via {VIA[o.via]}" if o.via else "") + "]"
            elif o.via:
                s += f"[via {VIA[o.via]}]"
        elif is_t_family(fam) or is_c_family(fam):
            if o.via:
                s += "[variant='alt']" if o.via == 5 else f"[via {VIA[o.via]}]"
        elif o.ns:
            s += f"[n{nss.index(o.ns) + 1}]" if multi_ns else "[ns]"
        if o.env:
            s += "@env2"
        if o.g == 1:
            s += "" if pfam else "(g)"
        elif o.g == 3:
            s += "(g+render-arg)"
        elif o.g == 4:
            s += "(render-arg)"
        elif show_g:
            s += "(no-g)"
        parts.append(s)
    return "->".join(parts)


def sort_commuting(ops: list[Op]) -> list[Op]:
    """Canonical order inside every maximal run of non-load steps whose members commute
    (fail-next with anything, modify/delete of different names): delete < fail < modify,
    then by name.  Runs touching one name twice are left as they are."""
    out: list[Op] = []
    run: list[Op] = []

    def flush() -> None:
        names = [o.name for o in run if o.kind != "fail"]
        if len(names) == len(set(names)):
            run.sort(key=lambda o: (o.kind, o.name, o.g, o.via))
        out.extend(run)
        run.clear()

    for o in ops:
        if o.kind in ("load", "held"):
            flush()
            out.append(o)
        else:
            run.append(o)
    flush()
    return out


def simplifications(ops: list[Op], fam: str = "") -> Iterator[list[Op]]:
    """Simplifications of a history, in a fixed order (used after ddmin to reach a
    canonical minimal form): first whole-history ones (all loads sync, no namespaces,
    one namespace, namespace by keyword), then one attribute of one step."""
    loads = [o for o in ops if o.kind == "load"]
    nsfam = is_ns_family(fam)
    if any(o.env for o in loads):
        yield [o._replace(env=0) if o.kind == "load" else o for o in ops]
    if any(o.mode for o in loads):
        yield [o._replace(mode=0) if o.kind == "load" else o for o in ops]
    if any(o.ns for o in loads):
        yield [o._replace(ns=0, via=0) if o.kind == "load" else o for o in ops]
    if any(o.ns == 2 for o in loads) and not nsfam:
        yield [o._replace(ns=1) if (o.kind == "load" and o.ns == 2) else o for o in ops]
    if any(o.via for o in loads):
        yield [o._replace(via=0) if o.kind == "load" else o for o in ops]
    if any(o.g == 2 for o in loads):
        yield [o._replace(g=0) if (o.kind == "load" and o.g == 2) else o for o in ops]
    for i, o in enumerate(ops):
        if o.kind == "modify":
            if o.via:
                yield [*ops[:i], o._replace(via=0), *ops[i + 1 :]]
            if o.g:
                yield [*ops[:i], o._replace(g=0), *ops[i + 1 :]]
            if o.g > 1:
                yield [*ops[:i], o._replace(g=1), *ops[i + 1 :]]
        if o.kind != "load":
            continue
        if o.env:
            yield [*ops[:i], o._replace(env=0), *ops[i + 1 :]]
        if o.mode:
            yield [*ops[:i], o._replace(mode=0), *ops[i + 1 :]]
        if o.ns:
            yield [*ops[:i], o._replace(ns=0, via=0), *ops[i + 1 :]]
        if o.via:
            yield [*ops[:i], o._replace(via=0), *ops[i + 1 :]]
        if o.via == 3:
            yield [*ops[:i], o._replace(via=2), *ops[i + 1 :]]
        if o.ns == 2 and not nsfam:
            yield [*ops[:i], o._replace(ns=1), *ops[i + 1 :]]
        if o.g and not is_p_family(fam):
            yield [*ops[:i], o._replace(g=0), *ops[i + 1 :]]
        if o.g in (2, 3):
            yield [*ops[:i], o._replace(g=1), *ops[i + 1 :]]
    # merge names: replace the highest name by a lower one everywhere
    used = sorted({o.name for o in ops if o.kind != "fail"})
    if len(used) > 1 and not concrete_names(fam) and not any(o.kind == "held" for o in ops):
        hi = used[-1]
        for lo in used[:-1]:
            yield [o._replace(name=lo) if (o.kind != "fail" and o.name == hi) else o for o in ops]
    # swap namespaces so the first one used is n1
    first = next((o.ns for o in loads if o.ns), 0)
    if first == 2 and not nsfam:
        yield [o._replace(ns=3 - o.ns) if (o.kind == "load" and o.ns) else o for o in ops]


def embeddings(pat: list[Op], hist: list[Op], limit: int = 6,
               exact: bool = False) -> Iterator[list[int]]:
    """Index lists of *hist* forming *pat* as a subsequence that ends at hist's last
    step, up to an injective renaming of names and namespaces.  An attribute of the
    pattern that is at its simplified value (sync, no namespace, no globals) matches
    anything; the caller re-executes the selected sub-history to confirm."""
    if not pat or len(pat) > len(hist):
        return
    found = [0]

    def same(p: Op, h: Op) -> bool:
        if p.kind != h.kind:
            return False
        if p.kind == "modify":
            # older / zero / negative all put the mtime below the recorded one
            below = (1, 4, 5)
            return ((not p.g or p.g == h.g or (p.g in below and h.g in below))
                    and (not p.via or h.via == 1))
        if p.kind != "load":
            return not exact or p.name == h.name
        if exact and (p.name != h.name or p.ns != h.ns):
            return False  # names and namespace values are meaningful, no renaming
        return ((not p.mode or h.mode == 1) and (not p.ns or h.ns != 0)
                and (p.g != 1 or h.g == 1) and (p.g != 2 or h.g == 2)
                and (not p.via or h.via == p.via))

    def rec(pi: int, hi: int, nmap: dict[int, int], smap: dict[int, int],
            acc: list[int]) -> Iterator[list[int]]:
        if found[0] >= limit:
            return
        if pi < 0:
            found[0] += 1
            yield acc[::-1]
            return
        p = pat[pi]
        for j in range(hi, -1, -1):
            if pi == len(pat) - 1 and j != len(hist) - 1:
                break
            h = hist[j]
            if not same(p, h):
                continue
            nm, sm = dict(nmap), dict(smap)
            if p.kind != "fail":
                if nm.get(p.name, h.name) != h.name:
                    continue
                if p.name not in nm and h.name in nm.values():
                    continue
                nm[p.name] = h.name
            if p.kind == "load" and p.ns:
                if sm.get(p.ns, h.ns) != h.ns:
                    continue
                if p.ns not in sm and h.ns in sm.values():
                    continue
                sm[p.ns] = h.ns
            yield from rec(pi - 1, j - 1, nm, sm, [*acc, j])

    yield from rec(len(pat) - 1, len(hist) - 1, {}, {}, [])
