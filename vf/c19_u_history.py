"""C19: history independence of filter results, and process state left alone.

A filter's result is a function of its input and arguments.  Two monitors decide that:

* a fixed *panel* of applications (>= 200 high-precision arithmetic ones - results with more
  than 15 and more than 28 significant digits, big ints +- floats, cancelling sums that are
  sensitive to the decimal context - plus a few time-zone / locale / ordering sensitive ones)
  is evaluated when the worker is fresh, again after a *priming* sequence that applies every
  registered filter to typical float / str / Decimal / list / datetime inputs, and again when
  the shard has finished its cases; all three evaluations must be strictly equal;
* after every priming call the process-wide state a filter has no business changing -
  `decimal.getcontext()` (prec, rounding, Emin/Emax, capitals, clamp, traps),
  `locale.setlocale(LC_ALL)` and the time zone (`os.environ['TZ']`, `time.tzname`) - is
  compared with what it was before the call.

Keys: `<filter>:leaves-process-state-changed:<decimal-context|locale|time-zone>` and
`<filter>:history-independent:<stage>`.
"""

from __future__ import annotations

import datetime
import decimal
import locale
import os
import random
import time
from decimal import Decimal
from typing import Any

from .c19_lib import jn
from .c19_lib import skey
from .c19_run import Runner

HISTORY_UNIT = "$history"


def process_state() -> dict[str, Any]:
    c = decimal.getcontext()
    return {
        "decimal-context": (c.prec, c.rounding, c.Emin, c.Emax, c.capitals, c.clamp,
                            tuple(sorted((k.__name__, bool(v)) for k, v in c.traps.items()))),
        "locale": locale.setlocale(locale.LC_ALL),
        "time-zone": (os.environ.get("TZ"), tuple(time.tzname), time.timezone),
    }


# ---------------------------------------------------------------------------
# the panel
# ---------------------------------------------------------------------------


def build_panel() -> list[tuple[str, str, dict[str, Any]]]:
    """(filter the case is attributed to, chain applied to x, data).  Fixed: the panel
    does not depend on the run's seed, only the cases of the units do."""
    rng = random.Random(1919)
    P: list[tuple[str, str, dict[str, Any]]] = []

    def f17() -> float:
        # a float whose shortest decimal form has 16-17 significant digits
        while True:
            v = rng.uniform(1, 10) * 10.0 ** rng.randint(-3, 6)
            if len(repr(v).replace(".", "").replace("-", "").lstrip("0")) >= 16:
                return v

    # results with more than 15 significant digits
    P.append(("plus", "plus: b", {"x": 1234567890123456, "b": 0.5}))
    P.append(("times", "times: b", {"x": 3.141592653589793, "b": 2}))
    for _ in range(35):
        P.append(("plus", "plus: b", {"x": rng.randint(10**15, 9 * 10**15), "b": rng.choice((0.5, 0.25, 1.5, 2.5, 0.75))}))
        P.append(("minus", "minus: b", {"x": rng.randint(10**15, 9 * 10**15), "b": rng.choice((0.5, 0.25, 1.5, 2.5, 0.75))}))
    for _ in range(25):
        P.append(("plus", "plus: b", {"x": f17(), "b": f17()}))
        P.append(("minus", "minus: b", {"x": f17(), "b": rng.randint(1, 9)}))
    for _ in range(40):
        P.append(("times", "times: b", {"x": f17(), "b": rng.choice((2, 3, 7, 0.5, 1.25, f17()))}))
    for _ in range(30):
        P.append(("modulo", "modulo: b", {"x": abs(f17()) * 1000, "b": rng.choice((7, 0.7, 12, 1.1, 3))}))
    # more than 28 significant digits / big ints +- floats / cancellation
    for _ in range(20):
        big = rng.randint(10**16, 10**27)
        P.append(("sum", "sum", {"x": [big + rng.randint(0, 999), rng.choice((0.5, 0.25, 1.75)), -big]}))
        P.append(("sum", "sum: 'k'", {"x": [{"k": big}, {"k": repr(f17())}, {"k": -big + 1}, {}]}))
    for _ in range(15):
        big = rng.randint(10**28, 10**45)
        P.append(("plus", "plus: b", {"x": big, "b": f17()}))
        P.append(("times", "times: b", {"x": big, "b": rng.choice((0.5, 1.5, 2.5))}))
        P.append(("minus", "minus: b | plus: c", {"x": big, "b": 0.5, "c": 1}))
    for _ in range(10):
        P.append(("sum", "sum", {"x": [f17() for _ in range(rng.randint(2, 9))]}))
        P.append(("sum", "sum", {"x": [0.1] * rng.randint(3, 12) + [rng.randint(1, 10**17)]}))
    # exact integer and float-division cases, rounding
    for _ in range(15):
        a, b = rng.randint(-10**40, 10**40), rng.randint(1, 10**20)
        P.append(("divided_by", "divided_by: b", {"x": a, "b": b}))
        P.append(("modulo", "modulo: b", {"x": a, "b": b}))
        P.append(("round", "round: 3", {"x": f17()}))
        P.append(("divided_by", "divided_by: b", {"x": f17(), "b": 7}))
    n_arith = len(P)
    assert n_arith >= 200, n_arith
    # cheap representatives of the other families, chosen to be sensitive to process state
    # (time zone, locale, decimal context) or to anything a filter might cache
    P += [
        ("date", "date: '%Y-%m-%d %H:%M %Z'", {"x": 1152098955}),
        ("date", "date: '%s'", {"x": "March 14, 2016"}),
        ("date", "date: '%A %B %p'", {"x": "2016-03-14 15:16:17"}),
        ("decimal", "decimal", {"x": "10000.233"}),
        ("decimal", "decimal", {"x": 1234567.891}),
        ("currency", "currency", {"x": 100457.99}),
        ("money_with_currency", "money_with_currency", {"x": "3.1"}),
        ("unit", "unit: 'length-meter'", {"x": 12.5}),
        ("datetime", "datetime: format: 'long'", {"x": "Apr 1, 2007, 3:30:00 PM UTC+4"}),
        ("json", "json", {"x": {"a": [1.5, 10**30, None, "é"], "b": 0.1}}),
        ("sort", "sort", {"x": ["b", "a", "C", "B", "ä", "A"]}),
        ("sort_natural", "sort_natural", {"x": ["b", "a", "C", "B", "ä", "A"]}),
        ("sort_numeric", "sort_numeric", {"x": ["v1.10", "v1.2", "1.2.1", "x", 2.5]}),
        ("uniq", "uniq: 'k'", {"x": [{"k": 1.5}, {"k": 1.5}, {}, {"k": "1.5"}]}),
        ("where", "where: 'k', 1.5", {"x": [{"k": 1.5}, {"k": 2}]}),
        ("upcase", "upcase", {"x": "straße i é"}),
        ("downcase", "downcase", {"x": "İSTANBUL I É"}),
        ("capitalize", "capitalize", {"x": "éCOLE"}),
        ("round", "round", {"x": 2.675}),
        ("round", "round: 2", {"x": 2.675}),
        ("ceil", "ceil", {"x": "5.000000000000001"}),
        ("floor", "floor", {"x": 1e22}),
        ("abs", "abs", {"x": "-0.30000000000000004"}),
        ("at_least", "at_least: b", {"x": 10**30, "b": 1e30}),
        ("url_encode", "url_encode", {"x": "a b/é&"}),
        ("truncatewords", "truncatewords: 2", {"x": "one  two\tthree"}),
        ("t", "t", {"x": "Hello, World!"}),
        ("ngettext", "ngettext: 'Hellos', 2", {"x": "Hello"}),
        ("default", "default: 1.5", {"x": ""}),
        ("append", "append: b", {"x": 1.1, "b": 2.2}),
        ("join", "join: ', '", {"x": [0.1, 1e21, 10**30, None]}),
        ("split", "split: '.'", {"x": "1.2.3"}),
    ]
    return P


PANEL = build_panel()


def eval_panel(R: Runner) -> list[Any]:
    out = []
    for f, chain, data in PANEL:
        before = process_state()
        t = R.eng.T(chain, dict(data))
        _state_guard(R, f, before, {"chain": chain, "data": data})
        out.append(skey(t.value) if t.ok else (t.kind, t.exc))
    return out


def _state_guard(R: Runner, name: str, before: dict[str, Any], call: dict[str, Any]) -> None:
    """The process-wide state must be what it was before the application of *name*."""
    after = process_state()
    for which in before:
        ok = before[which] == after[which]
        if R.recording:
            R.ctx.ev()
            R.ctx.count(f"law:{name}")
            R.ctx.count("process_state_comparisons")
            R.ctx.seen("laws", f"{name}:leaves-process-state-changed")
        if not ok:
            R.ctx.violation(
                f"{name}:leaves-process-state-changed:{which}",
                f"applying '{name}' changed the process-wide {which}: {before[which]!r} -> {after[which]!r}",
                {"unit": HISTORY_UNIT, "filter": name, "call": call,
                 "before": repr(before[which]), "after": repr(after[which])})


def compare_panel(R: Runner, base: list[Any], stage: str) -> None:
    now = eval_panel(R)
    for (f, chain, data), a, b in zip(PANEL, base, now):
        ok = a == b
        if R.recording:
            R.ctx.ev()
            R.ctx.count(f"law:{f}")
            R.ctx.count("history_panel_comparisons")
            R.ctx.seen("laws", f"{f}:history-independent")
        if not ok:
            R.ctx.violation(
                f"{f}:history-independent:{stage}",
                f"'x | {chain}' gave a different result {stage} than in the fresh worker",
                {"unit": HISTORY_UNIT, "stage": stage, "chain": chain, "data": data,
                 "fresh": _show(a), "later": _show(b), "process_state": _state_json()})


def _show(k: Any) -> Any:
    return repr(k)[:300]


def _state_json() -> Any:
    return {k: repr(v) for k, v in process_state().items()}


# ---------------------------------------------------------------------------
# priming
# ---------------------------------------------------------------------------

DT = datetime.datetime(2007, 4, 1, 15, 30, 12)
HASHES = [{"k": 2.5, "title": "b"}, {"k": 0.1, "title": "A"}, {}, {"k": 2.5, "title": "a"}]

# typical applications per filter: (x, args, kwargs); every other registered filter gets GENERIC
TYPICAL: dict[str, list[tuple[Any, tuple[Any, ...], dict[str, Any]]]] = {
    "date": [("March 14, 2016", ("%b %d, %y",), {}), (1152098955, ("%m/%d/%Y %H:%M",), {}), ("now", ("%Y",), {}),
             (DT, ("%s",), {})],
    "datetime": [(DT, (), {}), ("Apr 1, 2007, 3:30:00 PM UTC+4", (), {"format": "short"}), (1152098955.5, (), {"format": "full"})],
    "unit": [(12.5, ("length-meter",), {}), (0.1 + 0.2, ("length-meter",), {"format": "#,##0.00"}),
             (32.5, ("ton",), {"denominator": 15.5, "denominator_unit": "hour"}), (Decimal("1.10"), ("kilowatt",), {})],
    "t": [("Hello, World!", (), {}), ("Hello %(you)s", (), {"you": "Sue", "count": 2, "plural": "Hellos"})],
    "gettext": [("Hello", (), {}), ("Hello %(you)s", (), {"you": 1.5})],
    "ngettext": [("Hello", ("Hellos", 2), {}), ("Hello", ("Hellos", 1.5), {})],
    "pgettext": [("Hello", ("ctx",), {})],
    "npgettext": [("Hello", ("ctx", "Hellos", 3), {})],
    "json": [({"a": [1.5, None]}, (), {}), ([0.1, 10**30], (2,), {})],
    "sort": [(HASHES, ("title",), {}), ([2.5, 1, 0.1], (), {})],
    "sort_natural": [(HASHES, ("title",), {}), (["b", "A", "ä"], (), {})],
    "sort_numeric": [(HASHES, ("k",), {}), (["v1.10", "v1.2", 2.5, Decimal("1.5")], (), {})],
    "uniq": [(HASHES, ("k",), {}), ([0.1, 0.1, "a"], (), {})],
    "where": [(HASHES, ("k", 2.5), {}), (HASHES, ("title",), {})],
    "reject": [(HASHES, ("k", 2.5), {})],
    "find": [(HASHES, ("k", 0.1), {})],
    "find_index": [(HASHES, ("k", 0.1), {})],
    "has": [(HASHES, ("k", 0.1), {})],
    "map": [(HASHES, ("k",), {})],
    "compact": [(HASHES, ("k",), {}), ([1.5, None], (), {})],
    "sum": [([0.1, 0.2, "3.5", Decimal("1.25"), 10**30], (), {}), (HASHES, ("k",), {})],
    "concat": [([1.5], ([2.5],), {})],
    "slice": [("1234.5678", (2, 3), {}), ([1.5, 2.5, 3.5], (1,), {})],
    "round": [(2.675, (2,), {}), ("1234.5678", ("1",), {}), (Decimal("2.5"), (), {})],
    "divided_by": [(1234.5678, (7,), {}), (10**30, (3,), {}), (Decimal("1.5"), (0.5,), {})],
    "modulo": [(1234.5678, (7,), {}), (183.357, (12,), {}), (10**30, (7,), {})],
    "plus": [(1234.5678, (0.1,), {}), ("1234.5678", ("1e3",), {}), (10**30, (0.5,), {})],
    "minus": [(1234.5678, (0.1,), {}), (183.357, (12.2,), {})],
    "times": [(1234.5678, (0.1,), {}), (183.357, (12,), {}), (3.141592653589793, (2,), {})],
    "at_least": [(1234.5678, (0.1,), {})],
    "at_most": [(1234.5678, ("0.1",), {})],
    "default": [(0.0, (1.5,), {}), ("", (1.5,), {"allow_false": True})],
    "truncate": [("1234.5678 hello", (6,), {})],
    "truncatewords": [("one two three", (2,), {})],
    "append": [(1.5, (2.5,), {})], "prepend": [(1.5, ("x",), {})],
    "replace": [("1.5.5", (".", ","), {})], "replace_first": [("1.5.5", (".", ","), {})],
    "replace_last": [("1.5.5", (".", ","), {})], "remove": [("1.5.5", (".",), {})],
    "remove_first": [("1.5.5", (".",), {})], "remove_last": [("1.5.5", (".",), {})],
    "split": [("1.5.5", (".",), {})], "join": [([1.5, 2.5], (", ",), {})],
    "base64_decode": [("SGVsbG8sIFdvcmxkIQ==", (), {})], "base64_url_safe_decode": [("SGVsbG8sIFdvcmxkIQ==", (), {})],
}
# the babel number family on floats, strings and Decimals (the formatters are where a
# decimal context or a locale is most likely to be touched)
for _name in ("currency", "money", "money_with_currency", "money_without_currency",
              "money_without_trailing_zeros", "decimal"):
    TYPICAL[_name] = [(1234.5678, (), {}), (0.1 + 0.2, (), {"group_separator": False}), ("10000.233", (), {}),
                      (Decimal("1.10"), (), {}), (10**20, (), {}), (1.1, (), {})]
GENERIC: list[tuple[Any, tuple[Any, ...], dict[str, Any]]] = [
    (1234.5678, (), {}), ("hello 1.5 <b>", (), {}), ([3.5, 1, "2"], (), {}), (Decimal("1.10"), (), {})]


def prime(R: Runner) -> None:
    """Apply every registered filter once (or a few times) to typical inputs, through the
    registry as the renderer dispatches it; after each call the process state must be what
    it was before the call."""
    eng = R.eng
    for name in sorted(eng.env.filters):
        for x, args, kw in TYPICAL.get(name, GENERIC):
            before = process_state()
            res = eng.D(name, x, *args, **kw)
            if R.recording:
                R.ctx.count("priming_calls_state_checked")
                R.ctx.count("priming_calls_ok" if res.ok else "priming_calls_raised")
                R.ctx.seen("primed_filters", name)
            _state_guard(R, name, before, {
                "x": jn(x) if not isinstance(x, (Decimal, datetime.datetime)) else repr(x),
                "args": [repr(a) for a in args], "kwargs": {k: repr(v) for k, v in kw.items()}})


class History:
    """Per-shard driver: start() when the worker is fresh, finish() after the cases."""

    def __init__(self, R: Runner):
        self.R = R
        self.base: list[Any] = []
        self.state0: dict[str, Any] = {}

    def start(self) -> None:
        self.state0 = process_state()
        self.saved_ctx = decimal.getcontext().copy()
        self.base = eval_panel(self.R)
        prime(self.R)
        compare_panel(self.R, self.base, "after-priming")
        if process_state() != self.state0:
            # reported above; put the state back so that one defect does not also fail every
            # arithmetic law of the unit's own cases
            decimal.setcontext(self.saved_ctx)
            self.R.ctx.note("process state restored after priming changed it")

    def finish(self) -> None:
        st = process_state()
        for which in st:
            ok = st[which] == self.state0[which]
            if self.R.recording:
                self.R.ctx.ev()
                self.R.ctx.count("unit_state_checks")
            if not ok:
                self.R.ctx.violation(
                    f"unit-cases:leaves-process-state-changed:{which}",
                    f"the shard's own cases changed the process-wide {which}",
                    {"unit": HISTORY_UNIT, "before": repr(self.state0[which]), "after": repr(st[which])})
        compare_panel(self.R, self.base, "after-unit-cases")
