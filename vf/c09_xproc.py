"""Fresh-process oracle for C09: execute ONE step on freshly built objects in a new
interpreter (no module-level / class-level state from earlier renders can exist) and print
its outcome as JSON.  Usage: python -B -m vf.c09_xproc  < request.json
"""

from __future__ import annotations

import json
import sys

from .core import from_tagged
from .core import to_tagged
from .core import use_repo


def main() -> int:
    req = from_tagged(json.load(sys.stdin))
    use_repo()
    from .instr import clock as clk
    from .props import c09

    c = clk.install()
    c.t = req["clock"]
    if req.get("noloader"):
        out = c09.noloader_step(req["cfg"], req["step"], fresh=True, shared_envs=None)
    else:
        w = c09.World(req["sources"], req["caching"])
        for e, acts in req["cfg"].items():
            for a in acts:
                w.cfg[e].append(tuple(a))
        out = c09.do_step(w, req["step"], fresh=True)
    json.dump(to_tagged(list(out)), sys.stdout)
    return 0


if __name__ == "__main__":
    sys.exit(main())
