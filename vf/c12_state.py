"""C12 — pickling (and deep-copying) templates that carry state.

A `Template` is more than its nodes: it has a name, a path, template globals merged over
environment globals, overlay data (a loader's "front matter", which outranks the globals),
an `uptodate` callable and an environment with a loader that partials are fetched from.
This module builds templates through every construction path that sets such state and
compares everything observable before and after `pickle.loads(pickle.dumps(t))`, repeated
three times, and after `copy.deepcopy(t)`:

    render / render_async on several render-argument sets (none, overriding some names,
    overriding all names), name, str(path), full_name(), str(t), is_up_to_date() and
    is_up_to_date_async() (must not raise, same value), and what a *new* template made by
    the copied template's environment renders (environment globals, loader partials).

Names collide across the four data layers (render args > overlay data > template globals >
environment globals) so that losing or re-ordering a layer changes the output.
"""

from __future__ import annotations

import asyncio
import copy
import functools
import itertools
import os
import pickle
import random
import re
import shutil
import tempfile
from typing import Any

from liquid2 import CachingDictLoader
from liquid2 import DictLoader
from liquid2 import Environment
from liquid2 import FileSystemLoader
from liquid2.builtin import CachingFileSystemLoader
from liquid2.builtin import ChoiceLoader
from liquid2.exceptions import TemplateNotFoundError
from liquid2.loader import TemplateSource
from liquid2.shopify import Environment as ShopifyEnvironment

from . import c12_gen as G
from .core import Ctx

_ADDR = re.compile(r" at 0x[0-9a-fA-F]+")

NAMES = ["a", "b", "c", "d", "e"]
LAYERS = ["overlay", "globals", "env"]  # priority order below render arguments

READER = ("{{ a }}|{{ b }}|{{ c }}|{{ d }}|{{ e }}|{% if e %}E{% else %}no-e{% endif %}|"
          "{{ a | default: 'none' | upcase }}")
READERS = [
    READER,
    READER + "|{% include 'part' %}|{% render 'part' %}|{% render 'part', a: b %}",
    "{% assign a = a | append: '+' %}" + READER + "{% for i in (1..2) %}{{ i }}{{ b }}{% endfor %}",
    "{% capture x %}{{ c }}{{ d }}{% endcapture %}[{{ x }}]{% with b: 'W' %}{{ b }}{{ a }}{% endwith %}{{ b }}",
    "{% liquid\n  echo a\n  echo e\n  if d == 'env-d'\n    echo 'D'\n  endif\n%}|{{ s }}{{ n }}{{ arr | join: ',' }}",
    "{% macro m x, y: b %}<{{ x }}{{ y }}{{ c }}>{% endmacro %}{% call m a %}{% call m a, y: d %}",
]
PART = "[{{ a }}{{ b }}{{ e }}]"


class _OneStepTrim:
    """A documented customisation point: `Environment.trim()` may interpret the markers
    "however you see fit".  This one is deliberately NOT idempotent: `~` removes one newline
    per side, `-` removes one whitespace character per side, `+` nothing - so text that is
    trimmed twice differs from text trimmed once."""

    def trim(self, text: str, left_trim: Any, right_trim: Any) -> str:
        from liquid2 import WhitespaceControl as W

        if left_trim == W.DEFAULT:
            left_trim = self.default_trim  # type: ignore[attr-defined]
        if right_trim == W.DEFAULT:
            right_trim = self.default_trim  # type: ignore[attr-defined]
        if text and left_trim == W.MINUS and text[0].isspace():
            text = text[1:]
        elif text and left_trim == W.TILDE and text[0] in "\r\n":
            text = text[1:]
        if text and right_trim == W.MINUS and text[-1].isspace():
            text = text[:-1]
        elif text and right_trim == W.TILDE and text[-1] in "\r\n":
            text = text[:-1]
        return text


class OneStepTrimEnvironment(_OneStepTrim, Environment):
    pass


class OneStepTrimShopifyEnvironment(_OneStepTrim, ShopifyEnvironment):
    pass


def uptodate_true() -> bool:
    return True


def uptodate_value(v: bool) -> bool:
    return v


class MatterLoader(DictLoader):
    """A loader with per-template front matter and a configurable `uptodate`."""

    def __init__(self, templates: dict[str, str], matter: dict[str, dict[str, object]],
                 uptodate: str = "none") -> None:
        super().__init__(templates)
        self.matter = matter
        self.uptodate_kind = uptodate

    def get_source(self, env: Any, template_name: str, *, context: Any = None, **kwargs: Any) -> TemplateSource:
        try:
            source = self.templates[template_name]
        except KeyError as err:
            raise TemplateNotFoundError(template_name) from err
        up = {"none": None, "function": uptodate_true,
              "partial": functools.partial(uptodate_value, True)}[self.uptodate_kind]
        m = self.matter.get(template_name)
        return TemplateSource(source, template_name, up, dict(m) if m is not None else None)


# ---------------------------------------------------------------------------


def layer_values(assign: dict[str, list[str]]) -> dict[str, dict[str, Any]]:
    """assign: name -> layers that define it.  Values say which layer they came from."""
    out: dict[str, dict[str, Any]] = {l: {} for l in LAYERS}
    for name, layers in assign.items():
        for l in layers:
            out[l][name] = f"{l}-{name}"
    return out


def render_arg_sets(extra: dict[str, Any] | None = None) -> list[dict[str, Any]]:
    base = dict(extra or {})
    return [base, {**base, "a": "arg-a", "e": False}, {**base, **{n: f"arg-{n}" for n in NAMES}}]


PATHS = ["from_string", "from_string-bare", "dict", "matter-none", "matter-function", "matter-partial",
         "caching-dict", "caching-dict-noreload", "fs", "fs-sub", "caching-fs", "choice", "dict-async", "fs-async",
         "matter-async", "shopify-from_string"]


class Builder:
    def __init__(self) -> None:
        self.tmp = tempfile.mkdtemp(prefix="vf-c12-state-")
        self.n = 0

    def close(self) -> None:
        shutil.rmtree(self.tmp, ignore_errors=True)

    def build(self, spec: dict[str, Any]) -> Any:
        """spec -> Template (raises if the construction itself fails)."""
        path = spec["path"]
        src = spec["source"]
        partials = dict(spec.get("partials") or {})
        lv = spec["layers"]
        g = dict(lv["globals"]) or None
        ov = dict(lv["overlay"]) or None
        eg = dict(lv["env"]) or None
        if spec.get("data_globals"):
            g = {**(g or {}), **spec["data_globals"]}
        tpls = {"main": src, **partials}
        if path == "from_string":
            env = Environment(loader=DictLoader(partials), globals=eg)
            return env.from_string(src, name=spec.get("name", "tmpl.html"), path=spec.get("tpath", "some/dir/tmpl.html"),
                                   globals=g, overlay_data=ov)
        if path == "shopify-from_string":
            env = ShopifyEnvironment(loader=DictLoader(partials), globals=eg)
            return env.from_string(src, name="s.liquid", globals=g, overlay_data=ov)
        if path == "from_string-bare":
            env = Environment(loader=DictLoader(partials), globals=eg)
            return env.from_string(src, globals=g, overlay_data=ov)
        if path in ("dict", "dict-async"):
            env = Environment(loader=DictLoader(tpls), globals=eg)
            if ov:
                # a DictLoader has no front matter: the overlay layer moves into the globals
                g = {**(g or {}), **ov}
            if path == "dict-async":
                return asyncio.run(env.get_template_async("main", globals=g))
            return env.get_template("main", globals=g)
        if path.startswith("matter-"):
            kind = path.split("-", 1)[1]
            loader = MatterLoader(tpls, {"main": ov or {}, "part": {"e": "part-matter-e"}},
                                  "none" if kind == "async" else kind)
            env = Environment(loader=loader, globals=eg)
            if kind == "async":
                return asyncio.run(env.get_template_async("main", globals=g))
            return env.get_template("main", globals=g)
        if path in ("caching-dict", "caching-dict-noreload"):
            env = Environment(loader=CachingDictLoader(tpls, auto_reload=(path == "caching-dict")), globals=eg)
            if ov:
                g = {**(g or {}), **ov}
            env.get_template("main", globals=g)
            return env.get_template("main", globals=g)  # second load: served from the cache
        if path in ("fs", "fs-sub", "caching-fs", "fs-async", "choice"):
            self.n += 1
            root = os.path.join(self.tmp, f"t{self.n}")
            os.makedirs(os.path.join(root, "sub"))
            for name, text in tpls.items():
                with open(os.path.join(root, name), "w", encoding="utf8") as f:
                    f.write(text)
            with open(os.path.join(root, "sub", "main.liquid"), "w", encoding="utf8") as f:
                f.write(src)
            if ov:
                g = {**(g or {}), **ov}
            if path == "caching-fs":
                loader: Any = CachingFileSystemLoader(root)
            elif path == "choice":
                loader = ChoiceLoader([DictLoader({"other": "x"}), FileSystemLoader(root)])
            else:
                loader = FileSystemLoader(root)
            env = Environment(loader=loader, globals=eg)
            name = "sub/main.liquid" if path == "fs-sub" else "main"
            if path == "fs-async":
                return asyncio.run(env.get_template_async(name, globals=g))
            return env.get_template(name, globals=g)
        raise ValueError(path)


def observe(t: Any, arg_sets: list[dict[str, Any]]) -> dict[str, Any]:
    """Everything observable about a template, as plain data."""
    obs: dict[str, Any] = {}

    def guard(label: str, fn: Any) -> None:
        try:
            v = fn()
            obs[label] = _ADDR.sub(" at 0x?", v) if isinstance(v, str) else v
        except Exception as e:  # noqa: BLE001
            obs[label] = f"<raises {type(e).__name__}>"

    for i, args in enumerate(arg_sets):
        guard(f"render[{i}]", lambda a=args: t.render(**copy.deepcopy(a)))
        guard(f"render_async[{i}]", lambda a=args: asyncio.run(t.render_async(**copy.deepcopy(a))))
    guard("name", lambda: t.name)
    guard("path", lambda: str(t.path))
    guard("full_name", lambda: t.full_name())
    guard("str", lambda: str(t))
    guard("is_up_to_date", lambda: t.is_up_to_date())
    guard("is_up_to_date_async", lambda: asyncio.run(t.is_up_to_date_async()))
    probe = "{{ a }}/{{ d }}/{{ e }}{% include 'part' %}"
    guard("env.from_string", lambda: t.env.from_string(probe).render())
    guard("env.class", lambda: type(t.env).__name__ + "/" + type(t.env.loader).__name__)
    return obs


def effective_layer(spec: dict[str, Any], name: str) -> str:
    for l in LAYERS:
        if name in spec["layers"][l]:
            return l
    return "undefined"


def state_key(how: str, spec: dict[str, Any], before: dict[str, Any], after: dict[str, Any]) -> tuple[str, str]:
    """Mechanism key: which observable changed; for renders, which data layer the changed
    names came from in the original."""
    for label in before:
        if before[label] != after.get(label):
            aspect = label.split("[")[0]
            what = f"{label}: {before[label]!r} before vs {after.get(label)!r} after {how}"
            if aspect in ("render", "render_async"):
                layers = set()
                try:
                    b = spec["_before_values"]
                    a = spec["_after_values"]
                    for n in b:
                        if b[n] != a.get(n):
                            layers.add(effective_layer(spec, n) if n in NAMES else "globals")
                except KeyError:
                    pass
                lay = "+".join(sorted(layers)) or "?"
                if str(after.get(label, "")).startswith("<raises"):
                    return f"{how}-state:render-{after[label].strip('<>').replace(' ', '-')}", what
                return f"{how}-state:render@{lay}", what
            return f"{how}-state:{aspect}", what
    return "", ""


def visible(t: Any) -> dict[str, Any]:
    try:
        m = t.make_globals({})
        return {k: repr(m[k]) for k in m}
    except Exception:  # noqa: BLE001
        return {}


def check_one(spec: dict[str, Any], builder: Builder, ctx: Ctx, record: bool = True) -> str:
    """Returns '' (held / not a case) or the violation key."""
    arg_sets = spec.get("arg_sets") or render_arg_sets()
    try:
        t = builder.build(spec)
    except Exception as e:  # noqa: BLE001
        if record:
            ctx.count("state_build_failed")
            ctx.note(f"state case could not be built ({spec['path']}): {type(e).__name__}: {str(e)[:100]}")
        return ""
    before = observe(t, arg_sets)
    if record:
        ctx.seen("state_paths", spec["path"])
        ctx.count("state_cases")
        if any(not str(v).startswith("<raises") for k, v in before.items() if k.startswith("render[")):
            ctx.count("state_cases_rendering")
    first = ""
    wit = {"check": "state", **{k: v for k, v in spec.items() if not k.startswith("_")}, "arg_sets": arg_sets}
    for how in ("pickle", "deepcopy"):
        cur = t
        for trip in (1, 2, 3):
            if record:
                ctx.ev()
                ctx.count("state_" + how + "s")
            ph = "copy"
            try:
                if how == "pickle":
                    ph = "dumps"
                    blob = pickle.dumps(cur)
                    ph = "loads"
                    cur = pickle.loads(blob)  # noqa: S301
                else:
                    cur = copy.deepcopy(cur)
            except Exception as e:  # noqa: BLE001
                msg = re.sub(r"\d+", "N", re.sub(r"'[^']*'|\"[^\"]*\"", "_", str(e).split("\n")[0]))[:70]
                key = f"{how}-{ph}:{type(e).__name__}({msg})"
                if record:
                    ctx.violation(key, f"{how} of a template built via {spec['path']} raised "
                                       f"{type(e).__name__}: {e}", wit)
                first = first or key
                break
            after = observe(cur, arg_sets)
            if after != before:
                spec["_before_values"] = visible(t)
                spec["_after_values"] = visible(cur)
                key, what = state_key(how, spec, before, after)
                if record:
                    ctx.violation(key, f"template built via {spec['path']}, {how} round trip {trip}: {what}", wit)
                first = first or key
                break
            if record:
                ctx.count("state_compared")
    return first


# ---------------------------------------------------------------------------
# workload
# ---------------------------------------------------------------------------


def layer_assignments(rng: random.Random, exhaustive: bool) -> list[dict[str, list[str]]]:
    """Which layers define which of the five names."""
    subsets = [list(c) for r in range(0, 4) for c in itertools.combinations(LAYERS, r)]  # 8
    out = []
    if exhaustive:
        # name `a` over every subset of layers, the other names fixed to distinct patterns
        for s in subsets:
            out.append({"a": s, "b": ["globals", "env"], "c": ["overlay"], "d": ["env"], "e": ["overlay", "env"]})
        # every name in every layer / in none
        out.append({n: list(LAYERS) for n in NAMES})
        out.append({n: [] for n in NAMES})
        for l in LAYERS:
            out.append({n: [l] for n in NAMES})
    else:
        for _ in range(6):
            out.append({n: rng.choice(subsets) for n in NAMES})
    return out


def specs(rng: random.Random, part: int, nparts: int, tier: str) -> list[dict[str, Any]]:
    out: list[dict[str, Any]] = []
    k = 0
    for pi, path in enumerate(PATHS):
        for ai, assign in enumerate(layer_assignments(rng, exhaustive=True) + layer_assignments(rng, False)):
            k += 1
            if k % nparts != part:
                continue
            src = READERS[(pi + ai) % len(READERS)]
            extra = {"s": "S", "n": 3, "arr": [1, 2]} if "arr" in src else None
            out.append({"path": path, "source": src, "partials": {"part": PART}, "layers": layer_values(assign),
                        "arg_sets": render_arg_sets(extra)})
    # generated templates whose data arrives through the layers instead of render arguments
    n = 25 if tier == "quick" else 400
    keys = list(G.DATA_A)
    for j in range(n):
        r = random.Random(f"{rng.random()}:{j}")
        src, tpls, _feats = G.random_case(r, shopify=False, max_depth=2)
        ks = keys[:]
        r.shuffle(ks)
        third = len(ks) // 3
        lv = {"overlay": {x: G.DATA_A[x] for x in ks[:third]},
              "globals": {x: G.DATA_A[x] for x in ks[third:2 * third]},
              "env": {x: G.DATA_A[x] for x in ks[2 * third:]}}
        # collisions: the lower layers also define (differently) what a higher layer defines
        for x in ks[:third][:3]:
            lv["globals"][x] = G.DATA_B.get(x)
            lv["env"][x] = "env-shadowed"
        path = r.choice(["from_string", "matter-none", "matter-function", "dict", "fs", "from_string-bare"])
        tpls = {k2: v for k2, v in tpls.items() if "/" not in k2}
        out.append({"path": path, "source": src, "partials": tpls, "layers": lv,
                    "arg_sets": [{}, {"s": "arg-s", "t": False, "n": 1}, G.DATA_B]})
    return out


# ---------------------------------------------------------------------------
# pickles read back in another process (another PYTHONHASHSEED)
# ---------------------------------------------------------------------------

_CHILD = r"""
import sys, pickle, json, re, copy
sys.path.insert(0, sys.argv[1]); sys.path.insert(1, sys.argv[2])
addr = re.compile(r" at 0x[0-9a-fA-F]+")
with open(sys.argv[3], "rb") as f:
    items = pickle.load(f)
out = []
for blob, datas in items:
    try:
        t = pickle.loads(blob)
    except Exception as e:
        out.append(["loads", type(e).__name__ + ": " + str(e)[:80]])
        continue
    res = []
    for d in datas:
        try:
            res.append(["ok", addr.sub(" at 0x?", t.render(**copy.deepcopy(d)))])
        except Exception as e:
            res.append(["err", type(e).__name__])
    out.append(["rendered", res])
json.dump(out, sys.stdout)
"""


def _other_process(items: list[tuple[bytes, list[dict[str, Any]]]], tmp: str) -> list[Any] | None:
    import json
    import subprocess
    import sys

    from .core import REPO_DIR
    from .core import VERIF_DIR

    path = os.path.join(tmp, "xproc.pkl")
    with open(path, "wb") as f:
        pickle.dump(items, f)
    env = dict(os.environ)
    env["PYTHONHASHSEED"] = "4242" if env.get("PYTHONHASHSEED") != "4242" else "17"
    p = subprocess.run([sys.executable, "-B", "-c", _CHILD, REPO_DIR, VERIF_DIR, path], env=env,  # noqa: S603
                       capture_output=True, text=True, timeout=600, check=False)
    if p.returncode != 0:
        return None
    return json.loads(p.stdout)


def _outcomes(t: Any, datas: list[dict[str, Any]]) -> list[list[str]]:
    res = []
    for d in datas:
        try:
            res.append(["ok", _ADDR.sub(" at 0x?", t.render(**copy.deepcopy(d)))])
        except Exception as e:  # noqa: BLE001
            res.append(["err", type(e).__name__])
    return res


def xproc(spec: dict[str, Any], ctx: Ctx, tmp: str) -> None:
    """Pickle here, unpickle and render in a process with another hash seed."""
    rng = random.Random(f"{spec['seed']}:xproc")
    datas = [G.DATA_A, G.DATA_B]
    cases: list[tuple[str, str, dict[str, str]]] = [("shopify", src, G.PARTIALS) for src, _f in G._tag_units()]  # noqa: SLF001
    for j in range(60 if spec["tier"] == "quick" else 1500):
        src, tpls, _ = G.random_case(random.Random(f"{rng.random()}:{j}"), shopify=True, max_depth=2)
        cases.append(("shopify", src, tpls))
    items, kept, expected = [], [], []
    for kind, src, tpls in cases:
        try:
            env = ShopifyEnvironment(loader=DictLoader(tpls))
            t = env.from_string(src)
            exp = _outcomes(t, datas)
            if _outcomes(t, datas) != exp:
                continue  # not a function of its inputs in this process either
            blob = pickle.dumps(t)
        except Exception:  # noqa: BLE001
            continue
        items.append((blob, datas))
        kept.append((kind, src, tpls))
        expected.append(exp)
    got = _other_process(items, tmp)
    if got is None:
        ctx.note("cross-process pickle child failed to run")
        return
    minimised: set[str] = set()
    for (kind, src, tpls), exp, g in zip(kept, expected, got):
        ctx.ev()
        ctx.count("xproc_pickles")
        wit = {"check": "xproc", "kind": kind, "source": src, "templates": tpls, "datas": datas}
        if g[0] == "loads":
            ctx.violation("pickle-xproc-loads:" + g[1].split(":")[0],
                          f"a pickle made in this process does not load in another process: {g[1]}", wit)
            continue
        if g[1] == exp:
            ctx.count("xproc_compared_equal")
            continue
        j = next((i for i, (a, b) in enumerate(zip(exp, g[1])) if a != b), 0)
        small = src
        if "behaviour" not in minimised:
            minimised.add("behaviour")
            small = _min_xproc(src, tpls, datas, tmp)
        try:
            classes = sorted({type(n).__name__ for n in ShopifyEnvironment(loader=DictLoader(tpls)).from_string(small).nodes}
                             - {"ContentNode"})
        except Exception:  # noqa: BLE001
            classes = ["?"]
        key = "pickle-xproc-behaviour@" + "+".join(classes)[:60] if small != src else "pickle-xproc-behaviour"
        wit["source"] = small
        ctx.violation(key, "template pickled here and unpickled in a process with another PYTHONHASHSEED renders "
                           f"differently on data set {j}: {exp[j]!r} vs {g[1][j]!r}", wit)


def _min_xproc(src: str, tpls: dict[str, str], datas: list[dict[str, Any]], tmp: str) -> str:
    """A few subprocess runs: keep the top-level chunks that still show the difference."""
    from .minimize import ddmin
    from .props.c12 import _chunks

    def fails(text: str) -> bool:
        try:
            t = ShopifyEnvironment(loader=DictLoader(tpls)).from_string(text)
            exp = _outcomes(t, datas)
            got = _other_process([(pickle.dumps(t), datas)], tmp)
        except Exception:  # noqa: BLE001
            return False
        return bool(got) and got[0][0] == "rendered" and got[0][1] != exp

    ch = _chunks("shopify", src)
    if not ch or len(ch) < 2:
        return src
    ch = ddmin(ch, lambda c: fails("".join(c)), max_calls=40)
    return "".join(ch)


def run(spec: dict[str, Any], ctx: Ctx) -> None:
    rng = random.Random(f"{spec['seed']}:state:{spec['i']}")
    b = Builder()
    try:
        last = None
        for sp in specs(rng, spec["i"], spec["n"], spec["tier"]):
            check_one(sp, b, ctx)
            last = sp
        if spec["i"] == 0:
            xproc(spec, ctx, b.tmp)
        if last:
            ctx.sample({"kind": "state", "path": last["path"], "source": last["source"][:200],
                        "layers": {k: sorted(v) for k, v in last["layers"].items()}})
    finally:
        b.close()


def replay(wit: dict[str, Any], ctx: Ctx) -> None:
    b = Builder()
    try:
        if wit.get("check") == "xproc":
            t = ShopifyEnvironment(loader=DictLoader(wit["templates"])).from_string(wit["source"])
            exp = _outcomes(t, wit["datas"])
            got = _other_process([(pickle.dumps(t), wit["datas"])], b.tmp)
            print(f"replay C12 xproc: here={exp!r}\n  other process={got!r}")
            if got and (got[0][0] != "rendered" or got[0][1] != exp):
                ctx.violation("pickle-xproc-behaviour", "renders differently after unpickling in another process",
                              dict(wit))
            return
        spec = {k: v for k, v in wit.items() if k != "check"}
        key = check_one(spec, b, ctx)
        print(f"replay C12 state: path={spec['path']} key={key or '<held>'}")
        try:
            t = b.build(spec)
            for k, v in observe(t, spec.get("arg_sets") or render_arg_sets()).items():
                print(f"  original {k} = {v!r}"[:300])
        except Exception as e:  # noqa: BLE001
            print(f"  build failed: {type(e).__name__}: {e}")
    finally:
        b.close()
