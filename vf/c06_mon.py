"""C06 monitors: attached from the harness to the classes imported from the repo.

Patched (methods on class objects, once per process, pass-through while no monitor
is active):

* ``liquid2.ast.Node.render`` / ``render_async`` — the only entry points through which a
  node is rendered.  Gives the dynamic *frame stack* of loop constructs (for, tablerow,
  render, include) and partial boundaries (call, block, extends) and counts every loop
  body execution, whatever buffer it writes to.
* ``liquid2.template.Template.render_with_context`` / ``_async`` — one call below a
  render/include frame is one iteration of ``render .. for`` / ``include .. for`` (or
  the single execution of a plain render/include).
* ``liquid2.output.LimitedStringIO.__init__`` / ``write`` — every byte accepted by a
  limited buffer is counted independently of ``LimitedStringIO.size``.
* ``liquid2.context.RenderContext.__init__`` / ``assign`` / ``get_output_buffer`` /
  ``copy`` — root context, namespace size after every assignment (own measure over the
  ``parent`` chain), capture-buffer parentage, copy depth.
"""

from __future__ import annotations

import sys
from typing import Any

MON: "Mon | None" = None
_installed = False

LOOP_KINDS = ("for", "tablerow", "render", "include")
PARTIAL_KINDS = ("render", "include")


class Frame:
    __slots__ = ("kind", "site", "body", "count", "children", "parent", "chain_counts", "mode", "site_max",
                 "length")

    def __init__(self, kind: str, site: Any, body: Any, parent: "Frame | None"):
        self.kind = kind
        self.site = site
        self.body = body
        self.count = 0
        self.children: list[Frame] = []
        self.parent = parent
        self.chain_counts: dict[tuple[Any, ...], int] | None = None
        self.site_max: dict[tuple[Any, ...], int] | None = None
        self.mode = ""
        # the length the engine declared for this loop activation: the argument of the
        # raise_for_loop_limit call made while this frame was the innermost one
        self.length: int | None = None


class BufRec:
    __slots__ = ("buf", "written", "nwrites", "allow", "carry", "is_root", "true_carry", "null_parent")

    def __init__(self, buf: Any):
        self.buf = buf  # strong reference: ids are not reused while the monitor lives
        self.written = 0
        self.nwrites = 0
        self.allow: int | None = None
        self.carry = 0  # bytes in the engine-visible parent chain when this buffer was made
        self.true_carry = 0  # same along the real chain (through NullIO parents)
        self.is_root = False
        self.null_parent = False


class Mon:
    """Everything observed during one render."""

    def __init__(self, limits: dict[str, int | None]):
        self.limits = limits
        self.stack: list[Frame] = []
        self.roots: list[Frame] = []
        self.root_buffer: Any = None
        self.cur_real: Any = None
        self.root_ctx: Any = None
        self.node_renders = 0
        self.body_execs = 0
        self.visible_body_execs = 0
        self.max_chain = 0  # C: max number of executions of one loop body within one nest
        self.max_chain_kinds: tuple[str, ...] = ()
        self.cross_partial = False  # some nest with >= 2 real loops crosses a partial boundary
        self.max_partial_depth = 0
        self.max_copy_depth = 0
        self.interrupted: list[str] = []  # loop activations that ran fewer bodies than their declared length
        self.loop_checks = 0
        self.extend_depth: dict[int, int] = {}
        self.max_extend_depth = 0  # nested extend() activations on one context
        self.max_engine_stack = 0  # Python frames that are not the monitor's, at the deepest partial
        self.loop_over: dict[str, Any] | None = None  # first body execution beyond the loop limit
        # output
        self.bufs: dict[int, BufRec] = {}
        self.buf_order: list[BufRec] = []
        self.capture_buffers = 0
        self.peak_visible = 0  # max over buffers of written + engine-visible carry
        self.peak_true = 0  # same with the real chain
        self.out_over: dict[str, Any] | None = None
        self.null_parent_over = 0
        # namespace
        self.assigns = 0
        self.ns_peak = 0
        self.ns_over: dict[str, Any] | None = None  # assign accepted although own size > limit
        self.ns_early: dict[str, Any] | None = None  # error raised although own size <= limit
        self.ns_raised = 0
        self.measure: Any = shallow_size  # the size of one local value, as configured for this render
        self.unrestored: dict[str, Any] | None = None  # loop stack / carry changed by a node that returned
        self.assigns_in_copies = 0  # assignments made in a copied context (render, call, block)
        self.rebinds = 0  # assignments to a name that was already bound in that context
        self.rebinds_nil = 0  # ... from or to nil
        self.assign_depths: set[int] = set()  # copy depths of the contexts that were assigned to
        self.copy_snap: dict[int, tuple[Any, int]] = {}  # child context -> size of the parent chain when copied

    # ---------------------------------------------------------------- node trace
    def pre(self, node: Any, buffer: Any) -> Frame | None:
        self.node_renders += 1
        st = self.stack
        if st:
            top = st[-1]
            if top.body is node:
                self.body_exec(top, buffer, node)
        kind = KINDS.get(type(node))
        if kind is None:
            kind = _slow_kind(node)
        if not kind:
            return None
        body = node.block if kind in ("for", "tablerow") else None
        tok = node.token
        f = Frame(kind, (tok.source, tok.start), body, st[-1] if st else None)
        if kind in PARTIAL_KINDS:
            f.mode = "for" if getattr(node, "loop", False) or (kind == "include" and node.var is not None) else ""
        if not st:
            f.chain_counts = {}
            f.site_max = {}
        st.append(f)
        return f

    def post(self, f: Frame) -> None:
        st = self.stack
        assert st and st[-1] is f
        if f.count > 1 and len(st) > 1:
            sm = st[0].site_max
            key = tuple(fr.site for fr in st)
            if sm is not None and f.count > sm.get(key, 0):
                sm[key] = f.count
        st.pop()
        if f.kind in LOOP_KINDS and f.length is not None and f.count < f.length:
            # left early: break / continue propagating out of it (or an error)
            self.interrupted.append(_label(f, max(f.length, 2)))
        if f.parent is not None:
            f.parent.children.append(f)
        else:
            self.roots.append(f)

    def body_exec(self, f: Frame, buffer: Any, node: Any) -> None:
        f.count += 1
        self.body_execs += 1
        if buffer is self.root_buffer and (node is None or not node.blank):
            self.visible_body_execs += 1
        st = self.stack
        # chain = sites from the outermost active frame down to f
        idx = len(st) - 1
        while st[idx] is not f:
            idx -= 1
        chain = tuple(fr.site for fr in st[: idx + 1])
        cc = st[0].chain_counts
        assert cc is not None
        n = cc.get(chain, 0) + 1
        cc[chain] = n
        if n > self.max_chain:
            self.max_chain = n
            self.max_chain_kinds = tuple(_label(fr) for fr in st[: idx + 1])
        lim = self.limits.get("loop")
        if lim is not None and n > lim and self.loop_over is None:
            frames = st[: idx + 1]
            sm = st[0].site_max or {}
            # iterations of each construct on the chain: the current activation's count or
            # the largest count of an earlier activation at the same position of the nest
            counts = [max(fr.count, sm.get(chain[: i + 1], 0)) for i, fr in enumerate(frames)]
            self.loop_over = {
                "count": n,
                "limit": lim,
                "chain": [_label(fr, c) for fr, c in zip(frames, counts)],
                "counts": counts,
            }

    def on_template(self, buf: Any) -> None:
        if self.root_buffer is None:
            self.root_buffer = buf
            self.cur_real = buf
            rec = self.bufs.get(id(buf))
            if rec is not None:
                rec.is_root = True
                rec.allow = self.limits.get("out")
        st = self.stack
        if st and st[-1].kind in PARTIAL_KINDS:
            # a partial template is actually entered (the context copy / extension was allowed)
            d = 0
            for fr in st:
                if fr.kind in PARTIAL_KINDS:
                    d += 1
            if d > self.max_partial_depth:
                self.max_partial_depth = d
                e = _engine_frames()
                if e > self.max_engine_stack:
                    self.max_engine_stack = e
            self.body_exec(st[-1], buf, None)

    # ---------------------------------------------------------------- post-hoc loop facts
    def on_unrestored(self, node: Any, depth: int, carry: int, context: Any) -> None:
        """A node returned normally and left the context's loop accounting changed."""
        kind = KINDS.get(type(node)) or type(node).__name__
        self.unrestored = {
            "node": kind,
            "what": "loop-stack" if len(context.loops) != depth else "loop-carry",
            "loops_before": depth, "loops_after": len(context.loops),
            "carry_before": carry, "carry_after": context.loop_iteration_carry,
        }

    def on_loop_check(self, length: int) -> None:
        self.loop_checks += 1
        st = self.stack
        if st:
            top = st[-1]
            if top.kind in LOOP_KINDS and top.length is None:
                top.length = length

    def declared_product(self) -> int:
        """M: max over loop activations of the product of the declared lengths of the
        activation and of every enclosing loop activation - the count the engine documents
        and checks up front.  The declared length of an activation is the length the engine
        itself passed to its limit check on entry (at least the bodies actually run), so a
        loop left early by break still counts with its full length."""
        best = 0
        work = [(r, 1, 0, False) for r in self.roots]
        while work:
            f, prod, nloops, crossed = work.pop()
            factor = 0
            if f.kind in LOOP_KINDS:
                factor = max(f.count, f.length or 0)
            if factor > 0:
                # (a loop with no iteration contributes nothing: what runs below its frame
                # is its `else` branch, outside the loop)
                prod *= factor
            if f.kind in LOOP_KINDS and f.count > 1:
                if nloops >= 1 and (crossed or f.kind in PARTIAL_KINDS):
                    self.cross_partial = True
                nloops += 1
                crossed = crossed or f.kind in PARTIAL_KINDS
            elif nloops and f.kind in ("render", "include", "call", "block", "extends"):
                crossed = True
            if prod > best and factor > 0:
                best = prod
            for c in f.children:
                work.append((c, prod, nloops, crossed))
        return best

    # ---------------------------------------------------------------- output
    def on_buffer_init(self, buf: Any, limit: int) -> None:
        rec = BufRec(buf)
        rec.allow = limit
        self.bufs[id(buf)] = rec
        self.buf_order.append(rec)

    def on_capture_buffer(self, buf: Any, parent: Any) -> None:
        self.capture_buffers += 1
        rec = self.bufs.get(id(buf))
        if rec is None:
            return  # unrestricted environment: plain StringIO
        L = self.limits.get("out")
        prec = self.bufs.get(id(parent)) if parent is not None else None
        if prec is not None:
            rec.carry = prec.written  # what the engine carries: the parent's bytes, one level
            rec.true_carry = prec.true_carry + prec.written
        else:
            rec.carry = 0
            rec.null_parent = True
            real = self.bufs.get(id(self.cur_real)) if self.cur_real is not None else None
            rec.true_carry = (real.true_carry + real.written) if real is not None else 0
        if L is not None:
            rec.allow = L - rec.carry

    def on_write(self, buf: Any, s: str) -> None:
        rec = self.bufs.get(id(buf))
        if rec is None:
            return
        rec.nwrites += 1
        if not s:
            return
        rec.written += len(s.encode("utf-8", "surrogatepass"))
        t = rec.written + rec.carry
        if t > self.peak_visible:
            self.peak_visible = t
        t2 = rec.written + rec.true_carry
        if t2 > self.peak_true:
            self.peak_true = t2
        L = self.limits.get("out")
        if L is None:
            return
        if rec.allow is not None and rec.written > rec.allow and self.out_over is None:
            self.out_over = {
                "buffer": "root" if rec.is_root else "capture",
                "written": rec.written,
                "carry": rec.carry,
                "limit": L,
            }
        if t2 > L and t <= L:
            # bytes along the real buffer chain exceed the limit although every buffer is
            # within what the engine allows it (nested capture / capture under a blank block)
            self.null_parent_over += 1

    # ---------------------------------------------------------------- namespace
    def on_assign(self, ctx: Any, raised: bool) -> None:
        self.assigns += 1
        d = _ctx_depth(ctx)
        self.assign_depths.add(d)
        if d:
            self.assigns_in_copies += 1
        sz = own_size(ctx)
        L = self.limits.get("ns")
        if raised:
            self.ns_raised += 1
            if L is not None and sz <= L and self.ns_early is None:
                why = ""
                c, hops = ctx, 0
                while c.parent is not None and hops < 10_000:
                    snap = self.copy_snap.get(id(c))
                    if snap is not None and own_size(c.parent) < snap[1]:
                        # an ancestor's namespace shrank after this copy was made: the
                        # carried size is stale (too high)
                        why = "parent-shrank-after-copy"
                        break
                    c, hops = c.parent, hops + 1
                self.ns_early = {"size": sz, "limit": L, "why": why}
            return
        if sz > self.ns_peak:
            self.ns_peak = sz
        if L is not None and sz > L and self.ns_over is None:
            eng = ctx.get_size_of_locals()
            why = "check-skipped" if eng > L else "engine-undercounts"
            if eng <= L:
                c, hops = ctx, 0
                while c.parent is not None and hops < 10_000:
                    snap = self.copy_snap.get(id(c))
                    if snap is not None and own_size(c.parent) > snap[1]:
                        # an ancestor's namespace grew after this copy was made (block.super
                        # renders the parent block in the outer context): the carried size is stale
                        why = "parent-grew-after-copy"
                        break
                    c, hops = c.parent, hops + 1
                else:
                    snap = self.copy_snap.get(id(ctx))
                    if snap is not None and getattr(ctx, "local_namespace_carry", None) != snap[1]:
                        why = "carry-wrong-at-copy"
            self.ns_over = {"size": sz, "limit": L, "engine_size": eng, "depth": _ctx_depth(ctx), "why": why}


_THIS = __file__


def _engine_frames() -> int:
    """Frames on the Python stack that belong to liquid2 (the monitor's own wrapper
    frames and the harness below the render call are not counted)."""
    f = sys._getframe(1)
    n = 0
    while f is not None:
        fn = f.f_code.co_filename
        if fn is not _THIS and "liquid2" in fn:
            n += 1
        f = f.f_back
    return n


def shallow_size(v: Any) -> int:
    """The documented default measure of one local value."""
    return sys.getsizeof(v, 1)


def text_size(v: Any) -> int:
    """Bytes of text a value holds, strings inside arrays and hashes included."""
    if isinstance(v, str):
        return len(v.encode("utf-8", "surrogatepass"))
    if isinstance(v, (list, tuple)):
        return sum(text_size(x) for x in v)
    if isinstance(v, dict):
        return sum(text_size(x) for x in v.values())
    return 1


def item_count(v: Any) -> int:
    """Number of scalar items a value holds."""
    if isinstance(v, (list, tuple, range)):
        return sum(item_count(x) for x in v) if not isinstance(v, range) else len(v)
    if isinstance(v, dict):
        return sum(item_count(x) for x in v.values())
    return 1


def per_name(v: Any) -> int:  # noqa: ARG001
    return 7


MEASURES = {"shallow": shallow_size, "text": text_size, "items": item_count, "names": per_name}


def own_size(ctx: Any, fn: Any = None) -> int:
    """The configured measure (default: sys.getsizeof of every local value), summed over
    the chain of render contexts that are alive (``parent`` links), computed here."""
    if fn is None:
        fn = MON.measure if MON is not None else shallow_size
    total = 0
    seen = 0
    while ctx is not None and seen < 10_000:
        for v in ctx.locals.values():
            total += fn(v)
        ctx = ctx.parent
        seen += 1
    return total


def _ctx_depth(ctx: Any) -> int:
    d = 0
    while ctx.parent is not None and d < 10_000:
        ctx = ctx.parent
        d += 1
    return d


def _label(f: Frame, count: int | None = None) -> str:
    if f.kind in PARTIAL_KINDS:
        c = f.count if count is None else count
        return f"{f.kind}-for" if (f.mode == "for" and c > 1) else f.kind
    return f.kind


KINDS: dict[type, str] = {}
_BASES: list[tuple[type, str]] = []


def _slow_kind(node: Any) -> str:
    t = type(node)
    k = ""
    for base, kind in _BASES:
        if isinstance(node, base):
            k = kind
            break
    KINDS[t] = k
    return k


def install() -> None:
    """Attach the wrappers (idempotent)."""
    global _installed
    if _installed:
        return
    _installed = True

    from liquid2 import ast as L_ast
    from liquid2 import context as L_context
    from liquid2 import output as L_output
    from liquid2 import template as L_template
    from liquid2.builtin.tags.extends_tag import BlockNode as ExtBlockNode
    from liquid2.builtin.tags.extends_tag import ExtendsNode
    from liquid2.builtin.tags.for_tag import ForNode
    from liquid2.builtin.tags.include_tag import IncludeNode
    from liquid2.builtin.tags.macro_tag import CallNode
    from liquid2.builtin.tags.render_tag import RenderNode
    from liquid2.exceptions import LocalNamespaceLimitError
    from liquid2.shopify.tags.tablerow_tag import TablerowNode

    _BASES.extend([
        (ForNode, "for"), (TablerowNode, "tablerow"), (RenderNode, "render"),
        (IncludeNode, "include"), (CallNode, "call"), (ExtBlockNode, "block"),
        (ExtendsNode, "extends"),
    ])
    NullIO = L_output.NullIO

    Node = L_ast.Node
    o_render = Node.render
    o_render_async = Node.render_async

    def render(self, context, buffer):  # noqa: ANN001
        m = MON
        if m is None:
            return o_render(self, context, buffer)
        f = m.pre(self, buffer)
        prev = m.cur_real
        if buffer is not prev and type(buffer) is not NullIO:
            m.cur_real = buffer
        depth, carry = len(context.loops), context.loop_iteration_carry
        try:
            n = o_render(self, context, buffer)
            if (len(context.loops) != depth or context.loop_iteration_carry != carry) and m.unrestored is None:
                m.on_unrestored(self, depth, carry, context)
            return n
        finally:
            m.cur_real = prev
            if f is not None:
                m.post(f)

    async def render_async(self, context, buffer):  # noqa: ANN001
        m = MON
        if m is None:
            return await o_render_async(self, context, buffer)
        f = m.pre(self, buffer)
        prev = m.cur_real
        if buffer is not prev and type(buffer) is not NullIO:
            m.cur_real = buffer
        depth, carry = len(context.loops), context.loop_iteration_carry
        try:
            n = await o_render_async(self, context, buffer)
            if (len(context.loops) != depth or context.loop_iteration_carry != carry) and m.unrestored is None:
                m.on_unrestored(self, depth, carry, context)
            return n
        finally:
            m.cur_real = prev
            if f is not None:
                m.post(f)

    Node.render = render
    Node.render_async = render_async

    Template = L_template.Template
    o_rwc = Template.render_with_context
    o_rwc_async = Template.render_with_context_async

    def render_with_context(self, context, buf, *a, **kw):  # noqa: ANN001
        m = MON
        if m is not None:
            m.on_template(buf)
        return o_rwc(self, context, buf, *a, **kw)

    async def render_with_context_async(self, context, buf, *a, **kw):  # noqa: ANN001
        m = MON
        if m is not None:
            m.on_template(buf)
        return await o_rwc_async(self, context, buf, *a, **kw)

    Template.render_with_context = render_with_context
    Template.render_with_context_async = render_with_context_async

    LS = L_output.LimitedStringIO
    o_init = LS.__init__
    o_write = LS.write

    def ls_init(self, limit, *a, **kw):  # noqa: ANN001
        o_init(self, limit, *a, **kw)
        m = MON
        if m is not None:
            m.on_buffer_init(self, limit)

    def ls_write(self, s):  # noqa: ANN001
        n = o_write(self, s)
        m = MON
        if m is not None:
            m.on_write(self, s)
        return n

    LS.__init__ = ls_init
    LS.write = ls_write

    RC = L_context.RenderContext
    o_cinit = RC.__init__
    o_assign = RC.assign
    o_gob = RC.get_output_buffer
    o_copy = RC.copy

    def rc_init(self, *a, **kw):  # noqa: ANN001
        o_cinit(self, *a, **kw)
        m = MON
        if m is not None and m.root_ctx is None and self.parent is None:
            m.root_ctx = self

    def rc_assign(self, key, val):  # noqa: ANN001
        m = MON
        if m is None:
            return o_assign(self, key, val)
        if key in self.locals:
            m.rebinds += 1
            if self.locals[key] is None or val is None:
                m.rebinds_nil += 1
        try:
            o_assign(self, key, val)
        except LocalNamespaceLimitError:
            m.on_assign(self, True)
            raise
        m.on_assign(self, False)
        return None

    def rc_gob(self, parent_buffer):  # noqa: ANN001
        b = o_gob(self, parent_buffer)
        m = MON
        if m is not None:
            m.on_capture_buffer(b, parent_buffer)
        return b

    def rc_copy(self, *a, **kw):  # noqa: ANN001
        c = o_copy(self, *a, **kw)
        m = MON
        if m is not None:
            d = _ctx_depth(c)
            if d > m.max_copy_depth:
                m.max_copy_depth = d
            if m.limits.get("ns") is not None:
                m.copy_snap[id(c)] = (c, own_size(self))
        return c

    from contextlib import contextmanager

    o_extend = RC.extend

    @contextmanager
    def rc_extend(self, namespace, template=None):  # noqa: ANN001
        with o_extend(self, namespace, template) as c:
            m = MON
            if m is None:
                yield c
                return
            k = id(self)
            d = m.extend_depth.get(k, 0) + 1
            m.extend_depth[k] = d
            if d > m.max_extend_depth:
                m.max_extend_depth = d
            try:
                yield c
            finally:
                m.extend_depth[k] = d - 1

    RC.extend = rc_extend
    o_rfl = RC.raise_for_loop_limit

    def rc_rfl(self, length=1):  # noqa: ANN001
        m = MON
        if m is not None:
            m.on_loop_check(length)
        return o_rfl(self, length)

    RC.raise_for_loop_limit = rc_rfl
    RC.__init__ = rc_init
    RC.assign = rc_assign
    RC.get_output_buffer = rc_gob
    RC.copy = rc_copy


def activate(limits: dict[str, int | None]) -> Mon:
    global MON
    install()
    MON = Mon(limits)
    return MON


def deactivate() -> None:
    global MON
    MON = None
