"""C07 instrumentation: frame-condition monitor and fault-injecting data.

Everything is attached from the harness to the classes imported from the repo:

* `liquid2.ast.Node.render` / `render_async` (every node goes through them): snapshot
  of the scope chain (namespaces by identity), `len(context.loops)`, `context.template`
  and `context.disabled_tags` before the node, compared after it on normal AND
  exceptional exit.
* `RenderContext.extend` and `RenderContext.loop` (context managers): chain / loop
  stack before entry compared with the state after exit (also when entry fails).
* `check_top`: the same comparison for a harness-owned `RenderContext` after
  `Template.render_with_context[_async]` returned or raised.

A discrepancy is recorded (never raised) as an event `(key, what, detail)`; per run only
the first event of each category (scope / loops / template / disabled) is kept, which is
the innermost frame that observed it, so one mechanism gives one key.
"""

from __future__ import annotations

import sys
from contextlib import contextmanager
from typing import Any

_CONTEXTLIB = contextmanager.__code__.co_filename


class Injected(Exception):  # noqa: N818
    """Fault raised by instrumented data (not a LiquidError, not a lookup error)."""


class BadValue:
    """A data value whose __str__ or __eq__ raises: a fault on the *consumer* side of a
    lambda filter (sort_natural stringifies the lambda's result, uniq compares it)."""

    def __init__(self, mode: str):
        self.mode = mode

    def __str__(self) -> str:
        if self.mode == "str":
            raise Injected("injected fault in __str__")
        return "bad"

    def __eq__(self, other: object) -> bool:
        if self.mode == "eq":
            raise Injected("injected fault in __eq__")
        return self is other

    __hash__ = object.__hash__

    def __tagged__(self) -> dict[str, str]:
        return {"$c07bad": self.mode}


def revive(o: Any) -> Any:
    """Inverse of BadValue.__tagged__ for replayed witnesses."""
    if isinstance(o, dict):
        if len(o) == 1 and "$c07bad" in o:
            return BadValue(o["$c07bad"])
        return {k: revive(v) for k, v in o.items()}
    if isinstance(o, list):
        return [revive(v) for v in o]
    return o


class FaultPlan:
    """Raises at the k-th `__getitem__` on any container wrapped with this plan."""

    __slots__ = ("n", "k", "kind", "fired")

    def __init__(self, k: int = 0, kind: str = "custom"):
        self.n = 0
        self.k = k
        self.kind = kind
        self.fired = False

    def hit(self) -> None:
        self.n += 1
        if self.n == self.k:
            self.fired = True
            if self.kind == "liquid":
                from liquid2.exceptions import LiquidError

                raise LiquidError("injected fault", token=None)
            raise Injected(f"injected fault at access {self.k}")


class FDict(dict):  # type: ignore[type-arg]
    __slots__ = ("_plan",)

    def __getitem__(self, key: Any) -> Any:
        self._plan.hit()
        return dict.__getitem__(self, key)


class FList(list):  # type: ignore[type-arg]
    __slots__ = ("_plan",)

    def __getitem__(self, key: Any) -> Any:
        self._plan.hit()
        return list.__getitem__(self, key)


def wrap_data(o: Any, plan: FaultPlan) -> Any:
    if isinstance(o, dict):
        d = FDict((k, wrap_data(v, plan)) for k, v in o.items())
        d._plan = plan
        return d
    if isinstance(o, list):
        lst = FList(wrap_data(v, plan) for v in o)
        lst._plan = plan
        return lst
    return o  # (BadValue and scalars are passed through)


def _same(a: tuple[Any, ...], b: tuple[Any, ...]) -> bool:
    return len(a) == len(b) and all(x is y for x, y in zip(a, b))


def _snap(context: Any) -> tuple[Any, ...]:
    return (
        tuple(context.scope._maps),
        len(context.loops),
        context.template,
        context.disabled_tags,
        frozenset(context.disabled_tags),
        context.scope,
    )


class FrameMonitor:
    def __init__(self) -> None:
        self.installed = False
        self.node_exits = 0
        self.exc_exits = 0
        self.extend_exits = 0
        self.extend_exc_exits = 0
        self.loop_exits = 0
        self.top_checks = 0
        self.top_exc_checks = 0
        self.lambda_scopes = 0
        self.node_classes: set[str] = set()
        self.exc_classes: set[str] = set()
        self.extend_origins: set[str] = set()
        self.lambda_filters: set[str] = set()
        # per run
        self.events: list[tuple[str, str, str]] = []
        self._cats: set[str] = set()
        self.origin: dict[int, tuple[str, Any]] = {}
        self.live_lambda: dict[int, str] = {}
        self._saved: dict[str, Any] = {}
        self.run = 0

    # ------------------------------------------------------------------ per run
    def begin(self) -> None:
        self.events = []
        self._cats = set()
        self.origin = {}
        self.live_lambda = {}
        self.run += 1

    # ------------------------------------------------------------------ comparison
    def _describe_maps(self, maps: tuple[Any, ...]) -> str:
        out = []
        for m in maps:
            o = self.origin.get(id(m))
            if o is not None and o[1] is m:
                try:
                    keys = ",".join(sorted(str(k) for k in m))[:40]
                except Exception:  # noqa: BLE001
                    keys = "?"
                out.append(f"{o[0]}{{{keys}}}")
            else:
                out.append(type(m).__name__)
        return "[" + " ".join(out) + "]"

    def compare(self, context: Any, before: tuple[Any, ...], where: str, exc: BaseException | None,
                entered: bool = True, run: int | None = None, loops: bool = True,
                late_lambda: str | None = None) -> None:
        """Compare the context with its snapshot; record the first event per category."""
        if run is not None and run != self.run:
            return  # a finaliser of an earlier run (late generator close): not this run's
        maps0, nl0, t0, d0, d0c, sc0 = before
        if late_lambda is not None:
            # a LambdaExpression.map generator closed late (GeneratorExit): whatever differs now
            # is the consequence of its scope having stayed on the chain; one mechanism, one key
            if (not _same(tuple(context.scope._maps), maps0) or context.template is not t0) and not any(
                k.startswith("frame:lambda-scope-left-on-chain@") for k, _w, _d in self.events
            ):
                self._cats.add("scope")
                self.events.append((
                    f"frame:lambda-scope-left-on-chain@{late_lambda}",
                    "a LambdaExpression.map generator was closed late; the context no longer matches "
                    "the state at the time its scope was pushed",
                    f"before={self._describe_maps(maps0)} after={self._describe_maps(tuple(context.scope._maps))}",
                ))
            return
        maps1 = tuple(context.scope._maps)
        via = f" on exceptional exit ({type(exc).__name__})" if exc is not None else " on normal exit"
        if "scope" not in self._cats and (
            context.scope is not sc0 or len(maps0) != len(maps1)
            or any(a is not b for a, b in zip(maps0, maps1))
        ):
            self._cats.add("scope")
            if self.live_lambda:
                f = sorted(self.live_lambda.values())[0]
                key = f"frame:lambda-scope-left-on-chain@{f}"
            else:
                key = f"frame:scope-chain-changed@{where}"
            self.events.append((
                key,
                f"scope chain after {where} differs from the chain before it{via}",
                f"before={self._describe_maps(maps0)} after={self._describe_maps(maps1)}",
            ))
        if loops and "loops" not in self._cats and len(context.loops) != nl0:
            self._cats.add("loops")
            if not entered:
                key = f"frame:loop-frame-left-when-entry-fails@{where}"
            else:
                key = f"frame:loop-stack-changed@{where}"
            self.events.append((
                key,
                f"len(context.loops) was {nl0} before {where}, is {len(context.loops)} after it{via}",
                "",
            ))
        if "template" not in self._cats and context.template is not t0:
            self._cats.add("template")
            self.events.append((
                f"frame:template-changed@{where}",
                f"context.template changed across {where}{via}",
                f"before={getattr(t0, 'name', t0)!r} after={getattr(context.template, 'name', None)!r}",
            ))
        if "disabled" not in self._cats and (
            context.disabled_tags is not d0 or frozenset(context.disabled_tags) != d0c
        ):
            self._cats.add("disabled")
            self.events.append((
                f"frame:disabled-tags-changed@{where}",
                f"context.disabled_tags changed across {where}{via}",
                f"before={sorted(d0c)} after={sorted(context.disabled_tags)}",
            ))

    def snapshot(self, context: Any) -> tuple[Any, ...]:
        return _snap(context)

    def check_top(self, context: Any, before: tuple[Any, ...], exc: BaseException | None) -> None:
        self.top_checks += 1
        if exc is not None:
            self.top_exc_checks += 1
        self.compare(context, before, "render_with_context", exc)

    # ------------------------------------------------------------------ origin labels
    @staticmethod
    def _caller_label(start: Any) -> tuple[str, Any]:
        """Qualified name of the function whose `with` statement called extend()."""
        f = start
        while f is not None:
            code = f.f_code
            if code.co_filename == _CONTEXTLIB or code.co_filename == __file__ or (
                code.co_name == "loop" and code.co_filename.endswith("context.py")
            ):
                f = f.f_back
                continue
            return code.co_qualname.replace("_async", ""), f
        return "?", None

    @staticmethod
    def _consumer_filter(frame: Any, context: Any) -> str:
        """Name of the filter consuming a LambdaExpression.map generator."""
        f = frame.f_back if frame is not None else None
        hops = 0
        while f is not None and hops < 8:
            hops += 1
            fn = f.f_code.co_filename.replace("\\", "/")
            if "/filters/" in fn and "self" in f.f_code.co_varnames:
                obj = f.f_locals.get("self")
                try:
                    names = sorted(n for n, flt in context.env.filters.items() if flt is obj)
                except Exception:  # noqa: BLE001
                    names = []
                if names:
                    return names[0]
                return type(obj).__name__
            f = f.f_back
        return "?"

    # ------------------------------------------------------------------ install
    def install(self) -> "FrameMonitor":
        if self.installed:
            return self
        import liquid2.ast as ast_mod
        from liquid2.context import RenderContext

        mon = self
        node_cls = ast_mod.Node
        orig_render = node_cls.render
        orig_render_async = node_cls.render_async
        orig_extend = RenderContext.extend
        orig_loop = RenderContext.loop
        self._saved = {
            "Node": node_cls, "render": orig_render, "render_async": orig_render_async,
            "RC": RenderContext, "extend": orig_extend, "loop": orig_loop,
        }

        def render(self: Any, context: Any, buffer: Any) -> int:
            before = _snap(context)
            try:
                rv = orig_render(self, context, buffer)
            except BaseException as e:
                mon.exc_exits += 1
                mon.exc_classes.add(type(e).__name__)
                mon.compare(context, before, type(self).__name__, e)
                raise
            mon.node_exits += 1
            mon.node_classes.add(type(self).__name__)
            mon.compare(context, before, type(self).__name__, None)
            return rv

        async def render_async(self: Any, context: Any, buffer: Any) -> int:
            before = _snap(context)
            try:
                rv = await orig_render_async(self, context, buffer)
            except BaseException as e:
                mon.exc_exits += 1
                mon.exc_classes.add(type(e).__name__)
                mon.compare(context, before, type(self).__name__, e)
                raise
            mon.node_exits += 1
            mon.compare(context, before, type(self).__name__, None)
            return rv

        @contextmanager
        def extend(self: Any, namespace: Any, template: Any = None):  # noqa: ANN202
            label, frame = mon._caller_label(sys._getframe(1))
            mon.origin[id(namespace)] = (label, namespace)
            mon.extend_origins.add(label)
            is_lambda = label.startswith("LambdaExpression.map")
            flt = None
            if is_lambda:
                flt = mon._consumer_filter(frame, self)
                mon.lambda_scopes += 1
                mon.lambda_filters.add(flt)
            where = label.split(".")[0]
            before = _snap(self)
            run = mon.run
            exc: BaseException | None = None
            try:
                with orig_extend(self, namespace, template) as ctx:
                    if is_lambda:
                        mon.live_lambda[id(namespace)] = flt
                    yield ctx
            except BaseException as e:
                exc = e
                raise
            finally:
                if is_lambda:
                    mon.live_lambda.pop(id(namespace), None)
                mon.extend_exits += 1
                if exc is not None:
                    mon.extend_exc_exits += 1
                # (RenderContext.loop pops its ForLoop inside the extend block it opens, so
                # the loop stack is compared by the loop wrapper, not here)
                mon.compare(self, before, where, exc, run=run, loops=False,
                            late_lambda=flt if is_lambda and isinstance(exc, GeneratorExit) else None)

        @contextmanager
        def loop(self: Any, namespace: Any, forloop: Any):  # noqa: ANN202
            label, _frame = mon._caller_label(sys._getframe(1))
            where = label.split(".")[0]
            before = _snap(self)
            run = mon.run
            exc: BaseException | None = None
            entered = False
            try:
                with orig_loop(self, namespace, forloop) as ctx:
                    entered = True
                    yield ctx
            except BaseException as e:
                exc = e
                raise
            finally:
                mon.loop_exits += 1
                mon.compare(self, before, where, exc, entered=entered, run=run)

        node_cls.render = render
        node_cls.render_async = render_async
        RenderContext.extend = extend
        RenderContext.loop = loop
        self.installed = True
        return self

    def uninstall(self) -> None:
        if not self.installed:
            return
        s = self._saved
        s["Node"].render = s["render"]
        s["Node"].render_async = s["render_async"]
        s["RC"].extend = s["extend"]
        s["RC"].loop = s["loop"]
        self.installed = False

    # ------------------------------------------------------------------ reporting
    def flush_counters(self, ctx: Any) -> None:
        """Move the hit counters into the shard context (call once at the end)."""
        ctx.count("frame_node_exits", self.node_exits + self.exc_exits)
        ctx.count("frame_exceptional_exits", self.exc_exits)
        ctx.count("frame_extend_exits", self.extend_exits)
        ctx.count("frame_extend_exceptional_exits", self.extend_exc_exits)
        ctx.count("frame_loop_exits", self.loop_exits)
        ctx.count("frame_top_checks", self.top_checks)
        ctx.count("frame_top_checks_after_raise", self.top_exc_checks)
        ctx.count("lambda_scopes_pushed", self.lambda_scopes)
        for c in self.node_classes:
            ctx.seen("node_classes", c)
        for c in self.exc_classes:
            ctx.seen("exception_classes_at_node_exit", c)
        for c in self.extend_origins:
            ctx.seen("extend_callers", c)
        for c in self.lambda_filters:
            ctx.seen("lambda_filters", c)
