"""C19 units: arithmetic filters.

Documentation used (filter_reference.md): plus, minus, times ("If either the input or
argument are not a number, Liquid will try to convert them to a number. If that
conversion fails, 0 is used"; examples 183.357 - 12.2 = 171.157 and 183.357 * 12 =
2200.284, i.e. decimal arithmetic on the written digits), divided_by ("rounded down to the
nearest integer"; CTS: integer division only when both operands are integers, otherwise
float division; zero divisor is an error), modulo ("remainder from the division";
183.357 % 12 = 3.357), abs, at_least / at_most (max / min after conversion), ceil, floor,
round ("rounded to the given number of decimal places", default 0; CTS: no digits -> an
integer).
"""

from __future__ import annotations

import math
import random
import re
from decimal import Decimal
from fractions import Fraction
from typing import Any

from .c19_lib import exact
from .c19_lib import float_close
from .c19_lib import g_float
from .c19_lib import g_int
from .c19_lib import g_numstr
from .c19_lib import g_word
from .c19_lib import num_class
from .c19_lib import numeric_string_in_domain
from .c19_lib import to_number
from .c19_run import Runner
from .c19_run import unit

BIG = Fraction(10) ** 300


def gen_arith2(rng: random.Random, i: int) -> dict[str, Any]:
    m = rng.random()
    if m < 0.4:
        a: Any = g_int(rng)
        b: Any = g_int(rng)
        if rng.random() < 0.2:
            b = rng.choice((1, -1, 2, 3, 7, -3, 10, a))
    elif m < 0.6:
        a, b = g_float(rng, wide=True), g_float(rng, wide=True)
    elif m < 0.78:
        a, b = g_int(rng, big=0.25), g_float(rng, wide=True)
        if rng.random() < 0.5:
            a, b = b, a
    elif m < 0.95:
        a = g_numstr(rng) if rng.random() < 0.7 else rng.choice((g_int(rng), g_float(rng)))
        b = g_numstr(rng) if rng.random() < 0.7 else rng.choice((g_int(rng), g_float(rng)))
    elif m < 0.975:
        # documented: a left value that is not a number counts as 0
        a = rng.choice((g_word(rng), "", None, {}))
        b = rng.choice((g_int(rng), g_float(rng)))
    else:
        # finite operands whose exact result (or whose conversion) leaves the float range,
        # or whose quotient is astronomically large: only totality is checked there
        a = rng.choice((10 ** rng.randint(309, 420) + rng.randint(0, 9), 10**40 + rng.randint(0, 9),
                        float(10 ** rng.randint(20, 300)), g_int(rng, big=1.0)))
        b = rng.choice((0.7, 1.5, 2.0, 1e-5, g_float(rng), 1e300, 3))
        return {"mode": "wide", "a": a, "b": b}
    return {"mode": "binary", "a": a, "b": b}


def _mixed_ok(na: Any, nb: Any, result: Fraction) -> bool:
    """Floats involved: keep operands and result inside the float range (what lies
    beyond is the 'overflow' mode's subject)."""
    if isinstance(na, float) or isinstance(nb, float):
        return abs(exact(na)) < BIG and abs(exact(nb)) < BIG and abs(result) < BIG
    return True


def _num_ok(R: Runner, f: str, law: str, res: Any, want: Fraction, want_float: bool, q: str) -> None:
    if res.kind == "foreign":
        return
    if want_float:
        ok = res.ok and float_close(res.value, want)
    else:
        ok = res.ok and type(res.value) is int and res.value == want
    R.law(f, law, ok, q, None if ok else {"want": str(want) if want.denominator != 1 else int(want),
                                          "want_type": "float" if want_float else "int", "got": res.brief()})


@unit("arith2", ("plus", "minus", "times", "divided_by", "modulo", "at_least", "at_most"), gen_arith2)
def case_arith2(R: Runner, inp: dict[str, Any]) -> None:
    a, b = inp["a"], inp["b"]
    if inp["mode"] == "wide":
        if not a or not b or isinstance(a, bool) or isinstance(b, bool):
            return  # zero divisors are the binary mode's subject
        cls = "wide-range-operands"
        for f in ("plus", "minus", "times", "divided_by", "modulo", "at_least", "at_most"):
            r = R.both(f, a, b, cls=cls)
            if f == "modulo" and r.kind != "foreign" and a > 0 and b > 0:
                # "on all finite numbers": the remainder exists and is smaller than the divisor,
                # however many digits the quotient has
                ea, eb = exact(a), exact(b)
                want = ea - eb * math.floor(ea / eb)
                if R.law("modulo", "total-on-finite-operands", r.ok, "quotient-beyond-decimal-precision",
                         {"call": ["modulo", a, b], "want": str(want), "got": r.brief()}):
                    v = r.value
                    ok = isinstance(v, (int, float)) and not isinstance(v, bool) and \
                        (Fraction(v) == want or float_close(float(v), want))
                    R.law("modulo", "decimal-remainder", ok, "wide-range-operands",
                          None if ok else {"call": ["modulo", a, b], "want": str(want), "got": v})
        return
    if not (numeric_string_in_domain(a) and numeric_string_in_domain(b)):
        return
    na, nb = to_number(a), to_number(b)
    ea, eb = exact(na), exact(nb)
    isf = isinstance(na, float) or isinstance(nb, float)
    q = num_class(a, b)
    for f, want in (("plus", ea + eb), ("minus", ea - eb), ("times", ea * eb)):
        if not _mixed_ok(na, nb, want):
            continue
        r = R.both(f, a, b, cls=q)
        _num_ok(R, f, "exact-decimal-arithmetic", r, want, isf, q)
    if not isf:
        # minus undoes plus, plus undoes minus, on integers of any size
        u = R.T("minus", "plus: b | minus: b", cls=q, x=a, b=b)
        _num_ok(R, "minus", "undoes-plus", u, ea, False, q)
        u2 = R.T("plus", "minus: b | plus: b", cls=q, x=a, b=b)
        _num_ok(R, "plus", "undoes-minus", u2, ea, False, q)
        c = R.T("plus", "plus: a", cls=q, x=b, a=a)
        _num_ok(R, "plus", "commutative", c, ea + eb, False, q)
        c2 = R.T("times", "times: a", cls=q, x=b, a=a)
        _num_ok(R, "times", "commutative", c2, ea * eb, False, q)
    # division
    if nb == 0:
        for f in ("divided_by", "modulo"):
            r = R.both(f, a, b, cls=("float" if isf else "int") + ":zero-divisor")
            if r.kind != "foreign":
                R.law(f, "zero-divisor-is-an-error", r.kind == "err", q, {"got": r.brief()})
    elif not isf:
        fl = Fraction(math.floor(ea / eb))
        d = R.both("divided_by", a, b, cls=q)
        _num_ok(R, "divided_by", "integer-floor-division", d, fl, False, q)
        md = R.both("modulo", a, b, cls=q)
        _num_ok(R, "modulo", "remainder-of-floor-division", md, ea - eb * fl, False, q)
        if d.ok and md.ok and type(d.value) is int and type(md.value) is int:
            R.law("modulo", "quotient-times-divisor-plus-remainder", d.value * int(eb) + md.value == int(ea), q,
                  {"quotient": d.value, "remainder": md.value})
        t = R.T("divided_by", "times: b | divided_by: b", cls=q, x=a, b=b)
        _num_ok(R, "divided_by", "undoes-times", t, ea, False, q)
        # exact arithmetic knows values, not representations: writing an integral operand as
        # a float (-7.0 for -7) may change the type of the result, not its value.  (divided_by
        # is exempt: integer division for two integers is documented.)
        if isinstance(na, int) and isinstance(nb, int) and abs(na) < 2**53 and abs(nb) < 2**53 \
                and abs(na * nb) < 2**53 and abs(ea / eb) < 10**15:
            cls2 = "negative-operand" if na < 0 or nb < 0 else "non-negative-operands"
            for f, want in (("plus", ea + eb), ("minus", ea - eb), ("times", ea * eb), ("modulo", ea - eb * fl),
                            ("at_least", max(ea, eb)), ("at_most", min(ea, eb))):
                for xa, xb in ((float(na), nb), (na, float(nb))):
                    r = R.both(f, xa, xb, cls=cls2)
                    if r.kind == "foreign":
                        continue
                    ok = r.ok and isinstance(r.value, (int, float)) and not isinstance(r.value, bool) \
                        and Fraction(r.value) == want
                    R.law(f, "value-independent-of-int-or-float-spelling", ok, cls2,
                          None if ok else {"call": [f, xa, xb], "with_ints": int(want) if want.denominator == 1 else str(want),
                                           "got": r.brief()})
    else:
        want = ea / eb
        if _mixed_ok(na, nb, want):
            d = R.both("divided_by", a, b, cls=q)
            _num_ok(R, "divided_by", "float-division", d, want, True, q)
            if ea >= 0 and eb > 0 and abs(want) < Fraction(10) ** 15:
                md = R.both("modulo", a, b, cls=q)
                _num_ok(R, "modulo", "decimal-remainder", md, ea - eb * math.floor(want), True, q)
    # at_least / at_most: max / min after conversion (either operand when they are equal)
    for f, pick in (("at_least", max), ("at_most", min)):
        r = R.both(f, a, b, cls=q)
        if r.kind == "foreign":
            continue
        # the result must be one of the converted operands, and the right one
        ok = r.ok and not isinstance(r.value, bool) and isinstance(r.value, (int, float)) \
            and (not isinstance(r.value, float) or math.isfinite(r.value)) \
            and Fraction(r.value) in (Fraction(na), Fraction(nb)) and _is_extreme(r.value, na, nb, pick)
        R.law(f, "extreme-of-the-two-operands", ok, q, None if ok else {"got": r.brief(), "operands": [na, nb]})


def _is_extreme(v: Any, na: Any, nb: Any, pick: Any) -> bool:
    return Fraction(v) == pick(Fraction(na), Fraction(nb))


# ---------------------------------------------------------------------------


WIDE_DIGITS = (0, 1, 2, 3, 10, 15, 16, 17, 18, 27, 28, 29, 30, 100, 308, 323, 324, 400, 10**9, 2**31, 2**64)
WIDE_FLOATS = (3.25, 1.5, 2.675, 1.0e20, 1e22, 1e23, 1.7976931348623157e308, 5e-324, 2.2250738585072014e-308,
               0.1, 0.30000000000000004, 123456789.12345679, 1e-7, 1e16, 9007199254740993.0, -2.5, -1e300, 0.0)


def gen_arith1(rng: random.Random, i: int) -> dict[str, Any]:
    m = rng.random()
    if rng.random() < 0.3:
        # round on any finite float with any non-negative number of places
        c = rng.random()
        if c < 0.35:
            xf = rng.choice(WIDE_FLOATS)
        elif c < 0.7:
            xf = rng.uniform(-10, 10) * 10.0 ** rng.randint(-30, 30)
        elif c < 0.85:
            xf = rng.uniform(-1, 1) * 10.0 ** rng.randint(-300, 300)
        else:
            xf = g_float(rng)
        dg: Any = rng.choice(WIDE_DIGITS)
        if rng.random() < 0.15:
            dg = str(dg)
        return {"mode": "roundwide", "x": xf, "digits": dg}
    if m < 0.3:
        x: Any = g_int(rng)
    elif m < 0.7:
        x = g_float(rng, wide=True)
        if abs(x) >= 2**52:
            x = round(x / 2**30, 3)
    elif m < 0.92:
        x = g_numstr(rng)
    else:
        x = rng.choice((g_word(rng), "", None, {}))
    d: Any = rng.choice(("$none", "$none", 0, 1, 2, 3, 4, 6, "1", "2", 1.2))
    return {"mode": "unary", "x": x, "digits": d}


def gen_overflow(rng: random.Random) -> dict[str, Any]:
    return {}


@unit("arith1", ("abs", "ceil", "floor", "round"), gen_arith1)
def case_arith1(R: Runner, inp: dict[str, Any]) -> None:
    x, d = inp["x"], inp["digits"]
    if not numeric_string_in_domain(x) or isinstance(x, bool) or isinstance(d, bool):
        return
    if inp["mode"] == "roundwide":
        return _round_wide(R, x, d)
    n = to_number(x)
    e = exact(n)
    isf = isinstance(n, float)
    q = num_class(x)
    if isf and abs(n) >= 2**52:
        return
    _num_ok(R, "abs", "absolute-value", R.both("abs", x, cls=q), abs(e), isf, q)
    _num_ok(R, "abs", "idempotent", R.T("abs", "abs | abs", cls=q, x=x), abs(e), isf, q)
    _num_ok(R, "ceil", "least-integer-not-below", R.both("ceil", x, cls=q), Fraction(math.ceil(e)), False, q)
    _num_ok(R, "floor", "greatest-integer-not-above", R.both("floor", x, cls=q), Fraction(math.floor(e)), False, q)
    c = R.T("ceil", "ceil | minus: x", cls=q, x=x)  # 0 <= ceil(x) - x < 1
    if c.ok and isinstance(c.value, (int, float)) and not isinstance(c.value, bool) and abs(e) < 10**12:
        R.law("ceil", "within-one-above", -1e-9 <= c.value < 1, q, {"ceil-minus-x": c.value})
    # round
    if d == "$none":
        digits = 0
        r = R.both("round", x, cls=q)
    else:
        digits = int(float(d))
        r = R.both("round", x, d, cls=q)
    scaled = e * 10**digits
    if scaled - math.floor(scaled) == Fraction(1, 2):
        return  # a tie: the rounding mode is not documented
    want = Fraction(math.floor(scaled + Fraction(1, 2)), 10**digits)
    if r.kind == "foreign":
        return
    if digits == 0:
        ok = r.ok and type(r.value) is int and r.value == want
    elif not isf:
        ok = r.ok and isinstance(r.value, (int, float)) and not isinstance(r.value, bool) and Fraction(r.value) == e
    else:
        ok = r.ok and float_close(r.value, want)
    R.law("round", "nearest-with-given-decimals", ok, q + (":digits" if digits else ""),
          None if ok else {"want": str(want), "got": r.brief()})
    rr = R.T("round", "round: d | round: d", cls=q, x=x, d=digits)
    if r.ok and rr.ok and isinstance(r.value, (int, float)):
        R.law("round", "idempotent", rr.value == r.value, q, {"once": r.value, "twice": rr.value})


def _round_wide(R: Runner, x: Any, d: Any) -> None:
    """round on every finite float, for any non-negative number of decimal places (docs:
    "Return the input number rounded to the given number of decimal places"): it is total,
    stays within half a unit of the last kept place, leaves a number alone that has no more
    decimals than requested, picks the nearer neighbour when there is no tie, and rounding
    twice changes nothing."""
    if not isinstance(x, float) or not math.isfinite(x):
        return
    try:
        digits = int(d)
    except (TypeError, ValueError):
        return
    if digits < 0:
        return
    q = ("places-over-28" if digits > 28 else "places-15-to-28" if digits >= 15 else "few-places") + \
        (":large-magnitude" if abs(x) >= 2**53 else "")
    r = R.both("round", x, d, cls=q)
    if r.kind == "foreign":
        return
    if not R.law("round", "total-on-finite-floats", r.ok, q, {"x": x, "digits": digits, "got": r.brief()}):
        return
    v = r.value
    if isinstance(v, bool) or not isinstance(v, (int, float)) or (isinstance(v, float) and not math.isfinite(v)):
        R.law("round", "result-is-a-finite-number", False, q, {"x": x, "digits": digits, "got": v})
        return
    xb = Fraction(x)
    half = Fraction(1, 2) / (Fraction(10) ** min(digits, 400))
    R.law("round", "within-half-unit-of-last-place", abs(Fraction(v) - xb) <= half + Fraction(math.ulp(x)), q,
          {"x": x, "digits": digits, "got": v})
    if digits == 0:
        R.law("round", "no-places-gives-an-integer", type(v) is int, q, {"x": x, "got": v})
    dec = Decimal(repr(x))
    if dec.as_tuple().exponent >= -digits or x == 0:
        # nothing to round away
        R.law("round", "unchanged-when-places-suffice", Fraction(v) == xb, q, {"x": x, "digits": digits, "got": v})
    elif digits <= 400:
        e = exact(x)
        scaled = e * 10**digits
        if scaled - math.floor(scaled) != Fraction(1, 2):
            want = Fraction(math.floor(scaled + Fraction(1, 2)), 10**digits)
            ok = (type(v) is int and v == want) if digits == 0 and abs(x) < 2**52 else \
                (float_close(float(v), want) if want != 0 else abs(v) < 1e-300)
            R.law("round", "nearest-with-given-decimals", ok, q, {"x": x, "digits": digits, "want": str(want), "got": v})
    rr = R.T("round", "round: d | round: d", cls=q, x=x, d=d)
    if rr.kind != "foreign":
        R.law("round", "idempotent", rr.ok and rr.value == v, q, {"once": v, "twice": rr.brief()})


# ---------------------------------------------------------------------------
# numeric strings in every spelling the engine accepts: a string denotes a number
# ---------------------------------------------------------------------------
#
# filter_reference.md: abs "Works on integers, floats and string representations of
# integers or floats"; at_least / at_most "string representations of an integer or float
# ... will be cast to an integer or float prior to comparison"; plus / minus / times /
# divided_by / modulo "Liquid will try to convert them to a number"; examples "16" | minus,
# "20" | divided_by: "7" -> 2 (integer division for integer strings), "24" | modulo: "7".
# The documentation does not enumerate spellings; calibrated on the working tree, the
# accepted ones are: optional sign (+ or -), ASCII white space around the number (the
# usual `capture` output), leading zeros, digit-group underscores, any magnitude; for
# floats additionally ".5", "5." and exponent forms.  Law: a numeric string behaves
# exactly like the number it denotes - f(s, m) == f(n, m) and f(m, s) == f(m, n),
# strictly (an integer string gives integer arithmetic, integer division, the integer
# sign rule of modulo; nothing is lost beyond 2**53).

RE_SPELLED_INT = re.compile(r"[ \t\r\n]*([+-]?)(\d+(?:_\d+)*)[ \t\r\n]*\Z")
RE_SPELLED_FLOAT = re.compile(
    r"[ \t\r\n]*([+-]?)((?:\d+(?:_\d+)*\.?(?:\d+(?:_\d+)*)?|\.\d+(?:_\d+)*)(?:[eE][+-]?\d+)?)[ \t\r\n]*\Z")


def denoted(s: Any) -> int | float | None:
    """The number a spelling denotes (None: not one of the calibrated spellings)."""
    if not isinstance(s, str) or len(s) > 600:
        return None
    m = RE_SPELLED_INT.match(s)
    if m:
        v = int(m.group(2).replace("_", ""))
        return -v if m.group(1) == "-" else v
    m = RE_SPELLED_FLOAT.match(s)
    if m:
        v = float(m.group(2).replace("_", ""))
        if math.isinf(v):
            return None
        return -v if m.group(1) == "-" else v
    return None


def spelling_class(s: str) -> str:
    core = s.strip(" \t\r\n")
    if "_" in core:
        return "underscored"
    if "e" in core or "E" in core:
        return "exponent-form"
    if core.startswith((".", "+.", "-.")) or core.endswith("."):
        return "bare-decimal-point"
    if core.startswith("+"):
        return "plus-sign"
    if core != s:
        return "surrounded-by-whitespace"
    if re.match(r"-?0\d", core):
        return "leading-zeros"
    return "plain"


PADS = ["", "", " ", "  ", "\n", "\t", "\r\n", "\n  ", " \n"]


def spell(rng: random.Random, n: int | float) -> str:
    neg = n < 0 or (isinstance(n, float) and math.copysign(1.0, n) < 0)
    a = -n if neg else n
    if isinstance(a, int):
        digits = str(a)
        c = rng.random()
        if c < 0.12:
            digits = "0" * rng.randint(1, 3) + digits
        elif c < 0.2 and len(digits) > 1:
            i = rng.randrange(1, len(digits))
            digits = digits[:i] + "_" + digits[i:]
    else:
        c = rng.random()
        plain = format(Decimal(repr(a)), "f")
        if c < 0.45:
            digits = plain
        elif c < 0.55 and plain.startswith("0."):
            digits = plain[1:]  # .5
        elif c < 0.65 and plain.endswith(".0"):
            digits = plain[:-1]  # 5.
        elif c < 0.85:
            digits = f"{Decimal(repr(a)):{rng.choice('eE')}}"
        else:
            digits = repr(a)
    sign = "-" if neg else ("+" if rng.random() < 0.3 else "")
    c = rng.random()
    if c < 0.5:
        return sign + digits
    return rng.choice(PADS) + sign + digits + rng.choice(PADS)


def gen_numstr(rng: random.Random, i: int) -> dict[str, Any]:
    c = rng.random()
    if c < 0.65:
        n: Any = g_int(rng, big=0.35)
        if rng.random() < 0.3:
            n = rng.choice((7, -7, 0, 20, 3, 2**53 + 1, -(2**53) - 1, 2**64 + 1, 12345678901234567890))
    else:
        n = g_float(rng, wide=rng.random() < 0.3)
    c = rng.random()
    if c < 0.45:
        m: Any = rng.choice((1, 2, 3, -3, -2, 7, -7, 10, 4))
    elif c < 0.7:
        m = g_int(rng, big=0.5)
    elif c < 0.9:
        m = g_float(rng)
    else:
        m = 0
    return {"mode": "numstr", "s": spell(rng, n), "m": m, "s2": spell(rng, m)}


def _agree(R: Runner, f: str, law: str, a: Any, b: Any, q: str, what: Any) -> None:
    """Two applications must have the same outcome, strictly (1 is not 1.0)."""
    if a.kind == "foreign" or b.kind == "foreign":
        return
    from .c19_lib import skey

    ok = a.kind == b.kind and (not a.ok or skey(a.value) == skey(b.value))
    R.law(f, law, ok, q, None if ok else {"call": what, "with_string": a.brief(), "with_number": b.brief()})
    if R.recording:
        R.ctx.count("string_vs_number_comparisons")


def _float_pair_ok(f: str, x: Any, y: Any) -> bool:
    """Domain guard shared with the exact-arithmetic unit (see case_arith2)."""
    if not (isinstance(x, float) or isinstance(y, float)):
        return True
    ex, ey = exact(x), exact(y)
    if abs(ex) >= BIG or abs(ey) >= BIG:
        return False
    if f == "times" and abs(ex * ey) >= BIG:
        return False
    if f == "divided_by" and ey != 0 and abs(ex / ey) >= BIG:
        return False
    if f == "modulo":
        return ey == 0 or (ex >= 0 and ey > 0 and abs(ex / ey) < Fraction(10) ** 15)
    return True


BINARY = ("plus", "minus", "times", "divided_by", "modulo", "at_least", "at_most")


@unit("numstr", (), gen_numstr)
def case_numstr(R: Runner, inp: dict[str, Any]) -> None:
    s, m, s2 = inp["s"], inp["m"], inp["s2"]
    n = denoted(s)
    if n is None or isinstance(m, bool) or not isinstance(m, (int, float)):
        return
    if isinstance(m, float) and not math.isfinite(m):
        return
    q = spelling_class(s) + (":bigint" if isinstance(n, int) and abs(n) > 2**53 else "")
    for f in BINARY:
        if _float_pair_ok(f, n, m):
            ref = R.both(f, n, m, cls="numbers")
            _agree(R, f, "numeric-string-input-denotes-its-number", R.both(f, s, m, cls=q), ref, q, [f, s, m])
            if not isinstance(n, float) and not isinstance(m, float) and m != 0 and ref.ok:
                # and the number itself obeys exact integer arithmetic
                want = {"plus": n + m, "minus": n - m, "times": n * m, "divided_by": n // m, "modulo": n % m,
                        "at_least": max(n, m), "at_most": min(n, m)}[f]
                R.law(f, "exact-integer-arithmetic", type(ref.value) is int and ref.value == want, "",
                      {"call": [f, n, m], "want": want, "got": ref.value})
        if _float_pair_ok(f, m, n):
            ref = R.both(f, m, n, cls="numbers")
            _agree(R, f, "numeric-string-argument-denotes-its-number", R.both(f, m, s, cls=q), ref, q, [f, m, s])
    # both operands spelled as strings
    m2 = denoted(s2)
    if m2 is not None:
        q2 = q if spelling_class(s) != "plain" else spelling_class(s2)
        for f in BINARY:
            if _float_pair_ok(f, n, m2):
                _agree(R, f, "numeric-strings-denote-their-numbers", R.T(f, f"{f}: b", cls=q2, x=s, b=s2),
                       R.T(f, f"{f}: b", cls="numbers", x=n, b=m2), q2, [f, s, s2])
    if isinstance(n, float) and abs(n) >= 2**52:
        return
    for f in ("abs", "ceil", "floor", "round"):
        _agree(R, f, "numeric-string-input-denotes-its-number", R.both(f, s, cls=q), R.both(f, n, cls="numbers"),
               q, [f, s])
    _agree(R, "round", "numeric-string-argument-denotes-its-number",
           R.T("round", "round: d", cls=q, x=1.23456789, d=s if isinstance(n, int) and 0 <= n <= 8 else "2"),
           R.T("round", "round: d", cls="numbers", x=1.23456789, d=n if isinstance(n, int) and 0 <= n <= 8 else 2),
           q, ["round", 1.23456789, s])
    # sum reads numeric strings too (docs example: "1,2,3" | split | sum)
    if not (isinstance(n, float) or isinstance(m, float)) or (abs(exact(n)) < 10**20 and abs(exact(m)) < 10**20):
        _agree(R, "sum", "numeric-string-element-denotes-its-number", R.both("sum", [s, m], cls=q),
               R.both("sum", [n, m], cls="numbers"), q, ["sum", [s, m]])
