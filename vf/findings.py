"""Known-findings file access.  The file is committed and never written at run time.

Entry: {"property": "C02", "status": "known"|"fixed", "key": <mechanism key or
fnmatch pattern>, "what": <text>, "commit": <sha for fixed>}.  Only status == "known"
suppresses; a "fixed" entry is documentation and a regression is reported again.
"""

from __future__ import annotations

import fnmatch
import json
import os
from typing import Any

from .core import VERIF_DIR

PATH = os.path.join(VERIF_DIR, "known_findings.json")


def load(prop: str) -> list[dict[str, Any]]:
    try:
        with open(PATH) as f:
            data = json.load(f)
    except FileNotFoundError:
        return []
    return [
        e
        for e in data.get("findings", [])
        if e.get("property") == prop and e.get("status") == "known"
    ]


def match(known: list[dict[str, Any]], key: str) -> dict[str, Any] | None:
    for e in known:
        if e["key"] == key or fnmatch.fnmatchcase(key, e["key"]):
            return e
    return None
