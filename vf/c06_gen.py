"""C06 workload: purpose-built generators (JSON-able mini model -> Liquid source).

* ``NestGen``  — loop nests of depth <= 4 spanning partials (render / include / call /
  block boundaries, ``render for``, ``include for``, tablerow), captures, blank blocks
  (assign-only bodies), assign-heavy and text-heavy profiles, text with CR / CRLF /
  multi-byte characters.  Every non-blank loop body and every partial starts with a
  character from ``MARKS`` (never used anywhere else) so loop-body executions can be
  counted in successful outputs as a cross-check of the node-trace monitor.
* ``cycle_case`` — cyclic graphs of <= 4 templates over include / render / extends /
  macros / blocks.
* ``chain_case`` — acyclic partial chains of a given depth (context-depth thresholds).
* ``shrink``    — greedy statement deletion / hoisting / range shortening.

A program is ``{"root": [stmt..], "partials": {name: [stmt..]}, "data": {...}}``;
statements are lists (first element = kind).
"""

from __future__ import annotations

import copy
import random
import re
from typing import Any
from typing import Callable

MARKS = "①②③④⑤⑥⑦⑧⑨⑩⑪⑫⑬⑭⑮⑯⑰⑱⑲⑳"
TEXT = ["x", "ab", "é", "日本", "😀", "\r", "\r\n", "\n", " ", "a\rb", "end\r\n", "ß", "-",
        "<p>", "Ω\r", "\r\n\r\n", "tail ", "naïve", "\t"]
PLAIN_TEXT = ["x", "ab", "é", "日本", "😀", "\n", " ", "ß", "-", "<p>", "tail ", "naïve"]
STRS = ["", "a", "héllo", "日本語", "line\r\nline", "cr\rcr", "😀😀", "plain ascii text", "ü"]

# code points whose UTF-8 size is easy to get wrong: lone surrogates (no strict encoding, 3 bytes
# with surrogatepass), astral characters (4 bytes, 2 UTF-16 units), combining marks, NUL, U+FFFF
AWK_TEXT = ["\ud800", "\udfff", "a\udc80b", "𝄞", "e\u0301", "\uffff", "\x00", "\U0010ffff", "\ud83d"]
AWK_STRS = ["\ud800", "\udc00\ud800", "x\udfffy", "𝄞𝄞", "e\u0301e\u0301", "\uffff", "a\x00b", "\U0010ffff",
            "\ud83d", "\ud800" * 7]

MAXPROD = 360
MAXWORK = 1400


# --------------------------------------------------------------------------- emit


def q(s: str) -> str:
    return "'" + s.replace("\\", "\\\\").replace("'", "\\'") + "'"


def emit_body(stmts: list[Any]) -> str:
    return "".join(emit_stmt(s) for s in stmts)


def _partial_tag(tag: str, s: list[Any]) -> str:
    _, name, mode, arg, alias, kw = s
    out = f"{{% {tag} {q(name)}"
    if mode:
        out += f" {mode} {arg}"
        if alias:
            out += f" as {alias}"
    for k, v in kw:
        out += f", {k}: {v}"
    return out + " %}"


def emit_stmt(s: list[Any]) -> str:
    k = s[0]
    if k == "t":
        return s[1]
    if k == "o":
        return "{{ " + s[1] + " }}"
    if k == "a":
        return f"{{% assign {s[1]} = {s[2]} %}}"
    if k == "cap":
        return f"{{% capture {s[1]} %}}{emit_body(s[2])}{{% endcapture %}}"
    if k == "if":
        e = f"{{% else %}}{emit_body(s[3])}" if s[3] is not None else ""
        return f"{{% if {s[1]} %}}{emit_body(s[2])}{e}{{% endif %}}"
    if k == "for":
        e = f"{{% else %}}{emit_body(s[5])}" if s[5] is not None else ""
        return f"{{% for {s[1]} in {s[2]}{s[3]} %}}{emit_body(s[4])}{e}{{% endfor %}}"
    if k == "tr":
        return f"{{% tablerow {s[1]} in {s[2]}{s[3]} %}}{emit_body(s[4])}{{% endtablerow %}}"
    if k == "ren":
        return _partial_tag("render", s)
    if k == "inc":
        return _partial_tag("include", s)
    if k == "mac":
        return f"{{% macro {s[1]} %}}{emit_body(s[2])}{{% endmacro %}}"
    if k == "call":
        return f"{{% call {s[1]} %}}"
    if k == "brk":
        return "{% break %}"
    if k == "cont":
        return "{% continue %}"
    if k == "blk":
        return f"{{% block {s[1]} %}}{emit_body(s[2])}{{% endblock %}}"
    if k == "ext":
        return f"{{% extends {q(s[1])} %}}"
    if k == "with":
        return f"{{% with {s[1]}: {s[2]} %}}{emit_body(s[3])}{{% endwith %}}"
    if k == "case":
        return f"{{% case {s[1]} %}}{{% when {s[1]} %}}{emit_body(s[2])}{{% endcase %}}"
    raise ValueError(k)


def emit(prog: dict[str, Any]) -> dict[str, Any]:
    return {
        "root": emit_body(prog["root"]),
        "partials": {n: emit_body(b) for n, b in prog["partials"].items()},
        "data": prog["data"],
    }


def child_bodies(s: list[Any]) -> list[list[Any]]:
    k = s[0]
    if k in ("cap", "mac", "blk", "case"):
        return [s[2]]
    if k == "if":
        return [s[2]] + ([s[3]] if s[3] is not None else [])
    if k == "for":
        return [s[4]] + ([s[5]] if s[5] is not None else [])
    if k == "tr":
        return [s[4]]
    if k == "with":
        return [s[3]]
    return []


# --------------------------------------------------------------------------- nests


PROFILES = {
    #        text  out   assign cap   if    loop  call  macro
    "nest": (0.14, 0.10, 0.05, 0.06, 0.06, 0.32, 0.22, 0.05),
    "ns":   (0.08, 0.08, 0.36, 0.14, 0.06, 0.12, 0.13, 0.03),
    "out":  (0.32, 0.20, 0.03, 0.14, 0.06, 0.12, 0.10, 0.03),
}
KINDS = ("text", "out", "assign", "cap", "if", "loop", "call", "macro")


class NestGen:
    def __init__(self, rng: random.Random, profile: str = "nest", cr: bool = True,
                 allow_break: bool = True, awkward: bool = False):
        self.r = rng
        self.profile = profile
        self.awkward = awkward
        self.w = PROFILES[profile]
        self.cr = cr
        self.text = (TEXT if cr else PLAIN_TEXT) + (AWK_TEXT if awkward else [])
        self.allow_break = allow_break
        self.data: dict[str, Any] = {}
        self.iso: list[bool] = []
        self.mp: list[int] = []  # per partial: max product of loop lengths inside
        self.work: list[int] = []  # per partial: estimated number of body executions
        self.cur_mp = 1
        self.cur_work = 1
        self.n_mac = 0
        self.n_blk = 0
        self.mark_i = 0
        self.has_break = False
        self.tr_depth = 0  # a tablerow inside a tablerow does not parse (not C06's subject)

    # ........................................................................ data
    def make_data(self) -> dict[str, Any]:
        r = self.r
        d: dict[str, Any] = {}
        for n in ("n1", "n2", "n3"):
            d[n] = r.choice([0, 1, 2, 2, 3, 3, 4, 5, 6])
        for n in ("xs", "ys"):
            d[n] = [r.choice([1, 2, 3, "a", "é", "日"]) for _ in range(r.choice([0, 1, 2, 3, 3, 4, 5]))]
        plain = not self.cr
        for n in ("s1", "s2"):
            d[n] = r.choice([s for s in STRS if "\r" not in s] if plain else STRS)
        if self.awkward:
            d[r.choice(["s1", "s2"])] = r.choice(AWK_STRS)
            if r.random() < 0.5:
                d[r.choice(["xs", "ys"])] = [r.choice(AWK_STRS + ["a", 1]) for _ in range(r.randint(1, 5))]
        d["b1"] = r.choice([True, False])
        return d

    def mark(self) -> list[Any]:
        m = MARKS[self.mark_i % len(MARKS)]
        self.mark_i += 1
        return ["t", m]

    # ........................................................................ iterables
    def iterable(self, maxlen: int) -> tuple[str, str, int]:
        """-> (iterable source, options source, resulting length)"""
        r = self.r
        c = r.random()
        if c < 0.55:
            n = r.randint(0, min(6, maxlen)) if r.random() < 0.9 else 0
            if r.random() < 0.2:
                lo = r.randint(-2, 3)
                src, ln = f"({lo}..{lo + n - 1})", n
            else:
                src, ln = f"(1..{n})", n
        elif c < 0.75:
            v = r.choice(["n1", "n2", "n3"])
            src, ln = f"(1..{v})", max(0, self.data[v])
        else:
            v = r.choice(["xs", "ys"])
            src, ln = v, len(self.data[v])
        limit = offset = None
        rev = False
        if r.random() < 0.25:
            kind = r.choice(["limit", "offset", "reversed", "limit+offset"])
            if "offset" in kind:
                offset = r.randint(0, 3)
            if "limit" in kind:
                limit = r.randint(0, 4)
            rev = kind == "reversed"
        if offset is not None:
            ln = max(0, ln - offset)
        if limit is not None:
            ln = min(ln, limit)
        if ln > maxlen:
            limit = max(0, maxlen)
            ln = limit
        opts = ""
        if offset is not None:
            opts += f" offset: {offset}"
        if limit is not None:
            opts += f" limit: {limit}"
        if rev:
            opts += " reversed"
        return src, opts, ln

    def seq_arg(self, maxlen: int) -> tuple[str, int]:
        """A sequence primitive for `render/include ... for` (no options there)."""
        r = self.r
        cands: list[tuple[str, int]] = []
        for v in ("xs", "ys"):
            if len(self.data[v]) <= maxlen:
                cands.append((v, len(self.data[v])))
        n = r.randint(0, max(0, min(6, maxlen)))
        cands.append((f"(1..{n})", n))
        cands.append((f"(1..{n})", n))
        for v in ("n1", "n2", "n3"):
            if self.data[v] <= maxlen:
                cands.append((f"(1..{v})", max(0, self.data[v])))
        return r.choice(cands)

    # ........................................................................ bodies
    def value_expr(self, loopvars: list[str], caps: list[str]) -> str:
        r = self.r
        opts = [q(r.choice(STRS)), q(r.choice(STRS) * r.randint(1, 4)), "s1", "s2", "xs", "n1",
                str(r.randint(-5, 10**r.randint(1, 12))), "(1..n2)", "s1 | split: ''",
                "s2 | append: 'xyz'", "'a,b,c,d' | split: ','", "nothing", "true", "1.5"]
        if loopvars:
            opts += [loopvars[-1], "forloop.index", f"{loopvars[-1]} | append: '-'"]
        if caps:
            opts += [caps[-1], f"{caps[-1]} | append: 'q'", f"{caps[-1]} | size"]
        return r.choice(opts)

    def out_expr(self, loopvars: list[str], caps: list[str], params: list[str]) -> str:
        r = self.r
        opts = ["s1", "s2", "n1", q(r.choice(self.text + STRS[:4])), "xs | join: ','"]
        if loopvars:
            opts += [loopvars[-1], loopvars[-1], "forloop.index", "forloop.length"]
            if len(loopvars) > 1:
                opts.append(loopvars[0])
        if caps:
            opts += [caps[-1]]
        if params:
            opts += params
        return r.choice(opts)

    def blank_body(self, tidx: int, depth: int, prod: int, loopvars: list[str], caps: list[str]) -> list[Any]:
        """Only assigns / captures / blank control flow: the engine suppresses it."""
        r = self.r
        out: list[Any] = []
        for _ in range(r.randint(1, 3)):
            c = r.random()
            if c < 0.55 or depth >= 4:
                out.append(["a", r.choice(["a1", "a2", "a3"]), self.value_expr(loopvars, caps)])
            elif c < 0.75:
                name = r.choice(["c1", "c2"])
                out.append(["cap", name, [["t", r.choice(self.text)], ["o", self.out_expr(loopvars, caps, [])]]])
                caps.append(name)
            else:
                remaining = MAXPROD // max(1, prod)
                src, opts, ln = self.iterable(min(remaining, 5))
                v = f"i{depth}"
                self._account(prod * ln)
                out.append(["for", v, src, opts,
                            self.blank_body(tidx, depth + 1, max(1, prod * ln), loopvars + [v], caps), None])
        return out

    def _account(self, p: int) -> None:
        if p > self.cur_mp:
            self.cur_mp = p
        self.cur_work += p

    def body(self, tidx: int, depth: int, loopdepth: int, prod: int, loopvars: list[str],
             caps: list[str], macros: list[Any], in_macro: bool, params: list[str],
             top: bool = False) -> list[Any]:
        r = self.r
        out: list[Any] = []
        n = r.randint(2, 5) if top else r.randint(1, 3)
        for _ in range(n):
            kind = r.choices(KINDS, self.w)[0]
            if depth >= 5 and kind in ("cap", "if", "loop", "macro"):
                kind = "text"
            if kind == "text":
                out.append(["t", "".join(r.choice(self.text) for _ in range(r.randint(1, 3)))])
            elif kind == "out":
                out.append(["o", self.out_expr(loopvars, caps, params)])
            elif kind == "assign":
                out.append(["a", r.choice(["a1", "a2", "a3", "a4"]), self.value_expr(loopvars, caps)])
            elif kind == "cap":
                name = r.choice(["c1", "c2", "c3"])
                b = self.body(tidx, depth + 1, loopdepth, prod, loopvars, caps, macros, in_macro, params)
                out.append(["cap", name, b])
                caps.append(name)
            elif kind == "if":
                cond = r.choice(["true", "true", "b1", "n1 > 1", "false"])
                if r.random() < 0.35:
                    out.append(["if", cond, self.blank_body(tidx, depth + 1, prod, loopvars, caps), None])
                else:
                    b = self.body(tidx, depth + 1, loopdepth, prod, loopvars, caps, macros, in_macro, params)
                    e = [["t", r.choice(self.text)]] if r.random() < 0.3 else None
                    out.append(["if", cond, b, e])
            elif kind == "loop":
                out.extend(self.loop(tidx, depth, loopdepth, prod, loopvars, caps, macros, in_macro, params))
            elif kind == "call":
                st = self.call(tidx, loopdepth, prod, loopvars, in_macro)
                if st is not None:
                    out.append(st)
                else:
                    out.append(["t", r.choice(self.text)])
            elif kind == "macro":
                # macros defined outside a macro body are invisible inside it (the call
                # copies the context): always define a local one and call it
                name = f"m{self.n_mac}"
                self.n_mac += 1
                w0 = self.cur_work
                b = self.body(tidx, depth + 1, loopdepth, prod, [], [], [], True, [])
                out.append(["mac", name, b])
                macros.append((name, prod, self.cur_work - w0 + prod))
                out.append(["call", name])
            if macros and r.random() < 0.12:
                name, defprod, w = r.choice(macros)
                if prod <= defprod and self.cur_work + w <= MAXWORK:
                    self.cur_work += w
                    out.append(["call", name])
        return out

    def loop(self, tidx: int, depth: int, loopdepth: int, prod: int, loopvars: list[str],
             caps: list[str], macros: list[Any], in_macro: bool, params: list[str]) -> list[Any]:
        r = self.r
        if loopdepth >= 4:
            return [["t", r.choice(self.text)]]
        remaining = MAXPROD // max(1, prod)
        v = f"i{depth}"
        c = r.random()
        if c < 0.12:
            # blank loop: nothing but assignments inside
            src, opts, ln = self.iterable(min(remaining, 6))
            self._account(prod * ln)
            return [["for", v, src, opts,
                     self.blank_body(tidx, depth + 1, max(1, prod * ln), loopvars + [v], caps), None]]
        src, opts, ln = self.iterable(min(remaining, 6))
        self._account(prod * ln)
        is_tr = 0.12 <= c < 0.30 and self.tr_depth == 0
        self.tr_depth += is_tr
        inner = self.body(tidx, depth + 1, loopdepth + 1, max(1, prod * ln), loopvars + [v], caps,
                          macros, in_macro, params)
        self.tr_depth -= is_tr
        inner.insert(0, self.mark())
        if self.allow_break and r.random() < 0.06:
            self.has_break = True
            inner.append(["if", f"forloop.index == {r.randint(1, 3)}",
                          [[r.choice(["brk", "cont"])]], None])
        if is_tr:
            cols = r.choice(["", f" cols: {r.randint(1, 3)}"])
            return [["tr", v, src, opts + cols, inner]]
        e = [["t", "∅"]] if r.random() < 0.2 else None
        return [["for", v, src, opts, inner, e]]

    def call(self, tidx: int, loopdepth: int, prod: int, loopvars: list[str], in_macro: bool) -> list[Any] | None:
        """A render / include of a later partial (acyclic), plain, `with` or `for`."""
        r = self.r
        cands = [j for j in range(tidx + 1, len(self.iso))]
        r.shuffle(cands)
        for j in cands:
            can_include = (tidx < 0 or not self.iso[tidx]) and not in_macro
            tags = []
            if self.iso[j]:
                tags.append("ren")
            if can_include:
                tags.append("inc")
            if not tags:
                continue
            tag = r.choice(tags)
            name = f"p{j}"
            kw = []
            if loopvars and r.random() < 0.5:
                kw.append(["k", loopvars[-1]])
            mode = r.choice(["", "", "for", "for", "with"]) if loopdepth < 4 else r.choice(["", "with"])
            if mode == "for":
                remaining = MAXPROD // max(1, prod * self.mp[j])
                if remaining < 1:
                    mode = ""
                else:
                    arg, ln = self.seq_arg(min(remaining, 6))
                    if prod * ln * self.work[j] + self.cur_work > MAXWORK:
                        mode = ""
                    else:
                        self._account(prod * ln * self.mp[j])
                        self.cur_work += prod * ln * self.work[j]
                        kwd = "for" if tag == "ren" or r.random() < 0.75 else "with"
                        return [tag, name, kwd, arg, r.choice(["v", "v", ""]), kw]
            if prod * self.mp[j] > MAXPROD or prod * self.work[j] + self.cur_work > MAXWORK:
                continue
            self._account(prod * self.mp[j])
            self.cur_work += prod * self.work[j]
            if mode == "with":
                return [tag, name, "with", r.choice(["s1", "n1", "'w'", loopvars[-1] if loopvars else "n2"]),
                        r.choice(["v", ""]), kw]
            return [tag, name, "", "", "", kw]
        return None

    # ........................................................................ program
    def program(self) -> dict[str, Any]:
        r = self.r
        self.data = self.make_data()
        npart = r.choice([0, 1, 2, 2, 3, 3, 4]) if self.profile == "nest" else r.choice([0, 1, 1, 2, 3])
        self.iso = [r.random() < 0.6 for _ in range(npart)]
        self.mp = [1] * npart
        self.work = [1] * npart
        partials: dict[str, list[Any]] = {}
        for j in reversed(range(npart)):
            self.cur_mp, self.cur_work = 1, 1
            b = self.body(j, 0, 0, 1, [], [], [], False, ["k", "v", f"p{j}"], top=True)
            b.insert(0, self.mark())
            partials[f"p{j}"] = b
            self.mp[j], self.work[j] = self.cur_mp, self.cur_work
        self.cur_mp, self.cur_work = 1, 1
        if npart and r.random() < 0.14:
            root = self.inherit_root(partials)
        else:
            root = self.body(-1, 0, 0, 1, [], [], [], False, [], top=True)
        return {"root": root, "partials": dict(sorted(partials.items())), "data": self.data,
                "has_break": self.has_break}

    def inherit_root(self, partials: dict[str, list[Any]]) -> list[Any]:
        """root extends 'base'; base wraps its blocks in loops; the overriding blocks
        contain loops / calls of their own (nest crossing a block boundary)."""
        r = self.r
        base: list[Any] = [["t", r.choice(self.text)]]
        root: list[Any] = [["ext", "base"]]
        prod_at: dict[str, int] = {}
        for _ in range(r.randint(1, 2)):
            name = f"b{self.n_blk}"
            self.n_blk += 1
            default = [["t", r.choice(self.text)], ["o", "s1"]]
            if r.random() < 0.35:
                # an assignment made by the parent block (runs in the outer context when the
                # overriding block evaluates block.super)
                default.append(["a", r.choice(["a5", "a6"]), self.value_expr([], [])])
            if r.random() < 0.7:
                src, opts, ln = self.iterable(5)
                base.append(["for", "o0", src, opts, [self.mark(), ["blk", name, default]], None])
                prod_at[name] = max(1, ln)
                self._account(ln)
            else:
                base.append(["blk", name, default])
                prod_at[name] = 1
            base.append(["t", r.choice(self.text)])
        for name, p in prod_at.items():
            if r.random() < 0.85:
                b = self.body(-1, 1, 1 if p > 1 else 0, p, [], [], [], False, [], top=True)
                if r.random() < 0.5:
                    b.insert(r.randint(0, len(b)), ["o", "block.super"])
                    if r.random() < 0.6:
                        b.append(["a", r.choice(["a1", "a2"]), self.value_expr([], [])])
                root.append(["blk", name, b])
        partials["base"] = base
        return root


# --------------------------------------------------------------------------- interrupts


class IntrGen:
    """Loops left early.  A partial rendered by `include .. for` / `include .. with <list>` /
    plain `include` inside an enclosing `for` executes `break` / `continue` on some items
    (condition on the item, the outer variable or data), possibly from inside a capture /
    with / case / if / directly rendered block, possibly through a second include level.
    The interrupt travels through the include (and whatever wraps it) to the enclosing
    loop.  Afterwards the same context runs further loops: the rest of the outer
    iteration, later outer iterations, sibling nests, tablerow, partials included or
    rendered afterwards, macros - whose accounting must be what a fresh evaluation gives.
    The sibling nests are sized close to the largest product of lengths of the program so
    that any stale factor in the loop accounting crosses the limit at L = M."""

    WRAPS = ("", "", "cap", "with", "case", "if", "blk", "tr", "for")

    def __init__(self, rng: random.Random, cr: bool = False):
        self.r = rng
        self.text = TEXT if cr else PLAIN_TEXT
        self.mark_i = 0
        self.n_blk = 0
        self.data: dict[str, Any] = {}

    def mark(self) -> list[Any]:
        m = MARKS[self.mark_i % len(MARKS)]
        self.mark_i += 1
        return ["t", m]

    def t(self) -> list[Any]:
        return ["t", self.r.choice(self.text)]

    def seq(self, lo: int = 2, hi: int = 5) -> tuple[str, int]:
        r = self.r
        n = r.randint(lo, hi)
        c = r.random()
        if c < 0.5:
            return f"(1..{n})", n
        if c < 0.75:
            name = r.choice(["q1", "q2"])
            self.data[name] = list(range(1, n + 1))
            return name, n
        name = r.choice(["m1", "m2"])
        self.data[name] = n
        return f"(1..{name})", n

    def cond(self, item: str | None, outer: str | None, n: int) -> str:
        """A condition that is true for some items / outer iterations and false for others."""
        r = self.r
        opts = []
        if item:
            k = r.randint(1, max(1, n))
            self.data["kk"] = k
            opts += [f"{item} == {k}", f"{item} >= {max(2, k)}", f"{item} == kk", f"forloop.index == {k}"]
        if outer:
            opts += [f"{outer} == {r.randint(1, 2)}", f"{outer} != 1", f"{outer} >= kk2"]
            self.data["kk2"] = r.randint(1, 3)
        if not opts:
            opts = ["b1"]
            self.data["b1"] = True
        return r.choice(opts)

    def interrupt(self, item: str | None, outer: str | None, n: int) -> list[Any]:
        """[... {% if cond %}{% break|continue %}{% endif %} ...] possibly inside a construct
        that holds accounting state of its own."""
        r = self.r
        core: list[Any] = [["if", self.cond(item, outer, n), [[r.choice(["brk", "brk", "cont"])]], None]]
        w = r.choice(["", "", "", "cap", "with", "case", "if"])
        if w == "cap":
            core = [["cap", "c9", [self.t(), *core, self.t()]]]
        elif w == "with":
            core = [["with", "w", "1", core]]
        elif w == "case":
            core = [["case", "1", core]]
        elif w == "if":
            core = [["if", "true", core, None]]
        return core

    def stopper(self, partials: dict[str, list[Any]]) -> tuple[list[Any], int]:
        """`extends` sitting inside a for / tablerow / with / capture / if / case of the
        partial: after the parent template has rendered, StopRender travels out through
        those frames and is absorbed where the partial's rendering ends.  -> (statements,
        product of the loop lengths the extends sits in times the loops of the parent)."""
        r = self.r
        blen = r.randint(0, 3)
        default: list[Any] = [self.t()]
        if blen:
            default.append(["for", "bj", f"(1..{blen})", "", [self.mark()], None])
        partials["sbase"] = [self.t(), ["blk", "sb", default], self.t()]
        core: list[Any] = [["ext", "sbase"]]
        if r.random() < 0.4:
            core.append(["blk", "sb", [self.t(), ["o", "block.super"]] if r.random() < 0.5 else [self.t()]])
        prod = 1
        for _ in range(r.randint(1, 3)):
            w = r.choice(["for", "for", "tr", "with", "cap", "if", "case"])
            if w == "for":
                n = r.randint(2, 4)
                core = [["for", f"e{prod}", f"(1..{n})", "", [self.mark(), *core], None]]
                prod *= n
            elif w == "tr":
                if any(st[0] == "tr" for st in core):
                    continue
                n = r.randint(2, 3)
                core = [["tr", f"e{prod}", f"(1..{n})", "", [self.mark(), *core]]]
                prod *= n
            elif w == "with":
                core = [["with", "w", "1", core]]
            elif w == "cap":
                core = [["cap", "c8", [self.t(), *core]]]
            elif w == "if":
                core = [["if", "true", core, None]]
            else:
                core = [["case", "1", core]]
        return core, prod * max(1, blen)

    def small_loop(self, var: str, maxprod: int) -> tuple[list[Any], int]:
        n = self.r.randint(1, max(1, min(4, maxprod)))
        return ["for", var, f"(1..{n})", "", [self.mark(), ["o", var]], None], n

    def program(self) -> dict[str, Any]:
        r = self.r
        self.data = {"s1": r.choice(STRS[:4]), "b1": True}
        partials: dict[str, list[Any]] = {}

        # ---- the partial that interrupts ------------------------------------------
        mode = r.choice(["for", "for", "for", "withlist", "plain", "with"])
        A = r.randint(2, 4)  # enclosing loop
        outer = "o"
        if mode in ("for", "withlist"):
            seq_src, n = self.seq()
            item = "v"
        else:
            seq_src, n = "", 1
            item = None
        inner_prod = 1
        pbody: list[Any] = [self.mark(), ["o", item or outer]]
        if r.random() < 0.4:
            lp, k = self.small_loop("z", 3)
            pbody.append(lp)
            inner_prod = max(inner_prod, k)
        second = r.random() < 0.25
        stop = r.random() < 0.25
        if stop:
            st, k = self.stopper(partials)
            pbody += st
            inner_prod = max(inner_prod, k)
        elif second:
            # the interrupt comes from one level further down
            seq2, n2 = self.seq(2, 3)
            partials["p2"] = [self.mark(), ["o", "u"], *self.interrupt("u", None, n2), self.t()]
            pbody.append(["inc", "p2", r.choice(["for", "with"]), seq2, "u", []])
            inner_prod = max(inner_prod, n2)
            if r.random() < 0.5:
                pbody += self.interrupt(item, outer, n)
        else:
            pbody += self.interrupt(item, outer, n)
        pbody.append(self.t())
        if r.random() < 0.3:
            lp, k = self.small_loop("y", 3)
            pbody.append(lp)
            inner_prod = max(inner_prod, k)
        partials["p"] = pbody

        if mode == "for":
            inc = ["inc", "p", "for", seq_src, "v", []]
        elif mode == "withlist":
            inc = ["inc", "p", "with", seq_src, "v", []]
        elif mode == "with":
            inc = ["inc", "p", "with", outer, "v", []]
        else:
            inc = ["inc", "p", "", "", "", []]

        # ---- what the include sits in, inside the enclosing loop ---------------------
        wrap = r.choice(self.WRAPS)
        extra = 1
        core: list[Any] = [inc]
        if wrap == "cap":
            core = [["cap", "c1", [self.t(), inc]], ["o", "c1"]]
        elif wrap == "with":
            core = [["with", "w", "2", [inc]]]
        elif wrap == "case":
            core = [["case", "s1", [inc]]]
        elif wrap == "if":
            core = [["if", "true", [inc], [self.t()]]]
        elif wrap == "blk":
            core = [["blk", f"k{self.n_blk}", [inc]]]
            self.n_blk += 1
        elif wrap == "tr":
            extra = r.randint(2, 3)
            core = [["tr", "tt", f"(1..{extra})", "", [self.mark(), inc]]]
        elif wrap == "for":
            extra = r.randint(2, 3)
            core = [["for", "mm", f"(1..{extra})", "", [self.mark(), inc], None]]
        nest_m = A * extra * n * inner_prod
        obody: list[Any] = [self.mark(), ["o", outer], *core]
        after_m = 0
        if r.random() < 0.6:
            # the rest of the outer iteration (reached after `continue`d / completed includes)
            b = r.randint(1, max(1, min(5, (extra * n * inner_prod))))
            obody.append(["for", "a", f"(1..{b})", "", [self.mark(), ["o", "a"]], None])
            after_m = A * b
        if r.random() < 0.3:
            obody.append(["inc", "p", "for", "(1..2)", "v", []])
            after_m = max(after_m, A * 2 * inner_prod)
        nest: list[Any] = ["for", outer, f"(1..{A})", "", obody, None]
        if r.random() < 0.15:
            nest = ["tr", outer, f"(1..{A})", "", obody] if wrap != "tr" else nest
        M = max(nest_m, after_m)

        # ---- later loops on the same context, sized close to M -----------------------
        def dims(target: int) -> tuple[int, int]:
            best = (1, max(1, min(target, 6)))
            for a in range(1, 7):
                for b in range(1, 7):
                    if a * b <= target and a * b > best[0] * best[1]:
                        best = (a, b)
            return best

        root: list[Any] = []
        if r.random() < 0.3:
            lp, _ = self.small_loop("pre", 3)
            root.append(lp)
        root += [self.t(), nest, self.t()]
        partials["q"] = [self.mark(), ["for", "g", "(1..gq)", "", [self.mark(), ["o", "g"]], None]]
        self.data["gq"] = 1
        posts = r.sample(["nest", "nest", "tr", "incq", "incqfor", "renq", "mac", "incpfor", "again"], r.randint(1, 3))
        for kind in posts:
            target = max(2, r.choice([M, M, M, max(2, M // 2), max(2, (M * 2) // 3)]))
            a, b = dims(target)
            inner: list[Any] = ["for", "t2", f"(1..{b})", "", [self.mark(), ["o", "t2"]], None]
            if kind == "nest":
                root.append(["for", "s2", f"(1..{a})", "", [self.mark(), inner], None])
            elif kind == "tr":
                root.append(["tr", "s2", f"(1..{a})", r.choice(["", " cols: 2"]), [self.mark(), inner]])
            elif kind == "incq":
                self.data["gq"] = min(6, max(self.data["gq"], b))
                root.append(["for", "s2", f"(1..{a})", "", [self.mark(), ["inc", "q", "", "", "", []]], None])
            elif kind == "incqfor":
                self.data["gq"] = min(6, max(self.data["gq"], b))
                root.append(["inc", "q", "for", f"(1..{a})", "v", []])
            elif kind == "renq":
                self.data["gq"] = min(6, max(self.data["gq"], b))
                root.append(["ren", "q", r.choice(["", "for"]), f"(1..{a})", "v", []])
                if root[-1][2] == "":
                    root[-1][3] = ""
                    root[-1][4] = ""
            elif kind == "mac":
                root.append(["mac", "mz", [["for", "s2", f"(1..{a})", "", [self.mark(), inner], None]]])
                root.append(["call", "mz"])
            elif kind == "incpfor":
                root.append(["for", "o", f"(1..{min(A, 2)})", "", [self.mark(), ["inc", "p", "for", "(1..2)", "v", []]], None])
            elif kind == "again":
                root.append(copy.deepcopy(nest))
            root.append(self.t())
        if r.random() < 0.3:
            root.append(["a", "a1", "s1 | append: 'tail'"])
            root.append(["cap", "c2", [self.t(), ["o", "a1"]]])
            root.append(["o", "c2"])
        return {"root": root, "partials": dict(sorted(partials.items())), "data": self.data, "has_break": True}


# --------------------------------------------------------------------------- varying lengths


class VaryGen:
    """Nests whose inner loop length depends on the outer iteration, across every boundary
    that copies the context (render, render-for, call, overridden block, block.super) and
    through include for contrast.  The inner length grows with the outer variable
    (`n: i`, `n: forloop.index`, `(1..i)`, `n | times: k`, data sliced by `limit: i`) or
    the inner partial is only reached late (`if forloop.last`, `if i > k`), so a count
    taken in the first outer iteration says nothing about the later ones."""

    BOUNDARIES = ("render", "render", "renderfor", "call", "block", "super", "include", "includefor")

    def __init__(self, rng: random.Random):
        self.r = rng
        self.mark_i = 0
        self.data: dict[str, Any] = {}

    def mark(self) -> list[Any]:
        m = MARKS[self.mark_i % len(MARKS)]
        self.mark_i += 1
        return ["t", m]

    def inner(self, nvar: str, depth2: bool) -> list[Any]:
        """Statements looping a number of times that depends on *nvar*."""
        r = self.r
        body: list[Any] = [self.mark(), ["o", "j"]]
        if depth2:
            body.append(["for", "h", f"(1..{r.randint(1, 3)})", "", [self.mark()], None])
        c = r.random()
        if c < 0.35:
            return [["for", "j", f"(1..{nvar})", "", body, None]]
        if c < 0.6:
            k = r.choice([2, 3, 5, 10])
            return [["a", "mx", f"{nvar} | times: {k}"], ["for", "j", "(1..mx)", "", body, None]]
        if c < 0.8:
            self.data["big"] = list(range(1, r.randint(6, 12) + 1))
            return [["for", "j", "big", f" limit: {nvar}", body, None]]
        k = r.randint(1, 3)
        return [["for", "j", f"({k}..{nvar})", "", body, None]]

    def late(self, outer: str, A: int) -> str:
        r = self.r
        return r.choice(["forloop.last", f"{outer} > {r.randint(1, max(1, A - 1))}", f"{outer} == {A}",
                         f"forloop.index >= {max(1, A - 1)}"])

    def program(self) -> dict[str, Any]:
        r = self.r
        self.data = {}
        A = r.randint(3, 10)
        outer = "i"
        boundary = r.choice(self.BOUNDARIES)
        arg = r.choice([outer, outer, "forloop.index"])
        depth2 = r.random() < 0.25
        guard = r.random() < 0.15  # the inner partial is only reached in late iterations
        partials: dict[str, list[Any]] = {}
        fixed = r.randint(4, 12)

        def inner_for(nvar: str) -> list[Any]:
            if guard:
                # a fixed, large inner loop reached late
                return [["for", "j", f"(1..{fixed})", "", [self.mark(), ["o", "j"]], None]]
            return self.inner(nvar, depth2)

        root: list[Any]
        pre: list[Any] = [["t", "["]]
        if boundary == "render":
            partials["row"] = [self.mark(), *inner_for("n")]
            call: list[Any] = ["ren", "row", "", "", "", [["n", arg]]]
        elif boundary == "renderfor":
            partials["row"] = [self.mark(), *inner_for("n")]
            call = ["ren", "row", "for", f"(1..{r.randint(1, 2)})", "v", [["n", arg]]]
        elif boundary == "include":
            partials["row"] = [self.mark(), *inner_for("n")]
            call = ["inc", "row", "", "", "", [["n", arg]]]
        elif boundary == "includefor":
            partials["row"] = [self.mark(), *inner_for("n")]
            call = ["inc", "row", "for", f"(1..{r.randint(1, 2)})", "v", [["n", arg]]]
        elif boundary == "call":
            pre.append(["mac", "mrow n", inner_for("n")])
            call = ["call", f"mrow {arg}"]
        else:
            call = ["blk", "cell", inner_for(outer) if boundary == "super" else [["t", "d"]]]
        wrapped: list[Any] = [call]
        if guard:
            wrapped = [["if", self.late(outer, A), [call], None]]
        loop = ["for", outer, f"(1..{A})", "", [self.mark(), ["o", outer], *wrapped], None]
        if boundary in ("block", "super"):
            partials["base"] = [*pre, loop, ["t", "]"]]
            if boundary == "block":
                over = inner_for(outer)
            else:
                over = [["t", "<"], ["o", "block.super"], ["t", ">"]]
            root = [["ext", "base"], ["blk", "cell", over]]
        else:
            root = [*pre, loop, ["t", "]"]]
            if r.random() < 0.3:
                # a uniform sibling nest for contrast
                root.append(["for", "s2", f"(1..{r.randint(2, 4)})", "",
                             [self.mark(), ["for", "t2", f"(1..{r.randint(2, 4)})", "", [self.mark()], None]], None])
        return {"root": root, "partials": dict(sorted(partials.items())), "data": self.data, "has_break": False}


# --------------------------------------------------------------------------- per-item lengths


class ItemGen:
    """Nests whose OUTER loop is render-for / include-for / include-with-a-list / tablerow /
    for (optionally inside one more enclosing loop) and whose inner loop length depends on
    the ITEM: rows of different lengths with the longest first, in the middle or last, or
    ranges `(v..K)` / `(1..v)` over the item.  The sum of the inner lengths (what really
    runs) is below len(items) x longest (what the engine counts up front), and the first /
    middle / last item each get the chance to be the one that decides."""

    OUTERS = ("renderfor", "renderfor", "renderfor", "includefor", "includewith", "tablerow", "for")

    def __init__(self, rng: random.Random):
        self.r = rng
        self.mark_i = 0

    def mark(self) -> list[Any]:
        m = MARKS[self.mark_i % len(MARKS)]
        self.mark_i += 1
        return ["t", m]

    def lengths(self) -> list[int]:
        r = self.r
        n = r.randint(2, 5)
        longest = r.randint(3, 10)
        rest = [r.randint(0, max(0, longest - 1)) for _ in range(n - 1)]
        pos = r.choice(["first", "first", "middle", "last", "any"])
        if pos == "first":
            return [longest, *rest]
        if pos == "last":
            return [*rest, longest]
        if pos == "middle":
            k = len(rest) // 2
            return [*rest[:k], longest, *rest[k:]] if n > 2 else [longest, *rest]
        out = [longest, *rest]
        r.shuffle(out)
        return out

    def program(self) -> dict[str, Any]:
        r = self.r
        lens = self.lengths()
        data: dict[str, Any] = {}
        outer = r.choice(self.OUTERS)
        by_range = r.random() < 0.35
        K = max(lens)
        if by_range:
            # item v, inner loop (v..K): K - v + 1 iterations
            data["rows"] = [K - ln + 1 for ln in lens]
            inner_iter = f"(row..{K})"
        else:
            data["rows"] = [list(range(ln)) for ln in lens]
            inner_iter = "row"
        inner_body: list[Any] = [self.mark(), ["t", "."]]
        if r.random() < 0.2:
            inner_body.append(["for", "h", f"(1..{r.randint(2, 3)})", "", [self.mark()], None])
        inner: list[Any] = ["for", "cell", inner_iter, r.choice(["", "", " reversed"]), inner_body, None]
        rowbody: list[Any] = [self.mark(), inner, ["t", "|"]]
        seq = "rows"
        partials: dict[str, list[Any]] = {}
        enclosing = r.random() < 0.3
        if enclosing:
            data["groups"] = [data["rows"]] * r.randint(1, 2)
            seq = "g"
        if outer == "renderfor":
            partials["row"] = rowbody
            nest: list[Any] = ["ren", "row", "for", seq, r.choice(["row", ""]), []]
        elif outer == "includefor":
            partials["row"] = rowbody
            nest = ["inc", "row", "for", seq, r.choice(["row", ""]), []]
        elif outer == "includewith":
            partials["row"] = rowbody
            nest = ["inc", "row", "with", seq, r.choice(["row", ""]), []]
        elif outer == "tablerow":
            nest = ["tr", "row", seq, r.choice(["", " cols: 2"]), rowbody]
        else:
            nest = ["for", "row", seq, "", rowbody, None]
        root: list[Any] = [["t", "["]]
        if enclosing:
            root.append(["for", "g", "groups", "", [self.mark(), nest], None])
        else:
            root.append(nest)
        root.append(["t", "]"])
        return {"root": root, "partials": partials, "data": data, "has_break": False}


# --------------------------------------------------------------------------- inheritance layers


class LayerGen:
    """Local variables spread over inheritance layers and block nesting: assigns and
    captures before `extends`, in the parent template outside its blocks (before, between
    and after them, inside a loop around a block), inside overriding blocks of every layer,
    inside blocks nested in blocks, behind block.super, and inside partials / macros called
    from a block.  Values have sizes of the same order, so limits between the largest
    single value and the sum separate 'each fits' from 'all fit together'."""

    def __init__(self, rng: random.Random):
        self.r = rng
        self.n_val = 0

    def value(self) -> str:
        r = self.r
        c = r.random()
        if c < 0.55:
            ch = "abcdefgh"[self.n_val % 8]
            return q(ch * r.randint(10, 160))
        if c < 0.7:
            return r.choice(["s1", "s2", "s1 | append: s2"])
        if c < 0.8:
            return q("é" * r.randint(5, 60))
        if c < 0.9:
            return r.choice(["xs", "(1..5)", "'a,b,c,d,e,f' | split: ','"])
        return str(r.randint(0, 10**9))

    def bind(self) -> list[Any]:
        r = self.r
        self.n_val += 1
        name = f"v{self.n_val}" if r.random() < 0.8 else r.choice(["v1", "v2"])
        if r.random() < 0.75:
            return ["a", name, self.value()]
        return ["cap", name, [["t", "cd" * r.randint(3, 50)], ["o", "s1"]]]

    def binds(self, lo: int, hi: int) -> list[Any]:
        return [self.bind() for _ in range(self.r.randint(lo, hi))]

    def block_body(self, allow_partials: bool, nested: list[str]) -> list[Any]:
        r = self.r
        body: list[Any] = [["t", "("], *self.binds(0, 2)]
        if r.random() < 0.3:
            body.append(["o", "block.super"])
        if nested and r.random() < 0.6:
            name = nested.pop()
            body.append(["blk", name, [["t", "n"], *self.binds(0, 2)]])
        if allow_partials and r.random() < 0.3:
            c = r.random()
            if c < 0.4:
                body.append(["ren", "part", "", "", "", []])
            elif c < 0.7:
                body.append(["inc", "part", "", "", "", []])
            else:
                body += [["mac", "mm", self.binds(1, 2)], ["call", "mm"]]
        if r.random() < 0.25:
            body.append(["for", "z", f"(1..{r.randint(1, 3)})", "", [["a", "grow", "grow | append: 'xxxxxxxx'"]], None])
        body += self.binds(0, 1)
        body += [["o", "v1 | size"], ["t", ")"]]
        return body

    def program(self) -> dict[str, Any]:
        r = self.r
        data = {"s1": "s" * r.randint(1, 80), "s2": r.choice(STRS[:4] + ["t" * 40]), "xs": [1, "a", "é"]}
        partials: dict[str, list[Any]] = {"part": [["t", "p"], *self.binds(1, 2), ["o", "v1 | size"]]}
        nblocks = r.randint(1, 2)
        names = [f"b{i}" for i in range(nblocks)]
        nested_names = [f"in{i}" for i in range(r.randint(0, 2))]
        declared: list[str] = []

        # ---- base ------------------------------------------------------------------
        base: list[Any] = [["t", "<"], *self.binds(0, 2)]
        pool = list(nested_names)
        for name in names:
            default = self.block_body(False, pool)
            default = [s for s in default if s != ["o", "block.super"]]
            blk: list[Any] = ["blk", name, default]
            if r.random() < 0.3:
                base.append(["for", "g", f"(1..{r.randint(1, 2)})", "", [*self.binds(0, 1), blk], None])
            else:
                base.append(blk)
            base += self.binds(0, 1)
        declared = names + [n for n in nested_names if n not in pool]
        base += [["o", "v1 | size"], ["t", ">"]]
        partials["base"] = base

        # ---- middle layer -------------------------------------------------------------
        parent = "base"
        if r.random() < 0.45:
            mid: list[Any] = [*self.binds(0, 1), ["ext", "base"]]
            extra_all = [f"m{i}" for i in range(r.randint(0, 1))]
            extra = list(extra_all)
            for name in r.sample(declared, r.randint(1, len(declared))):
                mid.append(["blk", name, self.block_body(True, extra)])
            # blocks first declared by the middle layer can be overridden by the leaf too
            declared = declared + [n for n in extra_all if n not in extra]
            partials["mid"] = mid
            parent = "mid"

        # ---- leaf ---------------------------------------------------------------------
        root: list[Any] = [*self.binds(0, 2), ["ext", parent]]
        for name in r.sample(declared, r.randint(1, len(declared))):
            root.append(["blk", name, self.block_body(True, [])])
        return {"root": root, "partials": dict(sorted(partials.items())), "data": data, "has_break": False}


# --------------------------------------------------------------------------- rebinding


class RebindGen:
    """A few names rebound many times inside loops with values of very different size:
    nil / false / true / empty string / small and large strings / integers / arrays /
    ranges / captures, in every order (nil -> value, value -> nil, large -> small,
    small -> large, capture -> assign), directly, through `default`, from data that is
    nil, in included partials (same context), rendered partials and macros (contexts of
    their own) and overriding blocks.  The namespace holds little at any time, however
    often it was rebound."""

    VALUES = ["nil", "nil", "nil", "false", "true", "''", "'x'", "0", "7", "123456789012345678901234567890",
              "dnil", "dnil", "demp", "sbig", "ssmall", "xs", "(1..3)", "1.5", "h.missing", "h.none",
              "h.none | default: 'dflt'", "dnil | default: sbig", "'a,b,c' | split: ','"]

    def __init__(self, rng: random.Random):
        self.r = rng
        self.names = [f"r{i}" for i in range(rng.randint(1, 3))]

    def value(self) -> str:
        r = self.r
        if r.random() < 0.2:
            return q("abcdefgh"[r.randrange(8)] * r.randint(1, 120))
        return r.choice(self.VALUES)

    def bind(self, loopvar: str | None) -> list[Any]:
        r = self.r
        name = r.choice(self.names)
        c = r.random()
        if c < 0.72:
            v = self.value()
            if loopvar and r.random() < 0.2:
                v = r.choice([loopvar, f"{loopvar} | append: 'zz'", f"{name} | append: 'y'", f"{name} | default: {loopvar}"])
            return ["a", name, v]
        body: list[Any] = []
        if r.random() < 0.8:
            body.append(["t", "cap" * r.randint(0, 30)])
        if r.random() < 0.5:
            body.append(["o", r.choice(self.names)])
        return ["cap", name, body]

    def cycle(self, loopvar: str | None) -> list[Any]:
        """One rebinding cycle: reset, maybe look, set again."""
        r = self.r
        name = r.choice(self.names)
        out: list[Any] = [["a", name, r.choice(["nil", "nil", "dnil", "false", "''", "h.none"])]]
        if r.random() < 0.4:
            out.append(["if", f"{loopvar or 'n1'} == {r.randint(1, 4)}", [["a", name, self.value()]], None])
        if r.random() < 0.8:
            out.append(["a", name, r.choice([loopvar or "7", self.value(), f"{name} | default: 'fallback'"])])
        return out

    def body(self, loopvar: str | None, n: int) -> list[Any]:
        out: list[Any] = []
        for _ in range(n):
            out += self.cycle(loopvar) if self.r.random() < 0.5 else [self.bind(loopvar)]
        return out

    def program(self) -> dict[str, Any]:
        r = self.r
        data = {"dnil": None, "demp": "", "sbig": "B" * r.randint(60, 300), "ssmall": "s", "xs": [1, None, "a"],
                "h": {"none": None, "v": "hv"}, "n1": r.randint(1, 4)}
        partials: dict[str, list[Any]] = {}
        root: list[Any] = self.body(None, r.randint(0, 2))
        cycles = r.choice([3, 8, 20, 40, 70])
        inner = self.body("i", r.randint(1, 4))
        where = r.choice(["plain", "plain", "include", "render", "macro", "block", "nested", "capture"])
        if where == "include":
            partials["p"] = inner
            inner = [["inc", "p", "", "", "", []]]
        elif where == "render":
            partials["p"] = [*inner, ["o", self.names[0]]]
            inner = [["ren", "p", "", "", "", [["i", "i"]]], self.bind("i")]
        elif where == "macro":
            root.append(["mac", "mm i", inner])
            inner = [["call", "mm i"], self.bind("i")]
        elif where == "nested":
            k = r.randint(2, 4)
            inner = [["for", "j", f"(1..{k})", "", self.body("j", r.randint(1, 3)), None], *inner]
            cycles = max(2, cycles // k)
        elif where == "capture":
            inner = [["cap", "whole", [["t", "w"], *inner]], *self.cycle("i")]
        loop: list[Any] = ["for", "i", f"(1..{cycles})", "", inner, None]
        tail: list[Any] = [*self.body(None, r.randint(0, 2)), ["t", "["], *[["o", n] for n in self.names], ["t", "]"]]
        if where == "block":
            partials["base"] = [*self.body(None, 1), ["blk", "b", [["t", "d"]]], *tail]
            root = [*root, ["ext", "base"], ["blk", "b", [loop, *self.body(None, 1)]]]
        else:
            root = [*root, loop, *tail]
        return {"root": root, "partials": dict(sorted(partials.items())), "data": data, "has_break": False}


# --------------------------------------------------------------------------- carried x inherited


class CrossGen:
    """Loop nests that cross BOTH a boundary that carries the loop count as a number
    (render inside a for, render-for, include-for, tablerow around an include / render,
    macro call in a for) AND an inheritance boundary (extends + overriding block, a block
    nested in a block, block.super), in either order, with loops on either side."""

    def __init__(self, rng: random.Random):
        self.r = rng
        self.mark_i = 0

    def mark(self) -> list[Any]:
        m = MARKS[self.mark_i % len(MARKS)]
        self.mark_i += 1
        return ["t", m]

    def loop(self, var: str, lo: int = 2, hi: int = 5, body: list[Any] | None = None) -> list[Any]:
        n = self.r.randint(lo, hi)
        return ["for", var, f"(1..{n})", "", [self.mark(), *(body or [["o", var]])], None]

    def carried(self, name: str, isolated: bool) -> list[Any]:
        """Statements reaching partial *name* through a carrying boundary."""
        r = self.r
        n = r.randint(2, 5)
        opts = ["for>render", "render-for", "tablerow>render"]
        if not isolated:
            opts += ["for>include", "include-for", "tablerow>include", "include-with-list"]
        k = r.choice(opts)
        tag = "ren" if "render" in k else "inc"
        plain = [tag, name, "", "", "", []]
        if k.startswith("for>"):
            return [["for", "o", f"(1..{n})", "", [self.mark(), plain], None]]
        if k.startswith("tablerow>"):
            return [["tr", "o", f"(1..{n})", "", [self.mark(), plain]]]
        if k == "include-with-list":
            return [[tag, name, "with", f"(1..{n})", "v", []]]
        return [[tag, name, "for", f"(1..{n})", "v", []]]

    def program(self) -> dict[str, Any]:
        r = self.r
        partials: dict[str, list[Any]] = {}
        order = r.choice(["carried-outside", "carried-outside", "inherit-outside", "both"])
        nested_block = r.random() < 0.35
        use_super = r.random() < 0.4
        base_loop_around = r.random() < 0.35

        # how the inheriting template is reached decides whether `include` is allowed in it
        reach: list[Any] = [] if order == "inherit-outside" else self.carried("child", False)
        isolated = any(st[0] == "ren" or (st[0] in ("for", "tr") and st[4][1][0] == "ren") for st in reach)

        # the loop that sits inside the overriding block (or behind block.super)
        inner = self.loop("j", 2, 5)
        if order in ("inherit-outside", "both") or r.random() < 0.3:
            # ... and reaches a further partial through a carrying boundary
            partials["row"] = [self.mark(), self.loop("c", 2, 4)]
            inner_block: list[Any] = [*self.carried("row", isolated), *([inner] if r.random() < 0.5 else [])]
        else:
            inner_block = [inner]

        default: list[Any] = [["t", "d"], *([self.loop("dj", 2, 5)] if use_super else [])]
        if nested_block:
            default.append(["blk", "inner", [["t", "n"]]])
        blk: list[Any] = ["blk", "b", default]
        base: list[Any] = [["t", "<"]]
        if base_loop_around:
            base.append(["for", "bo", f"(1..{r.randint(2, 3)})", "", [self.mark(), blk], None])
        else:
            base.append(blk)
        base.append(["t", ">"])
        partials["base"] = base

        child: list[Any] = [["ext", "base"]]
        if nested_block and r.random() < 0.6:
            # override only the nested block, or both
            child.append(["blk", "inner", inner_block])
            if r.random() < 0.5:
                child.append(["blk", "b", [["t", "o"], ["o", "block.super"]]])
        else:
            body = list(inner_block)
            if use_super:
                body.insert(r.randint(0, len(body)), ["o", "block.super"])
            child.append(["blk", "b", body])

        if order == "inherit-outside":
            root = child
        else:
            partials["child"] = child
            root = [["t", "["], *reach, ["t", "]"]]
            if r.random() < 0.3:
                root = [["t", "["], ["for", "q", f"(1..{r.randint(1, 2)})", "", [self.mark(), *root[1:-1]], None], ["t", "]"]]
        return {"root": root, "partials": dict(sorted(partials.items())), "data": {}, "has_break": False}


# --------------------------------------------------------------------------- shrink


def _bodies(prog: dict[str, Any]) -> list[list[Any]]:
    out: list[list[Any]] = []
    work = [prog["root"]] + list(prog["partials"].values())
    while work:
        b = work.pop()
        out.append(b)
        for s in b:
            work.extend(child_bodies(s))
    return out


_RANGE = re.compile(r"\((-?\d+)\.\.(-?\d+)\)")


def shrink(prog: dict[str, Any], failing: Callable[[dict[str, Any]], bool], budget: int = 160) -> dict[str, Any]:
    prog = copy.deepcopy(prog)
    tries = 0

    def attempt() -> bool:
        nonlocal tries
        tries += 1
        try:
            return bool(failing(prog))
        except Exception:  # noqa: BLE001
            return False

    changed = True
    while changed and tries < budget:
        changed = False
        # unused partials
        for name in list(prog["partials"]):
            if tries >= budget:
                break
            saved = prog["partials"].pop(name)
            if attempt():
                changed = True
            else:
                prog["partials"][name] = saved
                prog["partials"] = dict(sorted(prog["partials"].items()))
        for lst in _bodies(prog):
            i = 0
            while i < len(lst) and tries < budget:
                s = lst[i]
                saved = lst[:]
                del lst[i]
                if attempt():
                    changed = True
                    continue
                lst[:] = saved
                hoisted = False
                if s[0] not in ("mac", "blk"):
                    for cb in child_bodies(s):
                        lst[i : i + 1] = list(cb)
                        if attempt():
                            changed = hoisted = True
                            break
                        lst[:] = saved
                if hoisted:
                    continue
                # shorten a literal range / drop options / drop keyword arguments
                if s[0] == "for" and s[5] is not None:
                    old = s[5]
                    s[5] = None
                    if attempt():
                        changed = True
                        continue
                    s[5] = old
                if s[0] in ("for", "tr"):
                    m = _RANGE.fullmatch(s[2])
                    if m and int(m.group(2)) - int(m.group(1)) >= 2:
                        old = s[2]
                        s[2] = f"({m.group(1)}..{int(m.group(2)) - 1})"
                        if attempt():
                            changed = True
                            continue
                        s[2] = old
                    if s[3]:
                        old = s[3]
                        s[3] = ""
                        if attempt():
                            changed = True
                            continue
                        s[3] = old
                if s[0] in ("ren", "inc") and s[5]:
                    old = s[5]
                    s[5] = []
                    if attempt():
                        changed = True
                        continue
                    s[5] = old
                if s[0] == "t" and len(s[1]) > 1:
                    old = s[1]
                    s[1] = old[: len(old) // 2]
                    if attempt():
                        changed = True
                        continue
                    s[1] = old
                i += 1
    # data the minimal program does not mention
    text = " ".join([emit_body(prog["root"]), *(emit_body(b) for b in prog["partials"].values())])
    for name in list(prog["data"]):
        if not re.search(r"\b" + re.escape(name) + r"\b", text):
            saved_v = prog["data"].pop(name)
            if not attempt():
                prog["data"][name] = saved_v
    return prog


# --------------------------------------------------------------------------- cycles

INC_EDGES = ["include", "include-with", "include-for", "for>include", "capture>include",
             "with>include", "if>include", "block>include", "extblock>include", "extends"]
REN_EDGES = ["render", "render-with", "render-for", "for>render", "capture>render",
             "call>render", "block>render", "extblock>render", "tablerow>render", "extends"]


WRAPS = {
    "if": ("{% if true %}", "{% endif %}"),
    "unless": ("{% unless false %}", "{% endunless %}"),
    "with": ("{% with w: 1 %}", "{% endwith %}"),
    "for1": ("{% for w in (1..1) %}", "{% endfor %}"),
    "case": ("{% case 1 %}{% when 1 %}", "{% endcase %}"),
}


def edge(kind: str, a: str, b: str, extra: dict[str, str], wraps: list[str] | None = None) -> str:
    """Source of template *a* reaching template *b* through *kind*; *wraps* are neutral
    block tags nested directly around the partial tag."""
    tag = "include" if "include" in kind else "render"
    if kind == "extends":
        return f"{{% extends '{b}' %}}{{% block k_{a} %}}x{{% endblock %}}"
    if kind.endswith("-with"):
        core = f"{{% {tag} '{b}' with 1 as v %}}"
    elif kind.endswith("-for"):
        core = f"{{% {tag} '{b}' for (1..2) as v %}}"
    else:
        core = f"{{% {tag} '{b}' %}}"
    for w in reversed(wraps or []):
        core = WRAPS[w][0] + core + WRAPS[w][1]
    if ">" not in kind:
        return core
    if kind.startswith("for>"):
        return f"{{% for i in (1..2) %}}{core}{{% endfor %}}"
    if kind.startswith("tablerow>"):
        return f"{{% tablerow i in (1..2) %}}{core}{{% endtablerow %}}"
    if kind.startswith("capture>"):
        return f"{{% capture c %}}{core}{{% endcapture %}}{{{{ c }}}}"
    if kind.startswith("with>"):
        return f"{{% with z: 1 %}}{core}{{% endwith %}}"
    if kind.startswith("if>"):
        return f"{{% if true %}}{core}{{% endif %}}"
    if kind.startswith("call>"):
        return f"{{% macro m %}}{core}{{% endmacro %}}{{% call m %}}"
    if kind.startswith("block>"):
        return f"{{% block k_{a} %}}{core}{{% endblock %}}"
    if kind.startswith("extblock>"):
        extra[f"{a}_base"] = f"<{{% block k_{a} %}}d{{% endblock %}}>"
        return f"{{% extends '{a}_base' %}}{{% block k_{a} %}}{core}{{% endblock %}}"
    raise ValueError(kind)


def cycle_spec(rng: random.Random) -> dict[str, Any]:
    fam = rng.choice(["inc", "inc", "ren", "ren", "ext", "mixed-ext"])
    k = rng.randint(1, 4)
    while True:
        if fam == "ext":
            kinds = ["extends"] * k
        elif fam == "mixed-ext":
            pool = rng.choice([INC_EDGES, REN_EDGES])
            k = max(k, 2)
            kinds = ["extends"] + [rng.choice(pool[:-1]) for _ in range(k - 1)]
            rng.shuffle(kinds)
        else:
            pool = INC_EDGES if fam == "inc" else REN_EDGES
            kinds = [rng.choice(pool) for _ in range(k)]
        n_extra = sum(1 for x in kinds if x.startswith("extblock>"))
        if k + n_extra <= 4:
            break
        k = max(1, k - 1)
    if all(x == "extends" for x in kinds):
        fam = "ext"
    edges = []
    for kind in kinds:
        e: dict[str, Any] = {"kind": kind, "wraps": [], "pre": "", "post": "", "dup": False}
        if kind != "extends":
            if rng.random() < 0.45:
                e["wraps"] = [rng.choice(list(WRAPS)) for _ in range(rng.choice([1, 2, 3, 4, 6, 8, 10]))]
            if not kind.startswith("extblock>"):
                e["pre"] = rng.choice(["", "x", "é\r\n", "{{ 1 }}", "{% assign q = 1 %}"])
                e["post"] = rng.choice(["", "y", "DEAD"])
                e["dup"] = rng.random() < 0.25
        edges.append(e)
    family_inc = any("include" in x for x in kinds)
    if fam == "ext" and rng.random() < 0.4:
        entry = "extends"
    elif family_inc or (fam == "ext" and rng.random() < 0.5):
        entry = rng.choice(["include", "include-for", "for>include"])
    else:
        entry = rng.choice(["render", "render-for", "for>render", "call>render"])
    return {"entry": entry, "edges": edges}


def build_cycle(spec: dict[str, Any]) -> dict[str, Any]:
    edges = spec["edges"]
    k = len(edges)
    names = [f"t{i}" for i in range(k)]
    partials: dict[str, str] = {}
    extra: dict[str, str] = {}
    for i, e in enumerate(edges):
        a, b = names[i], names[(i + 1) % k]
        kind = e["kind"]
        src = edge(kind, a, b, extra, e["wraps"])
        if e["dup"]:
            src = src + src.replace("k_" + a, "k2_" + a).replace("macro m", "macro m2").replace("call m", "call m2")
        post = e["post"]
        if post == "DEAD":
            post = "{% if false %}{% " + ("include" if "include" in kind else "render") + f" '{b}' %}}{{% endif %}}"
        partials[a] = e["pre"] + src + post
    partials.update(extra)
    if spec["entry"] == "extends":
        root = "{% extends 't0' %}"
    else:
        root = "A" + edge(spec["entry"], "root", "t0", {}) + "Z"
    label = "+".join(sorted({e["kind"] for e in edges}))
    return {"root": root, "partials": partials, "data": {}, "cycle": label, "entry": spec["entry"],
            "n_templates": len(partials), "max_wraps": max(len(e["wraps"]) for e in edges)}


def cycle_case(rng: random.Random) -> dict[str, Any]:
    spec = cycle_spec(rng)
    case = build_cycle(spec)
    case["spec"] = spec
    return case


def cycle_family(case: dict[str, Any]) -> str:
    """Coarse, stable name of the constructs on the cycle (used in mechanism keys)."""
    text = " ".join(case["partials"].values())
    tags = [t for t in ("include", "render", "extends") if re.search(r"{%\s*" + t + r"\b", text)]
    return "+".join(tags) or "none"


def shrink_cycle(spec: dict[str, Any], failing: Callable[[dict[str, Any]], bool], budget: int = 120) -> dict[str, Any]:
    spec = copy.deepcopy(spec)
    tries = 0

    def attempt(cand: dict[str, Any]) -> bool:
        nonlocal tries
        tries += 1
        try:
            return bool(failing(cand))
        except Exception:  # noqa: BLE001
            return False

    changed = True
    while changed and tries < budget:
        changed = False
        # fewer templates on the cycle
        for i in range(len(spec["edges"])):
            if len(spec["edges"]) < 2:
                break
            cand = copy.deepcopy(spec)
            del cand["edges"][i]
            if attempt(cand):
                spec, changed = cand, True
                break
        for i, e in enumerate(spec["edges"]):
            for field, simple in (("dup", False), ("pre", ""), ("post", "")):
                if e[field] != simple and tries < budget:
                    cand = copy.deepcopy(spec)
                    cand["edges"][i][field] = simple
                    if attempt(cand):
                        spec, changed = cand, True
                        e = spec["edges"][i]
            plain = "extends" if e["kind"] == "extends" else ("include" if "include" in e["kind"] else "render")
            if e["kind"] != plain and tries < budget:
                cand = copy.deepcopy(spec)
                cand["edges"][i]["kind"] = plain
                if attempt(cand):
                    spec, changed = cand, True
                    e = spec["edges"][i]
            j = 0
            while j < len(spec["edges"][i]["wraps"]) and tries < budget:
                cand = copy.deepcopy(spec)
                del cand["edges"][i]["wraps"][j]
                if attempt(cand):
                    spec, changed = cand, True
                else:
                    j += 1
            # uniform wrappers read better
            ws = spec["edges"][i]["wraps"]
            if ws and any(w != "if" for w in ws) and tries < budget:
                cand = copy.deepcopy(spec)
                cand["edges"][i]["wraps"] = ["if"] * len(ws)
                if attempt(cand):
                    spec, changed = cand, True
        ent = spec["entry"]
        plain = "extends" if ent == "extends" else ("include" if "include" in ent else "render")
        if ent != plain and tries < budget:
            cand = copy.deepcopy(spec)
            cand["entry"] = plain
            if attempt(cand):
                spec, changed = cand, True
    return spec


def chain_case(rng: random.Random, depth: int) -> dict[str, Any]:
    fam = rng.choice(["inc", "ren"])
    pool = [x for x in (INC_EDGES if fam == "inc" else REN_EDGES) if x != "extends"]
    kinds = [rng.choice(pool) for _ in range(depth)]
    names = [f"t{i}" for i in range(depth + 1)]
    partials: dict[str, str] = {}
    extra: dict[str, str] = {}
    for i, kind in enumerate(kinds):
        src = edge(kind, names[i], names[i + 1], extra)
        if not kind.startswith("extblock>"):
            src = rng.choice(["", "a", "é"]) + src + rng.choice(["", "b"])
        partials[names[i]] = src
    partials[names[depth]] = rng.choice(["leaf", "{{ 'L' }}", "é\n"])
    partials.update(extra)
    entry = "include" if fam == "inc" else "render"
    root = "[" + edge(entry, "root", "t0", {}) + "]"
    return {"root": root, "partials": partials, "data": {}, "chain": "+".join(sorted(set(kinds))),
            "depth": depth}
