"""C16 workload (b): small purpose-built programs over a fixed, fully known data set.

Every *total* fragment below is resolvable in BASE by construction, so a program built
only from total fragments rendered against undeleted BASE is "complete data".  Fragments
in MISSING can never resolve.  Statements carry a *kind* label (diagnostic only; the
mechanism key is computed from the minimised source text).
"""

from __future__ import annotations

import copy
import random
from typing import Any

BASE: dict[str, Any] = {
    "s": "hello",
    "n": 3,
    "z": 0,
    "f": False,
    "t": True,
    "nl": None,
    "e": "",
    "arr": [1, 2, 3],
    "strs": ["b", "a", "c"],
    "earr": [],
    "mixed": [None, False, 0, "", "x"],
    "nils": [None, 0],
    "falses": [False, ""],
    "objs": [
        {"k": 1, "v": "x", "t": True},
        {"k": 2, "v": "y", "t": False},
        {"k": 3, "v": "x", "t": True},
    ],
    "h": {"a": {"b": {"c": "deep"}}, "k": "v", "list": [10, 20], "n": 5},
    "idx": 1,
    "key": "k",
    "pname": "p_use",
    "user": {"name": "Ann", "tags": ["x", "y"], "admin": False},
    "dt": "2021-03-05 15:00:00",
    # only the short-circuit forms mention `b`, so it can be deleted without making any
    # other statement of a program incomplete
    "b": {"name": "Bob", "tags": ["x"], "n": 1, "k": 1},
}

# Context names the babel filters look up *themselves* when present (they are not
# referenced by the template): a program stays "complete" whether or not they are given.
OPTIONAL: dict[str, Any] = {
    "locale": "de",
    "input_locale": "en_US",
    "currency_code": "EUR",
    "currency_format": "#,##0.00 \u00a4",
    "timezone": "Europe/Paris",
    "input_timezone": "UTC",
    "datetime_format": "short",
    "decimal_quantization": False,
    "decimal_format": "#,##0.0",
    "unit_length": "long",
    "unit_format": "#,##0.0",
}

BABEL: list[tuple[str, str]] = [
    ("babel:currency", "{{ n | currency }}"),
    ("babel:money", "{{ h.n | money }}"),
    ("babel:money_with_currency", "{{ 1234.5 | money_with_currency }}"),
    ("babel:money_without_currency", "{{ '1,234.50' | money_without_currency }}"),
    ("babel:money_without_trailing_zeros", "{{ n | money_without_trailing_zeros }}"),
    ("babel:currency-kw", "{{ n | currency: group_separator: false }}"),
    ("babel:decimal", "{{ 1234.5 | decimal }}"),
    ("babel:decimal-kw", "{{ '1,234.5' | decimal: group_separator: false }}"),
    ("babel:datetime", "{{ dt | datetime }}"),
    ("babel:datetime-format", "{{ dt | datetime: format: 'short' }}"),
    ("babel:unit", "{{ n | unit: 'length-meter' }}"),
    ("babel:unit-length", "{{ n | unit: 'length-meter', length: 'long' }}"),
    ("babel:unit-compound", "{{ n | unit: 'length-kilometer', denominator_unit: 'duration-hour' }}"),
    ("babel:unit-denominator", "{{ n | unit: 'length-kilometer', denominator: 2, denominator_unit: 'duration-hour', length: 'short' }}"),
    ("babel:unit-format", "{{ n | unit: 'length-meter', format: '#.0' }}"),
    ("babel:assign", "{% assign p = h.n | currency %}[{{ p }}]"),
    ("babel:for", "{% for x in arr %}{{ x | decimal }} {% endfor %}"),
    ("babel:for-money", "{% for x in h.list %}{{ x | money }};{% endfor %}"),
    ("babel:if", "{% if t %}{{ idx | currency }}{% endif %}"),
    ("babel:chain", "{{ n | plus: 1 | money_with_currency | upcase }}"),
    ("babel:render", "{% render 'p_money', x: n %}"),
    ("babel:include", "{% include 'p_money', x: h.n %}"),
    ("babel:template-string", "{{ \"cost ${n | currency}\" }}"),
    ("babel:ternary", "{{ n | currency if t else z | decimal }}"),
    ("i18n:t", "{{ 'Hello %(who)s' | t: who: s }}"),
    ("i18n:t-plural", "{{ 'one %(count)s' | t: plural: 'many %(count)s', count: n }}"),
    ("i18n:gettext", "{{ s | gettext }}"),
    ("i18n:ngettext", "{{ 'one' | ngettext: 'many', n }}"),
    ("i18n:pgettext", "{{ s | pgettext: 'ctx' }}"),
    ("i18n:npgettext", "{{ 'one' | npgettext: 'ctx', 'many', n }}"),
    ("i18n:translate-tag", "{% translate who: s, count: n %}Hi %(who)s{% plural %}Hi all %(who)s{% endtranslate %}"),
]
BABEL_INPUT: list[tuple[str, str]] = [
    ("filter:currency", "{{ {P} | currency }}"),
    ("filter:money", "{{ {P} | money }}"),
    ("filter:decimal", "{{ {P} | decimal }}"),
    ("filter:datetime", "{{ {P} | datetime }}"),
    ("filter:unit", "{{ {P} | unit: 'length-meter', length: 'short' }}"),
    ("filter-arg:unit", "{{ n | unit: {P} }}"),
    ("filter-arg:unit-length", "{{ n | unit: 'length-meter', length: {P} }}"),
    ("filter-arg:datetime-format", "{{ dt | datetime: format: {P} }}"),
    ("filter-arg:t", "{{ 'Hello %(who)s' | t: who: {P} }}"),
    ("filter:t", "{{ {P} | t }}"),
    ("filter-arg:ngettext", "{{ 'one' | ngettext: 'many', {P} }}"),
]

PARTIALS: dict[str, str] = {
    "p_use": "[{{ x }}]",
    "p_nouse": "[static]",
    "p_truthy": "[{% if x %}y{% else %}n{% endif %}]",
    "p_default": "[{{ x | default: 'd' }}]",
    "p_for": "[{% for i in x %}{{ i }}{% else %}-{% endfor %}]",
    "p_eq": "[{% if x == nil %}nil{% else %}val{% endif %}]",
    "p_glob": "[{{ s }}{{ h.k }}]",
    "p_money": "[{{ x | money }}|{{ x | unit: 'mass-gram', length: 'short' }}]",
}

# expressions that resolve in BASE -----------------------------------------------------
SCALARS = [
    "s", "n", "z", "f", "t", "e", "nl", "h.k", "h.n", "h.a.b.c", "h['k']", "h[key]",
    "arr[0]", "arr[idx]", "arr[-1]", "h.list[1]", "objs[0].k", "objs[idx].v", "user.name",
    "user.admin", "arr.size", "arr.first", "strs.last", "s.size", "h.size",
    "user.tags.first", "user.tags[1]", "idx", "key", "h. a. b. c", "h[ 'a' ].b",
    "objs.first.v", "objs.last.k", "h.list.size",
]
ARRAYS = ["arr", "strs", "objs", "h.list", "user.tags", "earr", "mixed", "nils", "falses"]
NONEMPTY = ["arr", "strs", "objs", "h.list", "user.tags", "mixed", "nils", "falses"]
HASHES = ["h", "user", "h.a", "h.a.b", "objs[0]"]
# expressions that can never resolve -------------------------------------------------------
MISSING = [
    "nosuch", "nosuch.x.y", "arr[9]", "arr[-9]", "h.zz", "h.a.zz.c", "h[nosuch]",
    "arr[nosuch]", "s.zz", "n.size", "earr.first", "earr.last", "nl.x", "h.list[5]",
    "objs[7].k", "user['nope']", "h.last", "n.first", "arr['x']", "f.x",
]

LITS = ["'lit'", "1", "0", "true", "false", "nil", "''", "2.5"]

# filters: (text with {P} as the undefined-able operand, kind)
FILTER_FORMS = [
    "{P} | upcase", "{P} | downcase", "{P} | capitalize", "{P} | strip", "{P} | size",
    "{P} | first", "{P} | last", "{P} | join: ','", "{P} | reverse | join: ','",
    "{P} | sort | join: ','", "{P} | uniq | join: ','", "{P} | compact | join: ','",
    "{P} | abs", "{P} | plus: 1", "{P} | minus: {Q}", "{P} | times: 2", "{P} | divided_by: 2",
    "{P} | modulo: 2", "{P} | round", "{P} | round: {Q}", "{P} | ceil", "{P} | floor",
    "{P} | at_least: 1", "{P} | at_most: {Q}", "{P} | append: 'x'", "{P} | prepend: {Q}",
    "'x' | append: {P}", "'a,b' | split: {P} | join: '#'", "{A} | join: {P}",
    "{P} | split: ',' | join: '-'", "{P} | replace: 'l', 'L'", "'hello' | replace: {P}, 'L'",
    "'hello' | replace: 'l', {P}", "{P} | remove: 'l'", "'hello' | remove: {P}",
    "{P} | truncate: 3", "'hello' | truncate: {P}", "'hello world' | truncatewords: {P}",
    "{P} | slice: 0, 2", "'hello' | slice: {P}", "'hello' | slice: 1, {P}",
    "{P} | escape", "{P} | url_encode", "{P} | strip_html", "{P} | newline_to_br",
    "{P} | json", "{P} | date: '%Y'", "'2020-01-02' | date: {P}", "{P} | concat: {A} | join: ','",
    "{A} | concat: {P} | join: ','", "{P} | map: 'k' | join: ','", "{A} | map: {P} | join: ','",
    "{P} | where: 'k' | size", "{A} | where: 'k', {P} | size", "{A} | where: {P} | size",
    "{P} | sum", "{A} | sum: {P}", "{P} | sort: 'k' | map: 'k' | join: ','",
    "{A} | sort: {P} | size", "{P} | sort_natural | join: ','", "{P} | sort_numeric | join: ','",
    "{P} | find: 'k', 2", "{A} | find: 'k', {P}", "{A} | find_index: 'k', {P}",
    "{A} | has: 'k', {P}", "{P} | has: 'k'", "{A} | reject: 'k', {P} | size",
    "{P} | default: 'd'", "{P} | default: {Q}", "{P} | default: 'd', allow_false: true",
    "f | default: {P}", "f | default: 'd', allow_false: {P}", "{P} | default: 'd' | upcase",
    "{P} | default", "{P} | safe", "{P} | lstrip | rstrip", "{P} | strip_newlines",
    "{P} | url_decode", "{P} | escape_once", "{P} | remove_first: 'l' | remove_last: 'l'",
    "{P} | replace_first: 'l', {Q}", "{P} | compact: 'k' | size", "{P} | uniq: 'v' | size",
]

LAMBDA_FORMS = [
    "{O} | map: i => i.k | join: ','",
    "{A} | map: i => i.zz | join: ','",
    "{O} | where: i => i.t | size",
    "{A} | where: i => i.zz | size",
    "{O} | where: i => i.k == {P} | size",
    "{O} | reject: i => i.t | size",
    "{A} | reject: i => i.zz | size",
    "{O} | find: i => i.k == {P}",
    "{A} | find: i => i.zz",
    "{O} | find_index: i => i.v == {P}",
    "{O} | has: i => i.k > 1",
    "{A} | has: i => i.zz",
    "{O} | sort: i => i.k | map: 'k' | join: ','",
    "{A} | sort: i => i.zz | size",
    "{O} | sort_natural: i => i.v | size",
    "{O} | sort_numeric: i => i.k | size",
    "{O} | uniq: i => i.v | size",
    "{A} | uniq: i => i.zz | size",
    "{O} | compact: i => i.v | size",
    "{A} | compact: i => i.zz | size",
    "{O} | sum: i => i.k",
    "{A} | sum: i => i.zz",
    "{A} | map: (i, j) => {P} | join: ','",
    "(1..3) | where: i => i.nosuchthing | join: '#'",
    "(1..{P}) | map: i => i | join: ','",
]

CONDS = [
    ("if-truthy", "{P}"),
    ("if-eq-nil", "{P} == nil"),
    ("if-ne-nil", "{P} != nil"),
    ("if-nil-eq", "nil == {P}"),
    ("if-eq", "{P} == {Q}"),
    ("if-ne", "{P} != {Q}"),
    ("if-eq-lit", "{P} == {L}"),
    ("if-eq-empty", "{P} == empty"),
    ("if-eq-blank", "{P} == blank"),
    ("if-eq-false", "{P} == false"),
    ("if-or", "{P} or {Q}"),
    ("if-and", "{P} and {Q}"),
    ("if-not", "not {P}"),
    ("if-not-paren", "(not {P}) or {Q}"),
    ("if-lt", "{P} < 3"),
    ("if-gt", "{P} > {Q}"),
    ("if-le", "{P} <= {Q}"),
    ("if-ge", "2 >= {P}"),
    ("if-contains", "{P} contains 'x'"),
    ("if-contains-arg", "{A} contains {P}"),
    ("if-str-contains-arg", "s contains {P}"),
    ("if-in", "'x' in {P}"),
    ("if-in-arg", "{P} in {A}"),
    ("if-short-circuit-or", "t or {P}"),
    ("if-short-circuit-and", "f and {P}"),
    ("!if-eq-size", "{P}.size == 0"),
]

STMTS: list[tuple[str, str]] = [
    ("output", "{{ {P} }}"),
    ("output", "{{ {P} }}"),
    ("echo", "{% echo {P} %}"),
    ("output-array-literal", "{{ {P}, {Q} | join: '+' }}"),
    ("output-range", "{{ (1..{P}) | join: ',' }}"),
    ("output-range", "{{ ({P}..3) | join: ',' }}"),
    ("unless", "{% unless {P} %}u{% else %}v{% endunless %}"),
    ("elsif", "{% if f %}a{% elsif {P} %}b{% else %}c{% endif %}"),
    ("dead-branch", "{% if f %}{{ {P} }}{% endif %}"),
    ("dead-else", "{% if t %}x{% else %}{{ {P} | upcase }}{% endif %}"),
    ("for", "{% for x in {P} %}{{ x }}{% else %}none{% endfor %}"),
    ("for", "{% for x in {A} %}{{ x }},{% endfor %}"),
    ("for-item-prop", "{% for x in {A} %}{{ x.k }}{{ x.zz }}{% endfor %}"),
    ("for-item-default", "{% for x in {O} %}{{ x.v | default: '?' }}{% endfor %}"),
    ("for-limit", "{% for x in {A} limit: {P} %}{{ x }}{% endfor %}"),
    ("for-offset", "{% for x in {A} offset: {P} %}{{ x }}{% endfor %}"),
    ("for-range", "{% for x in (1..{P}) %}{{ x }}{% endfor %}"),
    ("for-reversed", "{% for x in {P} reversed %}{{ x }}{% endfor %}"),
    ("for-forloop", "{% for x in {A} %}{{ forloop.index }}{{ forloop.parentloop.index }}{% endfor %}"),
    ("for-parentloop", "{% for x in {A} %}{% if forloop.parentloop %}p{% endif %}{% endfor %}"),
    ("for-array-literal", "{% for x in {P}, {Q} %}[{{ x }}]{% endfor %}"),
    ("tablerow", "{% tablerow x in {P} cols: 2 %}{{ x }}{% endtablerow %}"),
    ("tablerow-cols", "{% tablerow x in {A} cols: {P} %}{{ x }}{% endtablerow %}"),
    ("case", "{% case {P} %}{% when 1 %}one{% when 'hello' %}hi{% else %}other{% endcase %}"),
    ("case-when", "{% case 1 %}{% when {P} %}m{% when {Q}, 1 %}n{% else %}o{% endcase %}"),
    ("case-nil", "{% case {P} %}{% when nil %}nil{% when false %}F{% else %}o{% endcase %}"),
    ("ternary", "{{ {P} if {Q} else {R} }}"),
    ("ternary-no-else", "{{ 'a' if {P} }}"),
    ("ternary-cond", "{{ 'a' if {P} else 'b' }}"),
    ("ternary-dead", "{{ 'a' if t else {P} }}"),
    ("ternary-filters", "{{ {P} | upcase if {Q} else {R} | downcase || append: '!' }}"),
    ("ternary-default", "{{ {P} if {P} else 'dflt' }}"),
    ("assign-unused", "{% assign v = {P} %}"),
    ("assign-used", "{% assign v = {P} %}{{ v }}"),
    ("assign-default", "{% assign v = {P} | default: 1 %}{{ v }}"),
    ("assign-truthy", "{% assign v = {P} %}{% if v %}y{% else %}n{% endif %}"),
    ("!assign-prop", "{% assign v = {P} %}{{ v.x }}"),
    ("assign-for", "{% assign v = {P} %}{% for i in v %}{{ i }}{% endfor %}"),
    ("assign-filter-arg", "{% assign v = {P} %}{{ 'x' | append: v }}"),
    ("array-literal-contains", "{% assign v = {P}, {Q} %}{% if v contains nil %}T{% else %}F{% endif %}"),
    ("array-literal-contains-false", "{% assign v = {P}, 1 %}{% if v contains false %}T{% else %}F{% endif %}"),
    ("array-literal-in", "{% assign v = {P}, {Q} %}{% if {R} in v %}T{% else %}F{% endif %}"),
    ("array-literal-compact", "{% assign v = {P}, {Q}, 1 %}{{ v | compact | size }}"),
    ("array-literal-uniq", "{% assign v = {P}, {Q}, 1 %}{{ v | uniq | size }}"),
    ("array-literal-sort", "{% assign v = {P}, 'b', 'a' %}{{ v | sort | size }}"),
    ("array-literal-first", "{% assign v = {P}, 1 %}{{ v | first | default: 'd' }}{{ v | last }}{{ v.size }}"),
    ("array-literal-json", "{% assign v = {P}, 1 %}{{ v | json }}"),
    ("array-literal-sum", "{% assign v = {P}, 1 %}{{ v | sum }}"),
    ("array-literal-where", "{% assign v = {P}, {H} %}{{ v | where: 'k' | size }}{{ v | map: 'k' | join: ',' }}"),
    ("array-literal-find", "{% assign v = {P}, {H} %}{{ v | find: 'k', 'v' | size }}{{ v | has: 'k' }}"),
    ("array-literal-eq", "{% assign v = {P}, 1 %}{% assign w = {Q}, 1 %}{% if v == w %}T{% else %}F{% endif %}"),
    ("array-literal-for-if", "{% for x in {P}, {Q}, f %}{% if x %}y{% else %}n{% endif %}{% endfor %}"),
    ("array-literal-concat", "{% assign v = {P}, 1 %}{{ {A} | concat: v | size }}"),
    ("hash-eq", "{% if {H} == {P} %}T{% else %}F{% endif %}"),
    ("array-eq", "{% if {A} == {P} %}T{% else %}F{% endif %}{% if {P} != {A} %}T{% else %}F{% endif %}"),
    ("capture", "{% capture c %}{{ {P} }}{% endcapture %}{{ c }}"),
    ("capture-default", "{% capture c %}{{ {P} | default: 'd' }}{% endcapture %}[{{ c }}]"),
    ("include-with", "{% include 'p_use' with {P} as x %}"),
    ("include-kw", "{% include 'p_use', x: {P} %}"),
    ("include-kw-nouse", "{% include 'p_nouse', x: {P} %}"),
    ("include-kw-truthy", "{% include 'p_truthy', x: {P} %}"),
    ("include-kw-default", "{% include 'p_default', x: {P} %}"),
    ("include-kw-eq", "{% include 'p_eq', x: {P} %}"),
    ("include-for", "{% include 'p_use' for {P} as x %}"),
    ("include-dynamic", "{% include pname, x: {P} %}"),
    ("include-glob", "{% include 'p_glob' %}"),
    ("render-with", "{% render 'p_use' with {P} as x %}"),
    ("render-kw", "{% render 'p_use', x: {P} %}"),
    ("render-kw-nouse", "{% render 'p_nouse', x: {P} %}"),
    ("render-kw-truthy", "{% render 'p_truthy', x: {P} %}"),
    ("render-kw-default", "{% render 'p_default', x: {P} %}"),
    ("render-kw-for", "{% render 'p_for', x: {P} %}"),
    ("render-for", "{% render 'p_use' for {P} as x %}"),
    ("render-glob", "{% render 'p_glob' %}"),
    ("template-string", "{{ \"a${{P}}b\" }}"),
    ("template-string", "{{ 'x${{P} | default: 1}y' }}"),
    ("template-string-arg", "{{ s | append: \"-${{P}}\" }}"),
    ("template-string-if", "{% if \"${{P}}\" == '' %}blank{% else %}set{% endif %}"),
    ("with", "{% with x: {P}, y: {Q} %}{{ x }}{% endwith %}"),
    ("with-unused", "{% with x: {P} %}static{% endwith %}"),
    ("with-default", "{% with x: {P} %}{{ x | default: 'w' }}{% endwith %}"),
    ("macro-missing-arg", "{% macro m a, b %}[{{ a }}{% if b %}{{ b }}{% endif %}]{% endmacro %}{% call m {P} %}"),
    ("macro-arg-default", "{% macro m a, b: {P} %}[{{ a }}{{ b | default: 'k' }}]{% endmacro %}{% call m 1 %}"),
    ("macro-unused-arg", "{% macro m a, b %}[{{ a }}]{% endmacro %}{% call m 1, {P} %}"),
    ("macro-kwargs", "{% macro m a %}[{{ a }}{{ kwargs.z }}{{ args | size }}]{% endmacro %}{% call m 1, 2, z: {P} %}"),
    ("call-undefined-macro", "{% call nomacro {P} %}"),
    ("cycle", "{% cycle {P}, {Q} %}{% cycle {P}, {Q} %}"),
    ("cycle-group", "{% cycle 'g': {P}, 'b' %}{% cycle 'g': {P}, 'b' %}"),
    ("increment", "{% increment cnt %}{{ cnt }}{% decrement cnt %}"),
    ("liquid-tag", "{% liquid\nassign v = {P}\nif v\necho v\nendif %}"),
    ("liquid-echo", "{% liquid\necho {P} | default: 'z'\necho {Q} %}"),
    ("translate", "{% translate x: {P} %}Hi %(x)s{% endtranslate %}"),
    ("!nested-index", "{{ h[{P}] }}"),
    ("!nested-index", "{{ arr[{P}] }}"),
    ("!nested-index-deep", "{{ h[{P}].b.c }}"),
    ("!nested-index-str", "{{ objs[{P}][key] }}"),
    ("prop-of", "{{ {H}.size }}{{ {N}.first }}{{ {N}.last }}{{ {A}.size }}"),
    ("!prop-of", "{{ {P}.size }}"),
    ("!prop-of", "{{ {P}.first }}"),
    ("nested-index-safe", "{{ h[key] }}{{ arr[idx] }}{{ objs[idx][key] }}{{ h['a']['b'].c }}"),
    ("prop-of-safe", "{{ {N}.first }}{{ {H}.size }}{{ s.size }}{{ {N}.last | default: 'x' }}"),
    ("assign-prop-safe", "{% assign v = {H} %}{{ v.size }}{% assign w = objs[0] %}{{ w.k }}"),
    ("raw-comment", "{% raw %}{{ nosuch }}{% endraw %}{% comment %}{{ nosuch }}{% endcomment %}{# {{ nosuch }} #}"),
]
for _f in FILTER_FORMS:
    STMTS.append((("filter:" if _f.startswith("{P} |") else "filter-arg:")
                  + _f.split("|")[1].split(":")[0].strip(), "{{ " + _f + " }}"))
for _f in LAMBDA_FORMS:
    STMTS.append(("lambda:" + _f.split("|")[1].split(":")[0].strip(), "{{ " + _f + " }}"))
for _k, _c in CONDS:
    STMTS.append((_k, "{% if " + _c + " %}T{% else %}F{% endif %}"))
    if _k in ("if-or", "if-and", "if-eq", "if-truthy", "if-eq-nil", "if-not"):
        STMTS.append(("ternary-" + _k, "{{ 'T' if " + _c + " else 'F' }}"))

# `empty` / `blank` in argument position are variable paths (see sweep()): missing variables
KEYWORD_ARGS: list[tuple[str, str]] = [
    ("keyword-arg:append-empty", "{{ s | append: empty }}"),
    ("keyword-arg:append-blank", "{{ s | append: blank }}"),
    ("keyword-arg:default-empty", "{{ nl | default: empty }}|{{ e | default: blank }}"),
    ("keyword-arg:join-blank", "{{ arr | join: blank }}"),
    ("keyword-arg:kw", "{% render 'p_use', x: empty %}{% with a: blank %}{{ a }}{% endwith %}"),
]
STMTS.extend(BABEL)
STMTS.extend(BABEL_INPUT)

SEPS = ["", ";", " | ", "\n", "<br>"]


def _pick(rng: random.Random, total: bool, p_missing: float) -> str:
    if not total and rng.random() < p_missing:
        return rng.choice(MISSING)
    r = rng.random()
    if r < 0.6:
        return rng.choice(SCALARS)
    if r < 0.85:
        return rng.choice(ARRAYS)
    return rng.choice(HASHES)


def fill(rng: random.Random, tpl: str, total: bool, p_missing: float = 0.3) -> str:
    out = tpl
    # "${{P}}" in template strings: the doubled braces are literal
    out = out.replace("${{P}}", "${\x00P\x01}")
    for slot in ("{P}", "{Q}", "{R}"):
        while slot in out:
            out = out.replace(slot, _pick(rng, total, p_missing), 1)
    while "\x00P\x01" in out:
        out = out.replace("\x00P\x01", _pick(rng, total, p_missing), 1)
    while "{A}" in out:
        out = out.replace("{A}", rng.choice(ARRAYS), 1)
    while "{N}" in out:
        out = out.replace("{N}", rng.choice(NONEMPTY), 1)
    while "{O}" in out:
        out = out.replace("{O}", "objs" if total or rng.random() < 0.6 else rng.choice(ARRAYS), 1)
    while "{H}" in out:
        out = out.replace("{H}", rng.choice(HASHES), 1)
    while "{L}" in out:
        out = out.replace("{L}", rng.choice(LITS), 1)
    return out


def inherently_incomplete(kind: str, text: str) -> bool:
    """Statements that reference something no data could supply."""
    return (
        ".zz" in text
        or "nosuchthing" in text
        or "parentloop" in text
        or kind in ("macro-missing-arg", "call-undefined-macro", "macro-kwargs")
    )


def program(rng: random.Random, total: bool) -> tuple[list[tuple[str, str]], bool]:
    """Return ([(kind, statement text)], complete?)"""
    n = rng.choice((1, 1, 1, 2, 2, 3))
    stmts: list[tuple[str, str]] = []
    complete = total
    while len(stmts) < n:
        kind, tpl = rng.choice(STMTS)
        text = fill(rng, tpl, total)
        if kind.startswith("!") or inherently_incomplete(kind, text):
            if total:
                continue
            complete = False
        stmts.append((kind, text))
    return stmts, complete


def join(rng: random.Random, stmts: list[tuple[str, str]]) -> str:
    sep = rng.choice(SEPS)
    return sep.join(t for _, t in stmts)


def base_data() -> dict[str, Any]:
    return copy.deepcopy(BASE)


# ---------------------------------------------------------------------------------------
# "not used" forms: the only missing thing is {M}; by the property's own wording (fails
# only if it *actually uses* ...) and by the docs (migration.md: "StrictUndefined now plays
# nicely with the default filter"; variables_and_drops.md: FalsyStrictUndefined "can be
# tested for truthiness and equality without raising") the named policies must not raise.
# ---------------------------------------------------------------------------------------
SIMPLE_MISSING = ["nosuch", "nosuch.x.y", "arr[9]", "arr[-9]", "h.zz", "h.a.zz.c", "s.zz",
                  "earr.first", "nl.x", "h.list[5]", "objs[7].k", "user['nope']", "n.size"]

NOUSE: list[tuple[str, str]] = [
    ("nouse:assign", "{% assign v = {M} %}ok"),
    ("nouse:assign-then-default", "{% assign v = {M} %}{{ v | default: 'd' }}"),
    ("nouse:dead-branch", "{% if f %}{{ {M} }}{% endif %}ok"),
    ("nouse:dead-else", "{% if t %}x{% else %}{{ {M} | upcase }}{% endif %}"),
    ("nouse:dead-elsif", "{% if t %}x{% elsif {M} %}y{% endif %}"),
    ("nouse:ternary-dead-else", "{{ 'a' if t else {M} }}"),
    ("nouse:ternary-dead-then", "{{ {M} if f else 'b' }}"),
    ("nouse:short-circuit-or", "{% if t or {M} %}T{% endif %}"),
    ("nouse:short-circuit-and", "{% if f and {M} %}T{% else %}F{% endif %}"),
    ("nouse:include-kw", "{% include 'p_nouse', x: {M} %}"),
    ("nouse:render-kw", "{% render 'p_nouse', x: {M} %}"),
    ("nouse:include-with", "{% include 'p_nouse' with {M} as x %}"),
    ("nouse:render-with", "{% render 'p_nouse' with {M} as x %}"),
    ("nouse:with", "{% with x: {M} %}static{% endwith %}"),
    ("nouse:macro-arg", "{% macro m a, b %}[{{ a }}]{% endmacro %}{% call m 1, {M} %}"),
    ("nouse:macro-kwarg", "{% macro m a %}[{{ a }}]{% endmacro %}{% call m 1, z: {M} %}"),
    ("nouse:macro-default", "{% macro m a, b: {M} %}[{{ a }}]{% endmacro %}{% call m 1 %}"),
    ("nouse:macro-missing", "{% macro m a, b %}[{{ a }}]{% endmacro %}{% call m 1 %}"),
    ("nouse:default-arg", "{{ s | default: {M} }}"),
    ("nouse:default-arg-num", "{{ z | default: {M} }}"),
    ("nouse:default-arg-allow-false", "{{ f | default: {M}, allow_false: true }}"),
    ("nouse:default-input", "{{ {M} | default: 'd' }}"),
    ("nouse:default-input-allow-false", "{{ {M} | default: 'd', allow_false: true }}"),
    ("nouse:default-input-chain", "{{ {M} | default: {M} | default: 'e' | upcase }}"),
    ("nouse:default-in-partial", "{% render 'p_default', x: {M} %}"),
    ("nouse:default-in-include", "{% include 'p_default', x: {M} %}"),
    ("nouse:default-assign", "{% assign v = {M} | default: 1 %}{{ v }}"),
    ("nouse:default-template-string", "{{ 'x${{M} | default: 1}y' }}"),
    ("nouse:default-liquid-tag", "{% liquid\necho {M} | default: 'z' %}"),
    ("nouse:for-else-unreached", "{% for x in arr %}{{ x }}{% else %}{{ {M} }}{% endfor %}"),
    ("nouse:for-empty-body", "{% for x in earr %}{{ {M} }}{% endfor %}ok"),
    ("nouse:case-unmatched", "{% case 1 %}{% when 2 %}{{ {M} }}{% else %}e{% endcase %}"),
    ("nouse:comment", "{% comment %}{{ {M} }}{% endcomment %}{# {{ {M} }} #}{% raw %}{{ {M} }}{% endraw %}"),
]

FALSY_NOUSE: list[tuple[str, str]] = [
    ("falsy-nouse:if", "{% if {M} %}T{% else %}F{% endif %}"),
    ("falsy-nouse:unless", "{% unless {M} %}T{% else %}F{% endunless %}"),
    ("falsy-nouse:elsif", "{% if f %}a{% elsif {M} %}b{% else %}c{% endif %}"),
    ("falsy-nouse:eq-nil", "{% if {M} == nil %}T{% else %}F{% endif %}"),
    ("falsy-nouse:nil-eq", "{% if nil == {M} %}T{% else %}F{% endif %}"),
    ("falsy-nouse:ne-nil", "{% if {M} != nil %}T{% else %}F{% endif %}"),
    ("falsy-nouse:eq-lit", "{% if {M} == {L} %}T{% else %}F{% endif %}"),
    ("falsy-nouse:eq-var", "{% if {M} == {P} %}T{% else %}F{% endif %}"),
    ("falsy-nouse:eq-missing", "{% if {M} == {M} %}T{% else %}F{% endif %}"),
    ("falsy-nouse:ne-var", "{% if {P} != {M} %}T{% else %}F{% endif %}"),
    ("falsy-nouse:eq-false", "{% if {M} == false %}T{% else %}F{% endif %}"),
    ("falsy-nouse:eq-empty", "{% if {M} == empty %}T{% else %}F{% endif %}"),
    ("falsy-nouse:eq-blank", "{% if {M} == blank %}T{% else %}F{% endif %}"),
    ("falsy-nouse:or", "{% if {M} or f %}T{% else %}F{% endif %}"),
    ("falsy-nouse:and", "{% if t and {M} %}T{% else %}F{% endif %}"),
    ("falsy-nouse:not", "{% if not {M} %}T{% else %}F{% endif %}"),
    ("falsy-nouse:ternary", "{{ 'a' if {M} else 'b' }}"),
    ("falsy-nouse:ternary-eq", "{{ 'a' if {M} == 1 else 'b' }}"),
    ("falsy-nouse:case", "{% case {M} %}{% when 1 %}one{% when nil %}nil{% else %}o{% endcase %}"),
    ("falsy-nouse:when", "{% case 1 %}{% when {M} %}m{% else %}o{% endcase %}"),
    ("falsy-nouse:assign-if", "{% assign v = {M} %}{% if v %}y{% else %}n{% endif %}"),
    ("falsy-nouse:partial-truthy", "{% render 'p_truthy', x: {M} %}"),
    ("falsy-nouse:partial-eq", "{% include 'p_eq', x: {M} %}"),
    ("falsy-nouse:default-then-if", "{% assign v = {M} | default: false %}{% if v %}y{% else %}n{% endif %}"),
]


# Short circuit: the LEFT operand decides, so the right one (a comparison / membership /
# size test that would have to touch its operand) is never evaluated and a variable that
# occurs only there is not used -- in render() and in render_async() alike.
SC_RIGHT = [
    "b == 1", "b.size == 0", "b.tags contains 'x'", "b[key] == 1", "b < 3", "'x' in b.tags",
    "b.name != 'Bob'", "b.tags.first == 'x'", "b.n >= n", "b.tags.size > 1", "b.k == h.n",
    "b.name contains s", "b[key] <= idx",
]
SC_RIGHT_LAMBDA = ["b[i.v] == 1", "b.tags contains i.v", "b.n < i.k", "b == i"]
SC_FORMS: list[tuple[str, str]] = [
    ("nouse:sc-or", "{% if t or {C} %}T{% else %}F{% endif %}"),
    ("nouse:sc-and", "{% if f and {C} %}T{% else %}F{% endif %}"),
    ("nouse:sc-or-cmp-left", "{% if s == 'hello' or {C} %}T{% else %}F{% endif %}"),
    ("nouse:sc-and-cmp-left", "{% if n > 5 and {C} %}T{% else %}F{% endif %}"),
    ("nouse:sc-or-contains-left", "{% if arr contains 2 or {C} %}T{% else %}F{% endif %}"),
    ("nouse:sc-unless", "{% unless t or {C} %}T{% else %}F{% endunless %}"),
    ("nouse:sc-unless-and", "{% unless f and {C} %}T{% else %}F{% endunless %}"),
    ("nouse:sc-elsif", "{% if f %}a{% elsif t or {C} %}b{% else %}c{% endif %}"),
    ("nouse:sc-elsif-and", "{% if f %}a{% elsif f and {C} %}b{% else %}c{% endif %}"),
    ("nouse:sc-ternary-or", "{{ 'a' if t or {C} else 'b' }}"),
    ("nouse:sc-ternary-and", "{{ 'a' if f and {C} else 'b' }}"),
    ("nouse:sc-nested-or", "{% if t or ({C} and {C}) %}T{% else %}F{% endif %}"),
    ("nouse:sc-nested-and", "{% if f and ({C} or {C}) %}T{% else %}F{% endif %}"),
    ("nouse:sc-nested-left", "{% if (f and {C}) or t %}T{% else %}F{% endif %}"),
    ("nouse:sc-not-left", "{% if (not f) or {C} %}T{% else %}F{% endif %}"),
    ("nouse:sc-not-right", "{% if t or (not {C}) %}T{% else %}F{% endif %}"),
    ("nouse:sc-chain-or", "{% if t or {C} or {C} %}T{% else %}F{% endif %}"),
    ("nouse:sc-chain-and", "{% if f and {C} and {C} %}T{% else %}F{% endif %}"),
    ("nouse:sc-mixed", "{% if f and {C} or t %}T{% else %}F{% endif %}"),
    ("nouse:sc-liquid-tag", "{% liquid\nif t or {C}\necho 'T'\nendif %}"),
    ("nouse:sc-in-loop", "{% for x in arr %}{% if x or {C} %}{{ x }}{% endif %}{% endfor %}"),
    ("nouse:sc-in-partial", "{% render 'p_sc', x: t %}"),
    ("nouse:sc-lambda-or", "{{ objs | where: i => i.k or {CL} | size }}"),
    ("nouse:sc-lambda-and", "{{ objs | has: i => f and {CL} }}"),
    ("nouse:sc-lambda-find", "{{ objs | find: i => i.v or {CL} | size }}"),
    ("nouse:sc-lambda-reject", "{{ objs | reject: i => f and {CL} | size }}"),
]
PARTIALS["p_sc"] = "[{% if x or b.tags contains 'y' %}T{% else %}F{% endif %}]"
SC_DELETIONS: list[list[tuple]] = [[], [("b",)], [("b", "tags")], [("b", "name"), ("b", "n"), ("b", "k")]]


def sc_fill(tpl: str, pick) -> str:  # noqa: ANN001
    out = tpl
    while "{CL}" in out:
        out = out.replace("{CL}", pick(SC_RIGHT + SC_RIGHT_LAMBDA), 1)
    while "{C}" in out:
        out = out.replace("{C}", pick(SC_RIGHT), 1)
    return out


def nouse_program(rng: random.Random) -> tuple[list[tuple[str, str]], list[str], list[tuple]]:
    """A program in which the only missing paths sit where they are documented not to be
    used.  Returns (statements, policies that must not raise UndefinedError, deletions)."""
    r = rng.random()
    dels: list[tuple] = []
    if r < 0.3:
        falsy_only = False
        kind, tpl = rng.choice(SC_FORMS)
        text = sc_fill(tpl, rng.choice)
        dels = list(rng.choice(SC_DELETIONS))
    else:
        falsy_only = r < 0.6
        kind, tpl = rng.choice(FALSY_NOUSE if falsy_only else NOUSE)
        text = tpl.replace("${{M}", "${\x00")
        while "{M}" in text:
            text = text.replace("{M}", rng.choice(SIMPLE_MISSING), 1)
        while "\x00" in text:
            text = text.replace("\x00", rng.choice(SIMPLE_MISSING), 1)
        text = fill(rng, text, True)
    stmts = [(kind, text)]
    # surround with complete statements
    for _ in range(rng.choice((0, 0, 1, 2))):
        while True:
            k2, t2 = rng.choice(STMTS)
            x2 = fill(rng, t2, True)
            if not (k2.startswith("!") or inherently_incomplete(k2, x2)):
                break
        if rng.random() < 0.5:
            stmts.append((k2, x2))
        else:
            stmts.insert(0, (k2, x2))
    return stmts, (["falsy"] if falsy_only else ["strict", "falsy"]), dels


# ---------------------------------------------------------------------------------------
# deterministic sweep (independent of the seed): every statement form x every missing
# expression (x every array for forms that combine an array with the maybe-missing value)
# ---------------------------------------------------------------------------------------


def fill_fixed(tpl: str, p: str, a: str, q: str = "n", r: str = "s") -> str:
    out = tpl.replace("${{P}}", "${" + p + "}")
    for slot, val in (("{P}", p), ("{Q}", q), ("{R}", r), ("{A}", a), ("{N}", "arr"),
                      ("{O}", "objs"), ("{H}", "h"), ("{L}", "'lit'"), ("{M}", p)):
        out = out.replace(slot, val)
    return out


def sweep() -> list[dict[str, Any]]:
    """[{kind, src, nouse: policies that must not raise, complete, extra: data added,
    delete: positions removed, both: render sync and async}]"""
    out: list[dict[str, Any]] = []
    seen: set[str] = set()

    def add(kind: str, text: str, nouse: tuple[str, ...] = (), complete: bool = False,
            extra: dict[str, Any] | None = None, delete: list[tuple] | None = None,
            both: bool = False, shape: tuple[str, str] | None = None,
            mode: str | None = None, empty: bool = False) -> None:
        key = text + "\x00" + repr(sorted((extra or {}).items())) + repr(delete) + repr(shape)
        if key not in seen:
            seen.add(key)
            out.append({"kind": kind, "src": text, "nouse": nouse, "complete": complete,
                        "extra": extra or {}, "delete": delete or [], "both": both,
                        "shape": shape, "mode": mode, "empty": empty})

    # no-use forms first: an identical text from the general forms must not shadow them
    for kind, tpl in NOUSE:
        for p in SIMPLE_MISSING:
            add(kind, fill_fixed(tpl.replace("${{M}", "${" + p), p, "arr"), ("strict", "falsy"))
    for kind, tpl in FALSY_NOUSE:
        for p in SIMPLE_MISSING:
            for q in ("n", "nl", "f"):
                add(kind, fill_fixed(tpl.replace("{P}", q), p, "arr"), ("falsy",))
    # short circuit x right operand x what is deleted, sync and async
    for kind, tpl in SC_FORMS:
        rights = SC_RIGHT + (SC_RIGHT_LAMBDA if "{CL}" in tpl else [])
        for ri in range(len(rights)):
            n = [ri]

            def pick(pool: list[str], n=n) -> str:  # noqa: ANN001
                n[0] += 1
                return pool[(n[0] - 1) % len(pool)]

            text = sc_fill(tpl, pick)
            for dels in SC_DELETIONS:
                add(kind, text, ("strict", "falsy"), delete=dels, both=True)
    # filters that look up optional context names themselves: every referenced variable
    # is present; the optional names are absent / all present / present one at a time
    variants: list[dict[str, Any]] = [{}, dict(OPTIONAL)] + [{k: v} for k, v in OPTIONAL.items()]
    for kind, text in BABEL:
        for extra in variants:
            add(kind, text, complete=True, extra=extra, both=True)
    # as a filter / keyword argument `empty` and `blank` are ordinary variable paths in
    # this grammar (keywords only as comparison operands): the data has no such variables,
    # so these programs are NOT complete and strict policies may raise
    for kind, text in KEYWORD_ARGS:
        add(kind, text, complete=False, both=True)
    # expressions rooted at template-local bindings; complete by construction.  The
    # dynamic partials go into PARTIALS (same names and bodies every time).
    for kind, text in locals_programs(PARTIALS):
        add(kind, text, complete=True, both=True)
    for li, (kind, text) in enumerate(locals_programs(PARTIALS)):
        # ... and once more with the arrays / hashes in another shape
        add(kind, text, complete=True, shape=SHAPES[li % len(SHAPES)],
            mode="async" if li % 2 else "sync")
    # scope-own variables in lambdas after the same filter was used outside
    for kind, text in lambda_scope_programs(PARTIALS):
        add(kind, text, complete=True, both=True)
    # no data at all
    for kind, text in BOTTOM_FORMS:
        add(kind, text, complete=True, both=True, empty=True)
    for kind, text in SHAPE_FORMS:
        for shape in SHAPES:
            add(kind, text, complete=True, both=True, shape=shape)
    for kind, text, dels in inner_programs():
        add(kind, text, delete=dels, both=True)
    for kind, tpl in STMTS:
        arrays = ARRAYS if ("{A}" in tpl and "{P}" in tpl) else ["arr"]
        if "{P}" not in tpl:
            for a in (ARRAYS if "{A}" in tpl else ["arr"]):
                add(kind, fill_fixed(tpl, "s", a))
            continue
        for p in MISSING:
            for a in arrays:
                add(kind, fill_fixed(tpl, p, a))
        # the maybe-missing value also as the *second* operand
        if "{Q}" in tpl:
            for p in ("nosuch", "arr[9]", "h.zz"):
                add(kind, fill_fixed(tpl, "s", "arr", q=p))
                add(kind, fill_fixed(tpl, "nl", "mixed", q=p))
    return out


# ---------------------------------------------------------------------------------------
# template-local bindings: every tag / filter / lambda / template string that takes an
# expression, with that expression rooted at a name bound *inside the template* (loop
# variable, assign, capture, macro parameter, argument of an enclosing render / include,
# with-block binding, tablerow variable), at nesting depth 0-2.  The data is BASE, every
# path resolves: complete by construction.
# ---------------------------------------------------------------------------------------
BASE["akey"] = "a"
BASE["bkey"] = "b"
BASE["rich"] = {"k": 1, "v": "x", "t": True, "list": [1, 2, 3], "key": "k", "n": 2}
BASE["riches"] = [
    {"k": 1, "v": "x", "t": True, "list": [1, 2, 3], "key": "k", "n": 2},
    {"k": 2, "v": "y", "t": False, "list": [4, 5], "key": "n", "n": 1},
]

# (kind, text, body is a partial?)  {BODY} is where the use goes, L is the bound name
LOCAL_BINDERS: list[tuple[str, str]] = [
    ("loop-var", "{% for L in riches %}{BODY}{% endfor %}"),
    ("assign", "{% assign L = rich %}{BODY}"),
    ("assign-filtered", "{% assign L = riches | first %}{BODY}"),
    ("macro-param", "{% macro mm L %}{BODY}{% endmacro %}{% call mm rich %}"),
    ("macro-kwparam", "{% macro mk a, L: rich %}{BODY}{% endmacro %}{% call mk 1 %}"),
    ("render-arg", "{% render '{PARTIAL}', L: rich %}"),
    ("render-with", "{% render '{PARTIAL}' with rich as L %}"),
    ("render-for", "{% render '{PARTIAL}' for riches as L %}"),
    ("include-arg", "{% include '{PARTIAL}', L: rich %}"),
    ("include-for", "{% include '{PARTIAL}' for riches as L %}"),
    ("with-binding", "{% with L: rich %}{BODY}{% endwith %}"),
    ("tablerow-var", "{% tablerow L in riches cols: 2 %}{BODY}{% endtablerow %}"),
    ("loop-over-local", "{% assign rr = riches %}{% for L in rr %}{BODY}{% endfor %}"),
]
SCALAR_BINDERS: list[tuple[str, str]] = [
    ("capture", "{% capture L %}hello{% endcapture %}{BODY}"),
    ("assign-scalar", "{% assign L = s | upcase %}{BODY}"),
    ("loop-var-scalar", "{% for L in strs %}{BODY}{% endfor %}"),
    ("macro-param-scalar", "{% macro ms L %}{BODY}{% endmacro %}{% call ms 'arg' %}"),
    ("render-arg-scalar", "{% render '{PARTIAL}', L: s %}"),
    ("with-binding-scalar", "{% with L: h.k %}{BODY}{% endwith %}"),
]
# uses of an object-shaped local
LOCAL_USES: list[tuple[str, str]] = [
    ("render-with", "{% render 'p_use' with L.v as x %}"),
    ("render-with-obj", "{% render 'p_glob' with L %}{% render 'p_truthy' with L as x %}"),
    ("render-with-list", "{% render 'p_for' with L.list as x %}"),
    ("render-for", "{% render 'p_use' for L.list as x %}"),
    ("render-kw", "{% render 'p_use', x: L.v %}"),
    ("render-kw-default", "{% render 'p_default', x: L.k %}"),
    ("include-with", "{% include 'p_use' with L.v as x %}"),
    ("include-for", "{% include 'p_use' for L.list as x %}"),
    ("include-kw", "{% include 'p_use', x: L.v %}"),
    ("include-dynamic", "{% include pname, x: L.k %}"),
    ("call-args", "{% macro m2 a, b %}[{{ a }}{{ b }}]{% endmacro %}{% call m2 L.v, b: L.k %}"),
    ("call-excess", "{% macro m3 a %}[{{ a }}{{ args | join: '-' }}{{ kwargs.z }}]{% endmacro %}{% call m3 L.v, L.k, z: L.n %}"),
    ("with", "{% with a: L.v, b: L.list %}{{ a }}{{ b | size }}{% endwith %}"),
    ("cycle", "{% cycle L.v, L.k %}{% cycle L.v, L.k %}"),
    ("cycle-group", "{% cycle 'g': L.v, 'z' %}"),
    ("case", "{% case L.k %}{% when 1 %}one{% when 2 %}two{% else %}o{% endcase %}"),
    ("when", "{% case 1 %}{% when L.k %}k{% when L.n, 7 %}n{% else %}o{% endcase %}"),
    ("for-in", "{% for y in L.list %}{{ y }}{% else %}-{% endfor %}"),
    ("for-limit-offset", "{% for y in L.list limit: L.n offset: L.k %}{{ y }}{% endfor %}"),
    ("for-range", "{% for y in (L.k..L.n) %}{{ y }}{% endfor %}"),
    ("for-reversed", "{% for y in L.list reversed %}{{ y }}{{ forloop.index }}{% endfor %}"),
    ("tablerow", "{% tablerow y in L.list cols: L.n limit: L.n %}{{ y }}{% endtablerow %}"),
    ("echo", "{% echo L.v %}{% echo L.list | join: ',' %}"),
    ("output", "{{ L.v }}{{ L.k }}{{ L.list.first }}{{ L.list[1] }}{{ L.list.size }}"),
    ("assign", "{% assign z2 = L.v | append: L.k %}{{ z2 }}"),
    ("capture", "{% capture c2 %}{{ L.v }}-{{ L.k }}{% endcapture %}{{ c2 }}"),
    ("filter-arg", "{{ s | append: L.v }}{{ L.list | join: L.v }}{{ n | plus: L.k }}"),
    ("filter-arg-kw", "{{ L.t | default: L.v, allow_false: L.t }}{{ nl | default: L.k }}"),
    ("filter-slice", "{{ s | slice: L.k, L.n }}{{ s | truncate: L.n, L.v }}"),
    ("filter-where", "{{ objs | where: 'k', L.k | size }}{{ objs | find: 'v', L.v | size }}"),
    ("lambda-body", "{{ objs | where: i => i.k == L.k | size }}"),
    ("lambda-map", "{{ objs | map: i => L.v | join: ',' }}"),
    ("lambda-find", "{{ L.list | find: i => i > L.k }}{{ L.list | has: i => i == L.n }}"),
    ("lambda-sort", "{{ riches | sort: i => i.k | map: 'v' | join: L.v }}"),
    ("template-string", "{{ \"a${L.v}b${L.k | plus: 1}\" }}"),
    ("template-string-arg", "{{ s | append: '-${L.v}' }}"),
    ("translate-tag", "{% translate who: L.v, count: L.k %}Hi %(who)s{% plural %}His %(who)s{% endtranslate %}"),
    ("translate-filter", "{{ 'Hi %(w)s' | t: w: L.v }}"),
    ("ternary", "{{ L.v if L.t else L.k }}{{ 'a' if L.k == 1 }}"),
    ("if", "{% if L.k == 1 and L.list contains 2 %}y{% elsif L.t or L.n < 2 %}z{% else %}n{% endif %}"),
    ("unless", "{% unless L.t %}u{% else %}v{% endunless %}"),
    ("liquid-tag", "{% liquid\necho L.v\nrender 'p_use', x: L.k\nassign q2 = L.n\necho q2 %}"),
    ("index-by-local", "{{ arr[L.k] }}{{ h[L.key] }}{{ objs[L.k].v }}"),
    ("array-literal", "{{ L.v, L.k | join: '+' }}{% for y in L.v, L.k %}{{ y }}{% endfor %}"),
    ("babel", "{{ L.k | currency }}{{ L.n | unit: 'length-meter', length: L.v | default: 'x' }}"),
]
SCALAR_USES: list[tuple[str, str]] = [
    ("render-with", "{% render 'p_use' with L as x %}"),
    ("render-for", "{% render 'p_use' for L as x %}"),
    ("render-kw", "{% render 'p_use', x: L %}"),
    ("include-with", "{% include 'p_use' with L as x %}"),
    ("include-kw", "{% include 'p_default', x: L %}"),
    ("call-args", "{% macro m2 a, b %}[{{ a }}{{ b }}]{% endmacro %}{% call m2 L, b: L %}"),
    ("with", "{% with a: L %}{{ a }}{% endwith %}"),
    ("cycle", "{% cycle L, 'z' %}"),
    ("case", "{% case L %}{% when 'hello' %}hi{% when L %}same{% else %}o{% endcase %}"),
    ("echo", "{% echo L %}"),
    ("output", "{{ L }}{{ L.size }}{{ L | upcase }}"),
    ("assign", "{% assign z2 = L %}{{ z2 }}"),
    ("capture", "{% capture c2 %}[{{ L }}]{% endcapture %}{{ c2 }}"),
    ("filter-arg", "{{ s | append: L }}{{ arr | join: L }}"),
    ("lambda-map", "{{ objs | map: i => L | join: ',' }}"),
    ("lambda-body", "{{ strs | where: i => i == L | size }}"),
    ("template-string", "{{ \"x${L}y\" }}"),
    ("translate-tag", "{% translate who: L %}Hi %(who)s{% endtranslate %}"),
    ("ternary", "{{ L if t else 'b' }}{{ 'a' if L == 'hello' else 'c' }}"),
    ("if", "{% if L == 'hello' or L contains 'a' %}y{% else %}n{% endif %}"),
    ("index-by-local", "{{ h[L] | default: '-' }}"),
]
# wrappers: (kind, text, isolates?)  isolating wrappers may only go *outside* the binder
WRAPPERS: list[tuple[str, str, bool]] = [
    ("w-if", "{% if t %}{BODY}{% endif %}", False),
    ("w-for", "{% for q in arr limit: 2 %}{BODY}{% endfor %}", False),
    ("w-with", "{% with w: 1 %}{BODY}{% endwith %}", False),
    ("w-unless-else", "{% unless t %}no{% else %}{BODY}{% endunless %}", False),
    ("w-case", "{% case n %}{% when 3 %}{BODY}{% endcase %}", False),
    ("w-macro", "{% macro wm %}{BODY}{% endmacro %}{% call wm %}", True),
    ("w-render", "{% render '{PARTIAL}' %}", True),
    ("w-include", "{% include '{PARTIAL}' %}", False),
]


def _partial(body: str, partials: dict[str, str]) -> str:
    import hashlib

    name = "pl_" + hashlib.blake2b(body.encode(), digest_size=5).hexdigest()
    partials[name] = body
    return name


def _wrap(tpl: str, body: str, partials: dict[str, str]) -> str:
    if "{PARTIAL}" in tpl:
        return tpl.replace("{PARTIAL}", _partial(body, partials))
    return tpl.replace("{BODY}", body)


def _no_include(text: str, partials: dict[str, str]) -> bool:
    """include is disabled inside render; true if text (transitively) has no include."""
    if "{% include" in text:
        return False
    for name, body in partials.items():
        if name.startswith("pl_") and name in text and not _no_include(body, partials):
            return False
    return True


def locals_programs(partials: dict[str, str]) -> list[tuple[str, str]]:
    """[(kind, source)]; dynamic partials are added to *partials*."""
    out: list[tuple[str, str]] = []
    inner_w = [w for w in WRAPPERS if not w[2] and "{PARTIAL}" not in w[1]]
    idx = 0
    for binders, uses in ((LOCAL_BINDERS, LOCAL_USES), (SCALAR_BINDERS, SCALAR_USES)):
        for bk, btpl in binders:
            for uk, use in uses:
                idx += 1
                isolating = "{% render '{PARTIAL}'" in btpl or "{% macro" in btpl
                if isolating and "{% include" in use:
                    continue  # include is disabled inside a rendered partial / macro
                if "tablerow" in btpl and "{% tablerow" in use:
                    continue
                variants: list[tuple[str, list, list]] = [("d0", [], [])]
                # two rotating nesting configurations per (binder, use): depth 1 and 2
                o1 = WRAPPERS[idx % len(WRAPPERS)]
                i1 = inner_w[idx % len(inner_w)]
                o2 = WRAPPERS[(idx // 3) % len(WRAPPERS)]
                variants.append(("d1-out", [o1], []) if idx % 2 else ("d1-in", [], [i1]))
                variants.append(
                    [("d2-out-in", [o1], [i1]), ("d2-out-out", [o1, o2], []),
                     ("d2-in-in", [], [i1, inner_w[(idx + 1) % len(inner_w)]])][idx % 3]
                )
                for vk, outer, inner in variants:
                    body = use
                    for _, wt, _iso in inner:
                        body = _wrap(wt, body, partials)
                    text = _wrap(btpl, body, partials)
                    ok = True
                    for _, wt, _iso in outer:
                        if _iso and not _no_include(text, partials):
                            ok = False
                            break
                        text = _wrap(wt, text, partials)
                    if ok:
                        out.append((f"local:{bk}/{uk}/{vk}", text))
    return out


# ---------------------------------------------------------------------------------------
# inner variables: a variable used as key / index inside another path at depth >= 2, as
# filter argument, range bound, loop limit / offset, cycle member, case / when value ...
# -- and only that inner variable (or its nested property) is deleted.
# ---------------------------------------------------------------------------------------
INNER_FORMS: list[tuple[str, str]] = [
    ("inner:key-prop", "{{ h[akey].b.c }}{{ objs[idx].v }}"),
    ("inner:key-key", "{{ objs[idx][key] }}{{ h['a'][bkey].c }}"),
    ("inner:deep", "{{ h.a[bkey].c }}{{ user.tags[rich.k].size }}{{ riches[rich.k].list[idx] }}"),
    ("inner:prop-key-prop", "{{ h[akey][bkey].c }}{{ rich.list[rich.k] }}{{ riches[idx].list[rich.n].size }}"),
    ("inner:key-default", "{{ h[key] | default: 'd' }}{{ objs[idx].v | default: 'e' }}"),
    ("inner:key-if", "{% if h[akey].b %}T{% else %}F{% endif %}{% if objs[idx].k == 2 %}two{% endif %}"),
    ("inner:key-for", "{% for x in riches[idx].list %}{{ x }}{% else %}-{% endfor %}"),
    ("inner:key-assign", "{% assign v = objs[idx].v %}[{{ v }}]{% assign w = h[key] %}[{{ w | default: '?' }}]"),
    ("inner:key-template-string", "{{ \"a${objs[idx].v}b${h[akey].b.c}\" }}"),
    ("inner:key-filter-arg", "{{ s | append: objs[idx].v }}{{ arr | join: h[key] }}"),
    ("inner:key-lambda", "{{ objs | where: i => i.k == riches[idx].k | size }}{{ objs | map: i => i[key] | join: ',' }}"),
    ("inner:key-render", "{% render 'p_use' with objs[idx].v as x %}{% render 'p_default', x: h[akey].b.c %}"),
    ("inner:key-include", "{% include 'p_use' with objs[idx].v as x %}{% include 'p_for', x: riches[idx].list %}"),
    ("inner:key-case", "{% case objs[idx].k %}{% when 2 %}two{% when rich.k %}k{% else %}o{% endcase %}"),
    ("inner:filter-arg", "{{ s | slice: idx }}{{ s | truncate: n }}{{ arr | join: key }}{{ n | plus: idx }}{{ s | append: key }}"),
    ("inner:filter-arg-2", "{{ s | replace: key, s }}{{ s | split: key | size }}{{ n | round: idx }}{{ arr | concat: strs | size }}{{ n | at_least: idx }}"),
    ("inner:filter-arg-where", "{{ objs | where: 'k', idx | size }}{{ objs | find: 'v', key | size }}{{ objs | map: key | join: ',' }}{{ objs | sort: key | size }}{{ objs | sum: key }}"),
    ("inner:range", "{% for x in (idx..n) %}{{ x }}{% endfor %}{{ (1..idx) | join: ',' }}"),
    ("inner:range-prop", "{% for x in (rich.k..rich.n) %}{{ x }}{% endfor %}"),
    ("inner:limit-offset", "{% for x in arr limit: n offset: idx %}{{ x }}{% endfor %}"),
    ("inner:limit-prop", "{% for x in arr limit: rich.n %}{{ x }}{% endfor %}{% for x in arr offset: rich.k %}{{ x }}{% endfor %}"),
    ("inner:tablerow", "{% tablerow x in arr cols: n limit: idx %}{{ x }}{% endtablerow %}"),
    ("inner:cycle", "{% cycle key, idx, s %}{% cycle key, idx, s %}{% cycle 'g': rich.v, n %}"),
    ("inner:case-when", "{% case n %}{% when idx %}i{% when key, 3 %}three{% else %}o{% endcase %}"),
    ("inner:case-subject", "{% case idx %}{% when 1 %}one{% else %}o{% endcase %}{% case rich.v %}{% when 'x' %}x{% endcase %}"),
    ("inner:with-call", "{% with a: idx, b: key %}{{ a }}{{ b }}{% endwith %}{% macro m a, b %}[{{ a }}{{ b }}]{% endmacro %}{% call m idx, b: key %}"),
    ("inner:ternary", "{{ key if idx else n }}{{ 'a' if idx == 1 else 'b' }}{{ s | append: key if idx }}"),
    ("inner:translate", "{% translate who: key, count: idx %}Hi %(who)s{% plural %}His %(who)s{% endtranslate %}{{ 'x %(a)s' | t: a: idx }}"),
    ("inner:contains", "{% if arr contains idx %}T{% else %}F{% endif %}{% if key in strs %}T{% else %}F{% endif %}{% if h contains key %}T{% else %}F{% endif %}"),
    ("inner:json-size", "{{ idx | json }}{{ key | size }}{{ rich.k | json }}{{ key | first }}{{ key | upcase | json }}"),
    ("inner:babel", "{{ idx | currency }}{{ n | unit: key }}{{ dt | datetime: format: key }}"),
    ("inner:date", "{{ dt | date: key }}{{ key | date: '%Y' }}"),
]
INNER_DELETIONS: list[list[tuple]] = [
    [("key",)], [("idx",)], [("n",)], [("key",), ("idx",)], [("rich", "k")], [("rich", "key")],
    [("rich", "v")], [("rich", "n")], [("rich",)], [("s",)], [("dt",)], [("akey",)], [("bkey",)],
    [("akey",), ("bkey",)],
]


def inner_programs() -> list[tuple[str, str, list[tuple]]]:
    out = []
    import re as _re

    for kind, text in INNER_FORMS:
        for dels in INNER_DELETIONS:
            # only deletions of something the form mentions
            if all(_re.search(r"(?<![\w.'])" + _re.escape(d[0]) + r"(?![\w'])", text) and
                   (len(d) == 1 or ("." + str(d[1])) in text) for d in dels):
                out.append((kind, text, dels))
    return out


# ---------------------------------------------------------------------------------------
# data shapes: the same values supplied as tuple / range / a custom abc.Sequence drop /
# collections.UserList, hashes as an abc.Mapping drop / dict subclass.  Every path of a
# complete program still resolves, so the program stays complete by construction.
# ---------------------------------------------------------------------------------------
import collections as _collections  # noqa: E402
import collections.abc as _abc  # noqa: E402


class SeqDrop(_abc.Sequence):
    """abc.Sequence with __getitem__/__len__ only."""

    def __init__(self, items):  # noqa: ANN001
        self._items = list(items)

    def __getitem__(self, i):  # noqa: ANN001
        if isinstance(i, slice):
            return SeqDrop(self._items[i])
        if not isinstance(i, int):
            raise TypeError(f"indices must be integers, not {type(i).__name__}")
        return self._items[i]

    def __len__(self) -> int:
        return len(self._items)

    def __repr__(self) -> str:
        return f"SeqDrop({self._items!r})"

    def __tagged__(self):  # noqa: ANN204
        from .core import to_tagged

        return {"$c16seq": to_tagged(self._items)}


class MapDrop(_abc.Mapping):
    """abc.Mapping with __getitem__/__iter__/__len__ only."""

    def __init__(self, items):  # noqa: ANN001
        self._d = dict(items)

    def __getitem__(self, k):  # noqa: ANN001
        return self._d[k]

    def __iter__(self):  # noqa: ANN204
        return iter(self._d)

    def __len__(self) -> int:
        return len(self._d)

    def __repr__(self) -> str:
        return f"MapDrop({self._d!r})"

    def __tagged__(self):  # noqa: ANN204
        from .core import to_tagged

        return {"$c16map": to_tagged(self._d)}


class UList(_collections.UserList):
    def __tagged__(self):  # noqa: ANN204
        from .core import to_tagged

        return {"$c16ulist": to_tagged(list(self.data))}


class DictSub(dict):
    def __tagged__(self):  # noqa: ANN204
        from .core import to_tagged

        return {"$c16dict": to_tagged(dict(self))}


SEQ_SHAPES = ("list", "tuple", "seqdrop", "ulist", "range")
MAP_SHAPES = ("dict", "mapdrop", "dictsub")
SHAPES = [("tuple", "dict"), ("seqdrop", "dict"), ("ulist", "dict"), ("range", "dict"),
          ("list", "mapdrop"), ("list", "dictsub"), ("seqdrop", "mapdrop"), ("tuple", "dictsub"),
          ("range", "mapdrop")]


def _as_range(v: list) -> Any:
    if len(v) >= 2 and all(type(x) is int for x in v):
        step = v[1] - v[0]
        if step and all(v[i + 1] - v[i] == step for i in range(len(v) - 1)):
            return range(v[0], v[-1] + (1 if step > 0 else -1), step)
    return None


def reshape(o: Any, seq: str, mp: str, top: bool = True) -> Any:
    """Deep copy of JSON-like *o* with arrays / hashes in the given shapes (the top-level
    namespace stays a dict: it is passed as keyword arguments)."""
    if isinstance(o, dict):
        d = {k: reshape(v, seq, mp, False) for k, v in o.items()}
        if top or mp == "dict":
            return d
        return MapDrop(d) if mp == "mapdrop" else DictSub(d)
    if isinstance(o, list):
        items = [reshape(v, seq, mp, False) for v in o]
        if seq == "tuple":
            return tuple(items)
        if seq == "seqdrop":
            return SeqDrop(items)
        if seq == "ulist":
            return UList(items)
        if seq == "range":
            r = _as_range(items)
            return r if r is not None else items
        return items
    return o


def untag(o: Any) -> Any:
    """Inverse of the __tagged__ forms after core.from_tagged (replay)."""
    if isinstance(o, dict):
        if len(o) == 1:
            ((k, v),) = o.items()
            if k == "$c16seq":
                return SeqDrop(untag(v))
            if k == "$c16map":
                return MapDrop(untag(v))
            if k == "$c16ulist":
                return UList(untag(v))
            if k == "$c16dict":
                return DictSub(untag(v))
        return {k: untag(v) for k, v in o.items()}
    if isinstance(o, list):
        return [untag(v) for v in o]
    if isinstance(o, tuple):
        return tuple(untag(v) for v in o)
    return o


# forms that iterate / index / measure arrays and hashes; complete by construction on BASE
SHAPE_FORMS: list[tuple[str, str]] = [
    ("shape:for", "{% for x in arr %}{{ x }}{% else %}-{% endfor %}{% for o in objs %}{{ o.k }}{{ o.v }}{% endfor %}"),
    ("shape:for-params", "{% for x in arr limit: 2 offset: 1 reversed %}{{ x }}{{ forloop.length }}{% endfor %}"),
    ("shape:for-nested", "{% for r in riches %}{% for y in r.list %}{{ y }}{% endfor %}{{ r.v }}{% endfor %}"),
    ("shape:for-hash", "{% for pair in h %}{{ pair[0] }}{% endfor %}{% for pair in rich %}{{ pair[0] }},{% endfor %}"),
    ("shape:tablerow", "{% tablerow o in objs cols: 2 %}{{ o.v }}{% endtablerow %}"),
    ("shape:include-for", "{% include 'p_row' for objs as row %}"),
    ("shape:include-for-name", "{% include 'p_item' for objs %}"),
    ("shape:include-with", "{% include 'p_row' with objs[0] as row %}{% include 'p_row' with riches.first as row %}"),
    ("shape:include-for-scalars", "{% include 'p_use' for arr as x %}{% include 'p_use' for user.tags as x %}"),
    ("shape:include-for-nested", "{% for r in riches %}{% include 'p_use' for r.list as x %}{% endfor %}"),
    ("shape:render-for", "{% render 'p_row' for objs as row %}"),
    ("shape:render-for-name", "{% render 'p_item' for objs %}"),
    ("shape:render-with", "{% render 'p_rows' with objs as rows %}"),
    ("shape:render-for-scalars", "{% render 'p_use' for arr as x %}{% render 'p_use' for h.list as x %}"),
    ("shape:render-forloop", "{% render 'p_rowloop' for objs as row %}"),
    ("shape:index", "{{ arr[0] }}{{ arr[-1] }}{{ objs[1].v }}{{ objs[idx].k }}{{ h.list[1] }}{{ riches[0].list[2] }}"),
    ("shape:first-last-size", "{{ arr.first }}{{ arr.last }}{{ arr.size }}{{ objs.first.v }}{{ objs.last.k }}{{ user.tags.size }}{{ h.size }}"),
    ("shape:hash-props", "{{ h.k }}{{ h['k'] }}{{ h[key] }}{{ h.a.b.c }}{{ user.name }}{{ rich.list.first }}{{ h.a.size }}"),
    ("shape:filters-1", "{{ arr | first }}{{ arr | last }}{{ arr | size }}{{ arr | join: ',' }}{{ strs | sort | join: ',' }}{{ arr | reverse | join: ',' }}"),
    ("shape:filters-2", "{{ objs | map: 'k' | join: ',' }}{{ objs | where: 'k', 2 | size }}{{ objs | where: 't' | size }}{{ objs | find: 'v', 'y' | size }}{{ objs | has: 'k', 3 }}"),
    ("shape:filters-3", "{{ strs | uniq | size }}{{ arr | compact | size }}{{ arr | concat: strs | size }}{{ arr | sum }}{{ objs | sum: 'k' }}{{ objs | sort: 'k' | map: 'v' | join: ',' }}"),
    ("shape:filters-4", "{{ objs | reject: 'k', 1 | size }}{{ objs | find_index: 'k', 2 }}{{ strs | sort_natural | first }}{{ arr | sort_numeric | last }}{{ arr | slice: 1, 2 | join: ',' }}"),
    ("shape:lambda", "{{ objs | map: i => i.v | join: ',' }}{{ objs | where: i => i.k > 1 | size }}{{ objs | sort: i => i.k | size }}{{ riches | map: i => i.list.size | join: ',' }}"),
    ("shape:contains", "{% if arr contains 2 %}T{% else %}F{% endif %}{% if 'x' in user.tags %}T{% else %}F{% endif %}{% if h contains 'k' %}T{% else %}F{% endif %}"),
    ("shape:eq", "{% if arr == arr %}T{% else %}F{% endif %}{% if arr == empty %}E{% else %}N{% endif %}{% if earr == empty %}E{% else %}N{% endif %}"),
    ("shape:output", "{{ arr }}{{ strs }}{{ user.tags }}"),
    ("shape:assign-for", "{% assign v = objs %}{% for o in v %}{{ o.v }}{% endfor %}{% assign w = objs | map: 'v' %}{{ w | join: '+' }}"),
    ("shape:with-macro", "{% with a: objs %}{% for o in a %}{{ o.k }}{% endfor %}{% endwith %}{% macro m a %}{% for o in a %}{{ o.v }}{% endfor %}{% endmacro %}{% call m objs %}"),
    ("shape:cycle-case", "{% for o in objs %}{% cycle 'a', 'b' %}{% case o.k %}{% when 2 %}two{% else %}{{ o.k }}{% endcase %}{% endfor %}"),
    ("shape:default", "{{ arr | default: 'd' | size }}{{ earr | default: 'd' }}{{ h | default: 'd' | size }}"),
    ("shape:template-string", "{{ \"${arr[0]}-${objs[0].v}-${arr | size}\" }}"),
]
PARTIALS["p_row"] = "[{{ row.k }}:{{ row.v }}]"
PARTIALS["p_item"] = "[{{ p_item.k }}:{{ p_item.v }}]"
PARTIALS["p_rows"] = "[{% for r in rows %}{{ r.v }}{% endfor %}{{ rows.size }}{{ rows[0].k }}]"
PARTIALS["p_rowloop"] = "[{{ forloop.index }}/{{ forloop.length }}:{{ row.v }}]"


# ---------------------------------------------------------------------------------------
# scope-own variables inside lambda filters: a variable that exists only in an inner
# scope (macro parameter, render / include keyword argument or bound value, with block,
# loop variable) is used inside the lambda of a context-aware filter there, after the
# same filter name has been used in an outer / sibling scope.  Complete by construction.
# ---------------------------------------------------------------------------------------
# (filter, outer use, inner use with `items` and the scope's own `wanted` / `wkey`, tail)
LAMBDA_SCOPE_FILTERS: list[tuple[str, str, str]] = [
    ("where", "objs | where: p => p.t | size", "items | where: p => p.v == wanted | map: 'k' | join: ','"),
    ("reject", "objs | reject: p => p.t | size", "items | reject: p => p.v == wanted | size"),
    ("map", "objs | map: p => p.k | join: ','", "items | map: p => wanted | join: ','"),
    ("find", "objs | find: p => p.k == 2 | size", "items | find: p => p.v == wanted | size"),
    ("find_index", "objs | find_index: p => p.k == 2", "items | find_index: p => p.v == wanted"),
    ("has", "objs | has: p => p.k == 2", "items | has: p => p.v == wanted"),
    ("sort", "objs | sort: p => p.v | size", "items | sort: p => p[wkey] | map: 'k' | join: ','"),
    ("sort_natural", "objs | sort_natural: p => p.v | size", "items | sort_natural: p => p[wkey] | size"),
    ("sort_numeric", "objs | sort_numeric: p => p.k | size", "items | sort_numeric: p => p[wkey] | size"),
    ("sum", "objs | sum: p => p.k", "items | sum: p => p[wkey]"),
    ("uniq", "objs | uniq: p => p.v | size", "items | uniq: p => p[wkey] | size"),
    ("compact", "objs | compact: p => p.v | size", "items | compact: p => p[wkey] | size"),
]
# {OUT} an outer use, {IN} the inner use, {PARTIAL} a partial whose body is [{{ IN }}]
LAMBDA_SCOPES: list[tuple[str, str]] = [
    ("macro", "{% macro sh items, wanted, wkey %}[{{ {IN} }}]{% endmacro %}{{ {OUT} }};{% call sh objs, 'x', 'k' %}{% call sh objs, 'y', 'k' %}"),
    ("macro-kw", "{% macro sh items, wanted: 'x', wkey: 'k' %}[{{ {IN} }}]{% endmacro %}{{ {OUT} }};{% call sh objs %}{% call sh objs, wanted: 'y' %}"),
    ("macro-first", "{% macro sh items, wanted, wkey %}[{{ {IN} }}]{% endmacro %}{% call sh objs, 'x', 'k' %};{{ {OUT} }};{% call sh objs, 'y', 'k' %}"),
    ("render-kw", "{{ {OUT} }};{% render '{PARTIAL}', items: objs, wanted: 'x', wkey: 'k' %}{% render '{PARTIAL}', items: objs, wanted: 'y', wkey: 'k' %}"),
    ("render-with", "{{ {OUT} }};{% render '{PARTIAL}' with 'x' as wanted, items: objs, wkey: 'k' %}"),
    ("render-for", "{{ {OUT} }};{% render '{PARTIAL}' for user.tags as wanted, items: objs, wkey: 'k' %}"),
    ("render-siblings", "{% render '{PARTIAL}', items: objs, wanted: 'x', wkey: 'k' %}{% render '{PARTIAL}', items: riches, wanted: 'y', wkey: 'n' %}"),
    ("render-in-loop", "{% for w in user.tags %}{{ {OUT} }}{% render '{PARTIAL}', items: objs, wanted: w, wkey: 'k' %}{% endfor %}"),
    ("render-nested", "{{ {OUT} }};{% render '{PARTIAL2}', things: objs %}"),
    ("include-kw", "{{ {OUT} }};{% include '{PARTIAL}', items: objs, wanted: 'x', wkey: 'k' %}"),
    ("include-for", "{{ {OUT} }};{% include '{PARTIAL}' for user.tags as wanted, items: objs, wkey: 'k' %}"),
    ("with", "{{ {OUT} }};{% with items: objs, wanted: 'x', wkey: 'k' %}[{{ {IN} }}]{% endwith %}"),
    ("for", "{{ {OUT} }};{% assign items = objs %}{% assign wkey = 'k' %}{% for wanted in user.tags %}[{{ {IN} }}]{% endfor %}"),
    ("macro-in-render", "{{ {OUT} }};{% render '{PARTIAL3}', things: objs %}"),
    ("call-in-loop", "{% macro sh items, wanted, wkey %}[{{ {IN} }}]{% endmacro %}{% for w in user.tags %}{{ {OUT} }}{% call sh objs, w, 'k' %}{% endfor %}"),
]


def lambda_scope_programs(partials: dict[str, str]) -> list[tuple[str, str]]:
    out = []
    for fname, outer, inner in LAMBDA_SCOPE_FILTERS:
        body = "[{{ " + inner + " }}]"
        p1 = _partial(body, partials)
        p2 = _partial("{{ " + outer.replace("objs", "things") + " }}{% render '" + p1
                      + "', items: things, wanted: 'x', wkey: 'k' %}", partials)
        p3 = _partial("{% macro sh items, wanted, wkey %}" + body + "{% endmacro %}{{ "
                      + outer.replace("objs", "things") + " }}{% call sh things, 'y', 'k' %}",
                      partials)
        for skind, tpl in LAMBDA_SCOPES:
            text = (tpl.replace("{OUT}", outer).replace("{IN}", inner)
                    .replace("{PARTIAL2}", p2).replace("{PARTIAL3}", p3).replace("{PARTIAL}", p1))
            out.append((f"lambda-scope:{fname}/{skind}", text))
    return out


# ---------------------------------------------------------------------------------------
# the bottom of the deletion lattice: NO data at all (render() without arguments, no
# environment or template globals).  Every name these programs use is bound by a tag
# from literals / ranges, so they are complete by construction with empty data.
# ---------------------------------------------------------------------------------------
PARTIALS["p_self"] = "[{{ p_self }}]"
PARTIALS["greeting"] = "{{ greeting }}, {{ name | default: 'you' }}!"
PARTIALS["p_self_loop"] = "[{{ forloop.index }}:{{ p_self_loop }}]"
PARTIALS["p_nest"] = "<{% render 'p_use' with x as x %}{% render 'p_self' with x %}>"
BOTTOM_FORMS: list[tuple[str, str]] = [
    ("bottom:render-with-local", "{% assign greetings = \"Hello,Goodbye\" | split: \",\" %}{% render \"greeting\" with greetings.first %}"),
    ("bottom:render-with-literal", "{% render 'p_self' with 'lit' %}{% render 'p_use' with 'lit' as x %}{% render 'p_self' with 42 %}"),
    ("bottom:render-with-range", "{% render 'p_for' with (1..3) as x %}{% render 'p_self' with (1..2) %}"),
    ("bottom:render-for-range", "{% render 'p_use' for (1..3) as x %}{% render 'p_self' for (1..2) %}{% render 'p_self_loop' for (1..2) %}"),
    ("bottom:render-for-local", "{% assign a = 'x,y' | split: ',' %}{% render 'p_use' for a as x %}{% render 'p_self' for a %}"),
    ("bottom:render-with-capture", "{% capture c %}cap{% endcapture %}{% render 'p_self' with c %}{% render 'p_use' with c as x %}"),
    ("bottom:render-kw", "{% render 'p_use', x: 1 %}{% render 'p_default', x: 'v' %}{% render 'p_for', x: (1..2) %}"),
    ("bottom:render-with-and-kw", "{% render 'p_use' with 'a' as x, y: 1 %}{% render 'p_self' with 'b', y: 2 %}"),
    ("bottom:render-nested", "{% render 'p_nest' with 'n' as x %}{% render 'p_nest', x: 'm' %}"),
    ("bottom:render-in-for", "{% for i in (1..2) %}{% render 'p_self' with i %}{% render 'p_use' with i as x %}{% endfor %}"),
    ("bottom:render-in-with", "{% with v: 'w' %}{% render 'p_self' with v %}{% endwith %}"),
    ("bottom:render-in-macro", "{% macro m a %}{% render 'p_self' with a %}{% render 'p_use' for (1..a) as x %}{% endmacro %}{% call m 2 %}"),
    ("bottom:render-with-template-string", "{% assign n = 'N' %}{% render 'p_self' with \"x${n}y\" %}"),
    ("bottom:render-with-filtered-local", "{% assign a = 'x,y' | split: ',' %}{% render 'p_self' with a.last %}{% render 'p_use' with a[0] as x %}{% render 'p_self' with a.size %}"),
    ("bottom:include-with", "{% include 'p_self' with 'lit' %}{% include 'p_use' with 'lit' as x %}"),
    ("bottom:include-for", "{% include 'p_use' for (1..3) as x %}{% include 'p_self' for (1..2) %}"),
    ("bottom:include-kw", "{% include 'p_use', x: 1 %}{% include 'p_truthy', x: true %}"),
    ("bottom:include-local", "{% assign a = 'x,y' | split: ',' %}{% include 'p_use' for a as x %}{% include 'p_self' with a.first %}"),
    ("bottom:with", "{% with a: 1, b: 'x' %}{{ a }}{{ b }}{% endwith %}"),
    ("bottom:for-range", "{% for x in (1..3) %}{{ x }}{{ forloop.index }}{% else %}-{% endfor %}"),
    ("bottom:for-literals", "{% for x in 'a', 'b' %}{{ x }}{% endfor %}{% for x in (1..4) limit: 2 offset: 1 %}{{ x }}{% endfor %}"),
    ("bottom:tablerow", "{% tablerow x in (1..4) cols: 2 %}{{ x }}{% endtablerow %}"),
    ("bottom:macro", "{% macro m a, b: 2 %}[{{ a }}{{ b }}{{ args | size }}]{% endmacro %}{% call m 1 %}{% call m 1, 3, 4 %}"),
    ("bottom:assign-capture", "{% assign v = 'x' | upcase %}{{ v }}{% capture c %}{{ v }}!{% endcapture %}{{ c }}"),
    ("bottom:lambda", "{% assign a = 'x,y,x' | split: ',' %}{{ a | map: i => i | join: '-' }}{{ a | where: i => i == 'x' | size }}{% assign w = 'y' %}{{ a | find: i => i == w }}"),
    ("bottom:lambda-in-render", "{% render 'p_lamb', items: (1..4), wanted: 2 %}"),
    ("bottom:cycle-case", "{% for i in (1..3) %}{% cycle 'a', 'b' %}{% case i %}{% when 2 %}two{% else %}{{ i }}{% endcase %}{% endfor %}"),
    ("bottom:ternary-template-string", "{% assign n = 3 %}{{ 'big' if n > 2 else 'small' }}{{ \"n=${n | plus: 1}\" }}"),
    ("bottom:counters", "{% increment c %}{% increment c %}{{ c }}{% decrement d %}{{ d }}"),
    ("bottom:translate", "{% translate who: 'you', count: 2 %}Hi %(who)s{% plural %}His %(who)s{% endtranslate %}{{ 'x %(a)s' | t: a: 1 }}"),
    ("bottom:liquid-tag", "{% liquid\nassign v = 'q'\necho v\nrender 'p_self' with v\nfor i in (1..2)\necho i\nendfor %}"),
    ("bottom:babel", "{{ 3 | currency }}{{ 1234.5 | decimal }}{{ 2 | unit: 'length-meter' }}"),
    ("bottom:docs-greeting", "{% render 'greeting' with 'Hi' %}{% render 'greeting' for 'Hello,Bye' | split: ',' %}"),
    ("bottom:if-literals", "{% if 1 < 2 and 'a' contains 'a' %}T{% endif %}{% unless false %}U{% endunless %}{{ nil | default: 'n' }}"),
]
PARTIALS["p_lamb"] = "[{{ items | where: i => i > wanted | join: ',' }}{{ items | map: i => wanted | first }}]"

# literal-valued with / for on render / include (data present)
STMTS.extend([
    ("render-with-literal", "{% render 'p_self' with 'lit' %}{% render 'p_use' with {L} as x %}"),
    ("render-for-range", "{% render 'p_use' for (1..3) as x %}{% render 'p_self' for (1..n) %}"),
    ("include-with-literal", "{% include 'p_self' with 'lit' %}{% include 'p_use' for (1..idx) as x %}"),
    ("render-with-local", "{% assign gs = \"Hello,Goodbye\" | split: \",\" %}{% render \"greeting\" with gs.first %}"),
])


# ---------------------------------------------------------------------------------------
# drops that combine the documented protocols, standing where dicts / lists stand.
# "Exists in the data" is decided by the drop's own __getitem__ / __contains__.
# ---------------------------------------------------------------------------------------
class LiquidMapDrop(MapDrop):
    """Mapping drop that also stands for a primitive (docs: `__liquid__`)."""

    def __init__(self, items, value=None):  # noqa: ANN001
        super().__init__(items)
        self._v = value

    def __liquid__(self):  # noqa: ANN204
        return self._v

    def __repr__(self) -> str:
        return f"LiquidMapDrop({self._d!r}, {self._v!r})"

    def __tagged__(self):  # noqa: ANN204
        from .core import to_tagged

        return {"$c16lmap": [to_tagged(self._d), to_tagged(self._v)]}


class LiquidSeqDrop(SeqDrop):
    def __init__(self, items, value=None):  # noqa: ANN001
        super().__init__(items)
        self._v = value

    def __liquid__(self):  # noqa: ANN204
        return self._v

    def __repr__(self) -> str:
        return f"LiquidSeqDrop({self._items!r}, {self._v!r})"

    def __tagged__(self):  # noqa: ANN204
        from .core import to_tagged

        return {"$c16lseq": [to_tagged(self._items), to_tagged(self._v)]}


class HtmlMapDrop(MapDrop):
    def __html__(self) -> str:
        return "<b>drop</b>"

    def __tagged__(self):  # noqa: ANN204
        from .core import to_tagged

        return {"$c16hmap": to_tagged(self._d)}


class StrMapDrop(MapDrop):
    def __str__(self) -> str:
        return "drop!"

    def __tagged__(self):  # noqa: ANN204
        from .core import to_tagged

        return {"$c16smap": to_tagged(self._d)}


class AsyncMapDrop(MapDrop):
    async def __getitem_async__(self, k):  # noqa: ANN001, ANN204
        return self._d[k]

    def __tagged__(self):  # noqa: ANN204
        from .core import to_tagged

        return {"$c16amap": to_tagged(self._d)}


_LIQUID_VALUES = {"lmap-int": 12, "lmap-str": "twelve", "lmap-true": True, "lmap-false": False,
                  "lmap-nil": None, "lmap-list": [1, 2]}
MAP_DROPS = {"htmlmap": HtmlMapDrop, "strmap": StrMapDrop, "asyncmap": AsyncMapDrop}
SHAPES.extend([("list", k) for k in _LIQUID_VALUES] + [("list", k) for k in MAP_DROPS]
              + [("lseq", "dict"), ("lseq", "lmap-int"), ("tuple", "asyncmap")])

_reshape_basic = reshape


def reshape(o: Any, seq: str, mp: str, top: bool = True) -> Any:  # noqa: F811
    if mp in _LIQUID_VALUES or mp in MAP_DROPS or seq == "lseq":
        if isinstance(o, dict):
            d = {k: reshape(v, seq, mp, False) for k, v in o.items()}
            if top or mp == "dict":
                return d
            if mp in _LIQUID_VALUES:
                return LiquidMapDrop(d, _LIQUID_VALUES[mp])
            if mp in MAP_DROPS:
                return MAP_DROPS[mp](d)
            return _reshape_basic(d, "list", mp, False) if mp in MAP_SHAPES else d
        if isinstance(o, list):
            items = [reshape(v, seq, mp, False) for v in o]
            if seq == "lseq":
                return LiquidSeqDrop(items, len(items))
            return _reshape_basic(items, seq, "dict", False) if seq != "list" else items
        return o
    return _reshape_basic(o, seq, mp, top)


_untag_basic = untag


def untag(o: Any) -> Any:  # noqa: F811
    if isinstance(o, dict) and len(o) == 1:
        ((k, v),) = o.items()
        if k == "$c16lmap":
            return LiquidMapDrop(untag(v[0]), untag(v[1]))
        if k == "$c16lseq":
            return LiquidSeqDrop(untag(v[0]), untag(v[1]))
        if k == "$c16hmap":
            return HtmlMapDrop(untag(v))
        if k == "$c16smap":
            return StrMapDrop(untag(v))
        if k == "$c16amap":
            return AsyncMapDrop(untag(v))
        if k in ("$c16seq", "$c16map", "$c16ulist", "$c16dict"):
            inner = untag(v)
            return {"$c16seq": SeqDrop, "$c16map": MapDrop, "$c16ulist": UList,
                    "$c16dict": DictSub}[k](inner)
    if isinstance(o, dict):
        return {k: untag(v) for k, v in o.items()}
    if isinstance(o, list):
        return [untag(v) for v in o]
    if isinstance(o, tuple):
        return tuple(untag(v) for v in o)
    return o
