"""C05 instrumented context objects (DESIGN 2.3 a/b/c) and the attribute-read monitor.

Every *Spy* class
  * has a metaclass whose ``__getattribute__`` logs reads on the class object,
  * defines ``__getattribute__`` to log reads on the instance,
  * carries canary strings in places that only Python attribute access can reach: instance
    ``__dict__`` entries, a class attribute, a property, method results, ``__doc__``, the
    class name, the ``__module__`` string and a module global (reachable through
    ``method.__globals__``),
  * exposes -- through the documented protocol only -- values that start with ``PUB``.

A read is attributed to the *immediate Python caller* of ``__getattribute__`` (C helpers such as
``getattr``, ``hasattr``, ``isinstance``, ``operator.attrgetter``, ``str.format`` create no Python
frame, so an engine call ``getattr(obj, name)`` is attributed to the engine function).  Reads
whose immediate caller is one of the harness files are the spies' own business and are ignored.
"""

from __future__ import annotations

import os
import sys
from abc import ABCMeta
from collections.abc import Mapping
from collections.abc import Sequence
from typing import Any

from .instr.sched import Gate

# reachable only through  <function>.__globals__  /  sys.modules[...]
GLOBAL_CANARY = "CNRY_moduleglobal_G_all"

HARNESS_FILES: set[str] = {__file__}

# ---------------------------------------------------------------------------------------
# allow-list (data).  Each entry cites the document / engine line that defines the name as
# part of the protocol.  "when" restricts the entry: any | mapping | sequence | role:<r>
# ---------------------------------------------------------------------------------------

INSTANCE_ALLOW: dict[str, tuple[str, str]] = {
    # Python data-model names behind "item access, length, iteration, conversion"
    "__class__": ("any", "isinstance()/type checks (Python data model: isinstance falls back to "
                         "obj.__class__); docs/variables_and_drops.md 'Sequences and mappings'"),
    "__getitem__": ("any", "docs/variables_and_drops.md 'Python Liquid uses __getitem__ internally'; "
                           "hasattr(obj,'__getitem__') in builtin/filters/*_filter*.py _getitem helpers"),
    "__len__": ("any", "docs/variables_and_drops.md 'Other magic methods' (.size / size filter)"),
    "__iter__": ("any", "docs/variables_and_drops.md 'Sequences and mappings' (for loop, sequence filters)"),
    "__contains__": ("any", "contains / in operators (docs/tag_reference.md expressions)"),
    "__str__": ("any", "docs/variables_and_drops.md 'Other magic methods' (output)"),
    "__int__": ("any", "docs/variables_and_drops.md 'Other magic methods' (math filters)"),
    "__float__": ("any", "number conversion (property statement: string/number conversion)"),
    "__index__": ("any", "number conversion used by int()/indexing"),
    "__hash__": ("any", "cycle/uniq/lru_cache keying; Python data model"),
    "__eq__": ("any", "== / != / contains comparisons"),
    "__bool__": ("any", "Python truth testing of `obj and ...` (e.g. context.get_item `isinstance(obj, Mapping) and obj`)"),
    "__reversed__": ("any", "`reversed` for-loop option / reverse filter"),
    "__lt__": ("any", "sort filters compare items with <"),
    "__gt__": ("any", "sort filters compare items with < (reflected)"),
    "__le__": ("any", "comparison"), "__ge__": ("any", "comparison"), "__ne__": ("any", "comparison"),
    # Mapping / Sequence mixin methods: part of the abc interface the docs name
    # Of the Mapping mixin methods only items() is used by the engine (context.get_item `.first`,
    # for-tag / first filter iterate `obj.items()`, json encoder); it is iteration of a mapping.
    # get / keys / values / pop / setdefault / copy and Sequence.index / count are NOT on the
    # list: the engine never needs them (a C-level dict.get / list.index on a dict / list
    # subclass bypasses the drop's __getitem__ whitelist).
    "items": ("mapping", "iteration of a mapping: liquid2/context.py get_item (.first), builtin/expressions.py "
                         "LoopExpression._to_iter, builtin/filters/array.py first; docs 'Sequences and mappings'"),
    # documented hooks
    "__liquid__": ("any", "docs/variables_and_drops.md '__liquid__'"),
    "__html__": ("any", "docs/variables_and_drops.md '__html__'"),
    "__getitem_async__": ("any", "docs/variables_and_drops.md '__getitem_async__'"),
    # engine's fixed hook names
    "force_liquid_default": ("any", "liquid2/builtin/filters/misc.py:43 (default filter), liquid2/undefined.py:106"),
    # the Translations protocol, only for the object the *application* bound to `translations`
    "gettext": ("role:translations", "docs/babel.md 'Message catalogs' (Translations protocol)"),
    "ngettext": ("role:translations", "docs/babel.md 'Message catalogs'"),
    "pgettext": ("role:translations", "docs/babel.md 'Message catalogs'"),
    "npgettext": ("role:translations", "docs/babel.md 'Message catalogs'"),
}

# reads on the CLASS object made directly by liquid2 frames
CLASS_ALLOW_LIQUID2: dict[str, str] = {
    "__name__": "diagnostic text of LiquidTypeError only (`x.__class__.__name__`, `type(x).__name__` in "
                "liquid2/filter.py, builtin/expressions.py _lt/_contains, filters/*); never reaches output "
                "(monitor (b) checks the class-name canary separately)",
}

# reads on the CLASS object (or odd instance reads) made by standard-library / dependency
# Python code on behalf of a protocol operation: (file basename, name) -> reason
STDLIB_ALLOW: dict[tuple[str, str], str] = {
    ("<frozen _collections_abc>", "__mro__"): "abc __subclasshook__ (_check_methods) behind isinstance(obj, Sized/Iterable/...)",
    ("<frozen _collections_abc>", "__dict__"): "abc __subclasshook__ (_check_methods)",
    ("_collections_abc.py", "__mro__"): "abc __subclasshook__ (_check_methods)",
    ("_collections_abc.py", "__dict__"): "abc __subclasshook__ (_check_methods)",
    ("typing.py", "__class__"): "typing alias __subclasscheck__ behind isinstance(obj, typing.Mapping/Sequence)",
    ("typing.py", "__mro__"): "typing alias __subclasscheck__",
    ("encoder.py", "__name__"): "json.JSONEncoder.default builds its TypeError message (json filter -> LiquidTypeError)",
    ("<frozen abc>", "__mro__"): "abc.__subclasscheck__",
    ("abc.py", "__mro__"): "abc.__subclasscheck__",
    # ABCMeta.__subclasscheck__(SpyClass, X): the abc machinery consults every registered
    # subclass of Mapping/Sequence (our drops among them) while deciding isinstance(x, Sequence)
    # for some unrelated x; reads happen on the class object, by name fixed in CPython's _abc.c
    ("<frozen abc>", "_abc_impl"): "ABCMeta.__subclasscheck__ (CPython Modules/_abc.c)",
    ("<frozen abc>", "__subclasshook__"): "ABCMeta.__subclasscheck__ (CPython Modules/_abc.c)",
    ("<frozen abc>", "__subclasses__"): "ABCMeta.__subclasscheck__ (CPython Modules/_abc.c)",
    ("<frozen abc>", "__dict__"): "ABCMeta.__subclasscheck__ (CPython Modules/_abc.c)",
    ("abc.py", "_abc_impl"): "ABCMeta.__subclasscheck__",
    ("abc.py", "__subclasshook__"): "ABCMeta.__subclasscheck__",
    ("abc.py", "__subclasses__"): "ABCMeta.__subclasscheck__",
    # collections.UserDict / UserList / UserString implement the item protocol in Python on top
    # of their `data` attribute; the read is the wrapper's own implementation of obj[key] / len /
    # iter / str, made by the standard library, not by the engine
    ("collections/__init__.py", "data"): "collections.User* protocol methods read self.data",
    ("collections/__init__.py", "__missing__"): "UserDict.__getitem__ probes self.__class__.__missing__",
    ("collections/__init__.py", "_UserList__cast"): "UserList comparison helpers",
    # enum members hash / compare / stringify through Python-level methods of enum.Enum
    ("enum.py", "_name_"): "enum.Enum.__hash__ / __repr__ (hash() of a member)",
    ("enum.py", "_value_"): "enum.Enum value descriptor",
    ("enum.py", "_sort_order_"): "enum ordering",
}


STR_API = frozenset(n for n in dir(str) if n not in dir(object) or n in ("__format__",))


def _bn(fn: str) -> str:
    """basename, with the package directory kept for __init__.py"""
    b = os.path.basename(fn)
    if b == "__init__.py":
        return os.path.basename(os.path.dirname(fn)) + "/__init__.py"
    return b


class Monitor:
    """Attribute-read log + per-case findings."""

    def __init__(self) -> None:
        self.liq_root = ""
        self.events = 0           # all logged reads since reset_case
        self.total_events = 0
        self.touched: set[str] = set()
        self.bad: list[dict[str, Any]] = []
        self.names: frozenset[str] = frozenset()
        self.ok_cache: set[tuple] = set()
        self.allowed_seen: set[str] = set()
        self.trace: list[tuple] | None = None  # filled in replay mode
        self.calls_seen = 0
        self.getattr_names: set[str] = set()   # names a forwarding __getattr__ was asked for
        self.callables_served = 0   # a drop's __getitem__ handed a callable to the engine

    def configure(self, repo_dir: str) -> None:
        self.liq_root = os.path.join(os.path.realpath(repo_dir), "liquid2") + os.sep

    def called(self, kind: str, frame) -> None:  # noqa: ANN001
        """A callable *item* (a value the host exposed through item access) was invoked."""
        if frame is None or frame.f_code.co_filename in HARNESS_FILES:
            return
        self.calls_seen += 1
        self.bad.append({
            "kind": "called",
            "key": (f"method-called:{kind}@{self.innermost_liquid2(frame)}" if kind.startswith(("dict.", "async."))
                    else f"callable-item-called:{kind}@{self.innermost_liquid2(frame)}"),
            "callable": kind,
            "caller": self.modfunc(frame.f_code) or f"{os.path.basename(frame.f_code.co_filename)}:{frame.f_code.co_name}",
        })

    def reset_case(self, names: frozenset[str]) -> None:
        self.events = 0
        self.touched = set()
        self.bad = []
        self.names = names

    # -- location helpers ---------------------------------------------------------------
    def modfunc(self, code) -> str | None:  # noqa: ANN001
        fn = code.co_filename
        if not fn.startswith(self.liq_root):
            fn = os.path.realpath(fn) if not fn.startswith("<") else fn
            if not fn.startswith(self.liq_root):
                return None
        mod = fn[len(self.liq_root):].removesuffix(".py").replace(os.sep, ".")
        return f"{mod}.{code.co_qualname}"

    def innermost_liquid2(self, frame) -> str:  # noqa: ANN001
        g = frame
        while g is not None:
            loc = self.modfunc(g.f_code)
            if loc is not None:
                return loc
            g = g.f_back
        return "<outside-liquid2>"

    def log(self, level: str, info: "SpyInfo", name: str, frame) -> None:  # noqa: ANN001
        code = frame.f_code
        fn = code.co_filename
        if fn in HARNESS_FILES or fn == "<string>":
            # "<string>": methods that dataclasses / namedtuple generate for the object's own class
            # (__eq__, __hash__, __repr__ reading the fields) -- the object's business, like ours
            return
        self.events += 1
        self.touched.add(info.shape)
        if self.trace is not None and len(self.trace) < 400:
            self.trace.append((level, info.shape, name, os.path.basename(fn), code.co_name))
        k = (level, info.shape, name, fn, code.co_name)
        if k in self.ok_cache:
            return
        caller_liq = self.modfunc(code)
        why = self.judge(level, info, name, fn, caller_liq)
        if why is None:
            self.ok_cache.add(k)
            src = "liquid2" if caller_liq else _bn(fn)
            self.allowed_seen.add(f"{level}:{name}<{src}")
            return
        if name in self.names or name.startswith("zq_"):
            nclass = "template-controlled"
        elif name.startswith(("CNRY_", "PUB")):
            nclass = "data-controlled"   # a value obtained from the data was used as a name
        else:
            nclass = f"fixed:{name}"
        self.bad.append({
            "kind": "attr-read",
            "key": f"attr-read:{nclass}@{self.innermost_liquid2(frame)}",
            "level": "instance" if level == "I" else "class",
            "name": name,
            "shape": info.shape,
            "caller": caller_liq or f"{os.path.basename(fn)}:{code.co_name}",
            "why": why,
        })

    @staticmethod
    def judge(level: str, info: "SpyInfo", name: str, fn: str, caller_liq: str | None) -> str | None:
        """None = allowed, else the reason it is not."""
        if level == "I":
            ent = INSTANCE_ALLOW.get(name)
            if ent is not None:
                when = ent[0]
                if when == "any":
                    return None
                if when == "mapping" and info.is_mapping:
                    return None
                if when == "sequence" and info.is_sequence:
                    return None
                if when.startswith("role:") and info.role == when[5:]:
                    return None
                return f"'{name}' is protocol only when {when}; object is {info.shape}"
            if caller_liq is None and (_bn(fn), name) in STDLIB_ALLOW:
                return None
            if info.is_str and name in STR_API:
                # the object IS a Liquid string (docs/variables_and_drops.md type table): string
                # filters call str methods on it; only what the subclass ADDS is off limits
                return None
            return f"instance attribute '{name}' is not part of the documented protocol"
        # class level
        if caller_liq is not None:
            if name in CLASS_ALLOW_LIQUID2:
                return None
            return f"engine code read class attribute '{name}'"
        if (_bn(fn), name) in STDLIB_ALLOW:
            return None
        return f"class attribute '{name}' read by {os.path.basename(fn)} on behalf of the engine"


MON = Monitor()


class SpyInfo:
    __slots__ = ("shape", "is_mapping", "is_sequence", "role", "is_str")

    def __init__(self, shape: str, is_mapping: bool, is_sequence: bool, role: str = "", is_str: bool = False):
        self.is_str = is_str
        self.shape = shape
        self.is_mapping = is_mapping
        self.is_sequence = is_sequence
        self.role = role


INFO: dict[type, SpyInfo] = {}
_get = sys._getframe  # noqa: SLF001


class SpyMeta(type):
    def __getattribute__(cls, name):  # noqa: ANN001, N805
        info = INFO.get(cls)
        if info is not None:
            MON.log("C", info, name, _get(1))
        return type.__getattribute__(cls, name)


class SpyABCMeta(ABCMeta):
    def __getattribute__(cls, name):  # noqa: ANN001, N805
        info = INFO.get(cls)
        if info is not None:
            MON.log("C", info, name, _get(1))
        return type.__getattribute__(cls, name)


def _canary(kind: str, detail: str, shape: str) -> str:
    return f"CNRY_{kind}_{detail}_{shape}"


def _hidden_ns(shape: str) -> dict[str, Any]:
    """Namespace entries every spy class gets: the things a template must never reach."""

    def __init__(self, idx: int = 0, **kw: Any) -> None:  # noqa: N807
        # HIDDEN_VARIANT: same object through the documented protocol, different hidden state
        self.secret = _canary("attr", "secret", shape) + ("_" + "Z" * 30000 if HIDDEN_VARIANT[0] else "")
        self._private = _canary("attr", "private", shape)
        self.password = _canary("attr", "password", shape)
        self.idx = idx
        self._setup(idx, **kw)

    def _setup(self, idx: int, **kw: Any) -> None:  # noqa: ARG001
        pass

    def __getattribute__(self, name):  # noqa: ANN001, N807
        MON.log("I", INFO[type(self)], name, _get(1))
        return object.__getattribute__(self, name)

    def delete(self, *a: Any, **k: Any) -> str:  # noqa: ARG001
        return _canary("methodresult", "delete", shape)

    def format(self, *a: Any, **k: Any) -> str:  # noqa: A003, ARG001
        return _canary("methodresult", "format", shape)

    def mro(self, *a: Any, **k: Any) -> str:  # noqa: ARG001
        return _canary("methodresult", "mro", shape)

    def __call__(self, *a: Any, **k: Any) -> str:  # noqa: ARG001
        return _canary("methodresult", "call", shape)

    def __str__(self) -> str:
        return f"PUBSTR_{shape.upper()}_{object.__getattribute__(self, 'idx')}"

    # async dunder protocol: NOT part of the documented drop protocol (only __getitem_async__
    # is).  Special-method lookups bypass __getattribute__, so these are tripwires: they record
    # being entered and hand out canaries.
    def __aiter__(self):  # noqa: ANN202
        MON.called("async.__aiter__", _get(1))
        return _AsyncRows(shape)

    def __anext__(self):  # noqa: ANN202
        MON.called("async.__anext__", _get(1))
        return _AsyncRows(shape).__anext__()

    def __await__(self):  # noqa: ANN202
        MON.called("async.__await__", _get(1))
        return _await_result(shape)

    def __aenter__(self):  # noqa: ANN202
        MON.called("async.__aenter__", _get(1))
        return _coro_result(shape)

    def __aexit__(self, *a: Any):  # noqa: ANN202
        MON.called("async.__aexit__", _get(1))
        return _coro_result(shape)

    return {
        "__aiter__": __aiter__, "__anext__": __anext__, "__await__": __await__,
        "__aenter__": __aenter__, "__aexit__": __aexit__,
        "__init__": __init__,
        "_setup": _setup,
        "__getattribute__": __getattribute__,
        "__str__": __str__,
        "__call__": __call__,
        "__doc__": _canary("classdoc", "doc", shape),
        "__module__": f"CNRY_modulename_mod_{shape}",
        "class_secret": _canary("classattr", "class_secret", shape),
        "prop": property(lambda self: _canary("property", "prop", shape)),
        "delete": delete,
        "format": format,
        "mro": mro,
        "smeth": staticmethod(lambda *a: _canary("methodresult", "smeth", shape)),
        "cmeth": classmethod(lambda cls, *a: _canary("methodresult", "cmeth", shape)),
    }


class _AsyncRows:
    """What a hostile drop would hand out through `async for`: its internal rows."""

    def __init__(self, shape: str) -> None:
        self.shape = shape
        self.i = 0

    def __aiter__(self):  # noqa: ANN204
        return self

    async def __anext__(self) -> Any:
        if self.i >= 2:
            raise StopAsyncIteration
        self.i += 1
        return _canary("asyncrow", f"row{self.i}", self.shape)


def _await_result(shape: str):  # noqa: ANN202
    if False:  # noqa: SIM108
        yield None
    return _canary("awaitresult", "value", shape)


async def _coro_result(shape: str) -> str:
    return _canary("awaitresult", "ctx", shape)


HIDDEN_VARIANT = [0]   # set by the runner around data construction (non-interference twin)
CLASSES: dict[str, type] = {}
FACTORIES: dict[str, Any] = {}


def _make(shape: str, bases: tuple[type, ...], ns: dict[str, Any], *, role: str = "") -> type:
    full = _hidden_ns(shape)
    full.update(ns)
    abc_based = any(isinstance(b, ABCMeta) for b in bases)
    meta = SpyABCMeta if abc_based else SpyMeta
    cls = meta(f"CNRY_classname_cls_{shape}", bases or (object,), full)
    INFO[cls] = SpyInfo(shape, issubclass(cls, Mapping), issubclass(cls, Sequence), role,
                        issubclass(cls, str))
    CLASSES[shape] = cls
    return cls


def _o(self, name):  # noqa: ANN001
    return object.__getattribute__(self, name)


# -- shapes -----------------------------------------------------------------------------

Plain = _make("plain", (), {})


def _callprop_ns() -> dict[str, Any]:
    sh = "callprop"
    return {
        # names that ARE protocol names on a Mapping/Sequence but not on this object
        "keys": lambda self: [_canary("methodresult", "keys", sh)],
        "items": lambda self: [(_canary("methodresult", "items", sh), 1)],
        "values": lambda self: [_canary("methodresult", "values", sh)],
        "get": lambda self, *a: _canary("methodresult", "get", sh),
        "index": lambda self, *a: _canary("methodresult", "index", sh),
        "count": lambda self, *a: _canary("methodresult", "count", sh),
        "upper": lambda self: _canary("methodresult", "upper", sh),
        # fixed names that string / date / number helpers call on values they assume are
        # str / datetime / Decimal
        **{nm: (lambda self, *a, _nm=nm, **kw: _canary("methodresult", _nm, sh))
           for nm in ("replace", "lower", "split", "strip", "encode", "strftime", "isoformat",
                      "timestamp", "utcoffset", "astimezone", "quantize", "as_tuple", "is_finite",
                      "startswith", "endswith", "isdigit", "translate", "tzname", "decode")},
        "gettext": lambda self, m, *a: _canary("methodresult", "gettext", sh) + str(m),
        "ngettext": lambda self, m, *a: _canary("methodresult", "ngettext", sh) + str(m),
        "pgettext": lambda self, c, m, *a: _canary("methodresult", "pgettext", sh) + str(m),
        "npgettext": lambda self, c, m, *a: _canary("methodresult", "npgettext", sh) + str(m),
        "size": property(lambda self: _canary("property", "size", sh)),
        "first": property(lambda self: _canary("property", "first", sh)),
        "last": property(lambda self: _canary("property", "last", sh)),
    }


CallProp = _make("callprop", (), _callprop_ns())

EXPOSED_KEYS = ("title", "n", "child", "tags", "flag", "nothing")


def _map_setup(self, idx: int, **kw: Any) -> None:  # noqa: ARG001
    self._exposed = {
        "title": f"PUB_TITLE_{idx}",
        "n": 7 + idx,
        "child": Plain(idx + 10),
        "tags": [f"PUB_TAG_{idx}A", f"PUB_TAG_{idx}B"],
        "flag": idx % 2 == 0,
        "nothing": None,
    }


def _map_getitem(self, key):  # noqa: ANN001
    exposed = _o(self, "_exposed")
    if isinstance(key, str) and key in exposed:
        return exposed[key]
    raise KeyError(key)


_MAP_NS = {
    "_setup": _map_setup,
    "__getitem__": _map_getitem,
    "__iter__": lambda self: iter(_o(self, "_exposed")),
    "__len__": lambda self: len(_o(self, "_exposed")),
}

MapDrop = _make("mapping", (Mapping,), dict(_MAP_NS))


def _seq_setup(self, idx: int, **kw: Any) -> None:  # noqa: ARG001
    self._items = [MapDrop(idx * 3 + j) for j in range(3)]


def _seq_getitem(self, key):  # noqa: ANN001
    if isinstance(key, slice):
        return _o(self, "_items")[key]
    if isinstance(key, int) and not isinstance(key, bool):
        return _o(self, "_items")[key]
    raise TypeError("sequence indices must be integers")


SeqDrop = _make("sequence", (Sequence,), {
    "_setup": _seq_setup,
    "__getitem__": _seq_getitem,
    "__len__": lambda self: len(_o(self, "_items")),
})


def _raiser(shape: str, exc: type[BaseException]) -> type:
    def __getitem__(self, key):  # noqa: ANN001, N807
        raise exc(key)

    return _make(shape, (), {"__getitem__": __getitem__})


RaiserKey = _raiser("raiser_key", KeyError)
RaiserType = _raiser("raiser_type", TypeError)
RaiserIndex = _raiser("raiser_index", IndexError)
RaiserAttr = _raiser("raiser_attr", AttributeError)
RaiserValue = _raiser("raiser_value", ValueError)


def _liq_setup(self, idx: int, **kw: Any) -> None:
    self._lv = kw.get("value", f"PUB_LIQ_{idx}")


LiquidDrop = _make("liquid", (), {
    "_setup": _liq_setup,
    "__liquid__": lambda self: _o(self, "_lv"),
})

LiquidKey = _make("liquidkey", (), {
    "_setup": _liq_setup,
    "__liquid__": lambda self: _o(self, "_lv"),
})

HtmlDrop = _make("html", (), {
    "__html__": lambda self: f"<b>PUB_HTML_{_o(self, 'idx')}</b>",
})


async def _async_getitem(self, key):  # noqa: ANN001
    await Gate("drop")
    return _map_getitem(self, key)


AsyncDrop = _make("asyncdrop", (Mapping,), {**_MAP_NS, "__getitem_async__": _async_getitem})

Magic = _make("magic", (), {
    "__int__": lambda self: 7,
    "__float__": lambda self: 7.5,
    "__index__": lambda self: 1,
    "__len__": lambda self: 5,
    "__bool__": lambda self: True,
    "__eq__": lambda self, other: other is self or other == 7,
    "__hash__": lambda self: 7,
    "__lt__": lambda self, other: False,
    "__contains__": lambda self, item: item == "PUB_IN",
    "__iter__": lambda self: iter([f"PUB_IT_{_o(self, 'idx')}"]),
    "__reversed__": lambda self: iter([f"PUB_REV_{_o(self, 'idx')}"]),
})

IterOnly = _make("iterable", (), {
    "__iter__": lambda self: iter([MapDrop(_o(self, "idx")), MapDrop(_o(self, "idx") + 1)]),
})

ForceDefault = _make("forcedefault", (), {"force_liquid_default": True})


def _cat_setup(self, idx: int, **kw: Any) -> None:
    self._map = dict(kw.get("messages") or {})
    self.calls = []


def _cat(fn: str):
    def m(self, *args):  # noqa: ANN001
        _o(self, "calls").append((fn, args))
        msgs = [a for a in args if isinstance(a, str)]
        # message id = singular (first str for gettext/ngettext, second for p*gettext)
        mid = msgs[1] if fn in ("pgettext", "npgettext") and len(msgs) > 1 else (msgs[0] if msgs else "")
        out = _o(self, "_map").get(mid, mid)
        return out

    return m


Catalog = _make("catalog", (), {
    "_setup": _cat_setup,
    "gettext": _cat("gettext"),
    "ngettext": _cat("ngettext"),
    "pgettext": _cat("pgettext"),
    "npgettext": _cat("npgettext"),
}, role="translations")

# ---------------------------------------------------------------------------------------
# subclasses of the builtin containers (NOT abc drops).  C-level dict / list methods read the
# underlying storage and bypass every override, so the storage holds canaries under all the
# names the workload tries while the overridden protocol methods expose a strict subset.
# ---------------------------------------------------------------------------------------

STORAGE_NAMES: list[str] = ["secret", "_private", "password", "__class__", "__dict__", "__init__",
                            "prop", "delete", "keys", "format", "get", "values", "items"]


def _exposed_for(idx: int) -> dict[str, Any]:
    return {
        "title": f"PUB_TITLE_{idx}", "n": 7 + idx, "child": Plain(idx + 10),
        "tags": [f"PUB_TAG_{idx}A", f"PUB_TAG_{idx}B"], "flag": idx % 2 == 0, "nothing": None,
    }


def _dd_setup(self, idx: int, **kw: Any) -> None:  # noqa: ARG001
    self._exposed = _exposed_for(idx)
    for n in STORAGE_NAMES:
        dict.__setitem__(self, n, f"CNRY_dictstorage_{n.strip('_') or 'x'}_dictdrop")
    dict.__setitem__(self, "hidden_entry", "CNRY_dictstorage_hidden_entry_dictdrop")
    for k, v in _o(self, "_exposed").items():
        dict.__setitem__(self, k, v)


DictDrop = _make("dictdrop", (dict,), {
    "_setup": _dd_setup,
    "__getitem__": _map_getitem,
    "__iter__": lambda self: iter(_o(self, "_exposed")),
    "__len__": lambda self: len(_o(self, "_exposed")),
    "__contains__": lambda self, k: k in _o(self, "_exposed"),
    "keys": lambda self: _o(self, "_exposed").keys(),
    "items": lambda self: _o(self, "_exposed").items(),
    "__reversed__": lambda self: reversed(list(_o(self, "_exposed"))),
    # get / values / pop / setdefault / copy deliberately NOT overridden (dict's own, C level)
})


def _dg_setup(self, idx: int, **kw: Any) -> None:  # noqa: ARG001
    self._hidden = "kept-private"
    for k, v in _exposed_for(idx).items():
        dict.__setitem__(self, k, v)


def _dg_method(nm: str):
    def m(self, *a: Any, **k: Any) -> Any:  # noqa: ARG001
        MON.called(f"dict.{nm}", _get(1))
        c = _canary("methodresult", nm, "dictget")
        return [c] if nm in ("values", "keys") else ({"x": c} if nm == "copy" else c)

    return m


DictGet = _make("dictget", (dict,), {
    "_setup": _dg_setup,
    **{nm: _dg_method(nm) for nm in ("get", "setdefault", "pop", "popitem", "values", "copy", "update")},
})


def _ld_setup(self, idx: int, **kw: Any) -> None:  # noqa: ARG001
    self._pub = [MapDrop(idx * 3 + j) for j in range(3)]
    list.extend(self, [f"CNRY_liststorage_el{j}_listdrop" for j in range(5)])


def _ld_getitem(self, key):  # noqa: ANN001
    return _o(self, "_pub")[key]


ListDrop = _make("listdrop", (list,), {
    "_setup": _ld_setup,
    "__getitem__": _ld_getitem,
    "__iter__": lambda self: iter(_o(self, "_pub")),
    "__len__": lambda self: len(_o(self, "_pub")),
    "__contains__": lambda self, x: x in _o(self, "_pub"),
    "__reversed__": lambda self: reversed(_o(self, "_pub")),
    # index / count / copy / __add__ deliberately NOT overridden (list's own, C level)
})


def _ss_new(cls, idx: int = 0, **kw: Any):  # noqa: ANN001, ARG001
    return str.__new__(cls, f"PUB_STRSUB_{idx}")


StrSub = _make("strsub", (str,), {"__new__": _ss_new, "__str__": lambda self: str.__str__(self)})

# ---------------------------------------------------------------------------------------
# the remaining common Python value kinds, as spies where a subclass is possible.
# Named tuples: docs/variables_and_drops.md "Paths to variables" -- the engine resolves
# segments with __getitem__; a tuple's items are its integer indexes, so FIELD NAMES are not
# items (nt['label'] is a TypeError in Python) and are hidden names like any other attribute.
# ---------------------------------------------------------------------------------------
import collections as _collections  # noqa: E402
import dataclasses as _dataclasses  # noqa: E402
import enum as _enum  # noqa: E402
import types as _types  # noqa: E402
import typing as _typing  # noqa: E402

_NtBase = _collections.namedtuple("_NtBase", ["label", "qty", "inner"])


class _TypedNtBase(_typing.NamedTuple):
    label: str
    qty: int
    inner: Any


def _nt_ns(base: type, shape: str) -> dict[str, Any]:
    def __new__(cls, idx: int = 0, **kw: Any):  # noqa: ANN001, ARG001, N807
        return base.__new__(cls, f"PUB_NT_LABEL_{idx}", 5 + idx, MapDrop(idx))

    return {
        "__new__": __new__,
        "API_TOKEN": _canary("classattr", "API_TOKEN", shape),
        "balance": property(lambda self: _canary("property", "balance", shape)),
        "describe": lambda self: _canary("methodresult", "describe", shape),
    }


NTuple = _make("ntuple", (_NtBase,), _nt_ns(_NtBase, "ntuple"))
TypedNTuple = _make("typednt", (_TypedNtBase,), _nt_ns(_TypedNtBase, "typednt"))
NTupleSub = _make("ntuplesub", (NTuple,), {"EXTRA": _canary("classattr", "EXTRA", "ntuplesub")})


def _ts_new(cls, idx: int = 0, **kw: Any):  # noqa: ANN001, ARG001
    return tuple.__new__(cls, (f"PUB_TS_{idx}A", f"PUB_TS_{idx}B", MapDrop(idx)))


TupleSub = _make("tuplesub", (tuple,), {"__new__": _ts_new})


def _dc_init(self, idx: int = 0, **kw: Any) -> None:  # noqa: ARG001
    sh = INFO[type(self)].shape
    for k_, v in (("idx", idx), ("label", f"CNRY_attr_label_{sh}"), ("qty", 3),
                  ("secret", _canary("attr", "secret", sh)), ("password", _canary("attr", "password", sh))):
        object.__setattr__(self, k_, v)


def _dc(shape: str, **dc_kw: Any) -> type:
    ns = {"__annotations__": {"idx": int, "label": str, "qty": int, "secret": str, "password": str},
          "__init__": _dc_init}
    cls = _make(shape, (), ns)
    info = INFO.pop(cls)
    cls2 = _dataclasses.dataclass(init=False, **dc_kw)(cls)
    INFO[cls2] = info
    CLASSES[shape] = cls2
    return cls2


DcPlain = _dc("dc_plain")
DcFrozen = _dc("dc_frozen", frozen=True)
DcSlots = _dc("dc_slots", slots=True)


class SpyEnumMeta(_enum.EnumMeta):
    def __getattribute__(cls, name):  # noqa: ANN001, N805
        info = INFO.get(cls)
        if info is not None:
            MON.log("C", info, name, _get(1))
        return type.__getattribute__(cls, name)


def _mk_enum() -> type:
    name = "CNRY_classname_cls_enum"
    ns = SpyEnumMeta.__prepare__(name, (_enum.Enum,))
    ns["LOW"] = _canary("enumvalue", "low", "enum")
    ns["HIGH"] = _canary("enumvalue", "high", "enum")

    def __getattribute__(self, name):  # noqa: ANN001, N807
        info = INFO.get(type(self))
        if info is not None:   # None while EnumMeta is still building the members
            MON.log("I", info, name, _get(1))
        return object.__getattribute__(self, name)

    ns["__getattribute__"] = __getattribute__
    ns["__str__"] = lambda self: "PUBSTR_ENUM_MEMBER"
    ns["describe"] = lambda self: _canary("methodresult", "describe", "enum")
    ns["prop"] = property(lambda self: _canary("property", "prop", "enum"))
    ns["__module__"] = "CNRY_modulename_mod_enum"
    cls = SpyEnumMeta(name, (_enum.Enum,), ns)
    INFO[cls] = SpyInfo("enum", False, False)
    CLASSES["enum"] = cls
    members = [cls.LOW, cls.HIGH]
    FACTORIES["enum"] = lambda idx=0, **kw: members[idx % 2]
    return cls


EnumShape = _mk_enum()

SimpleNS = _make("simplens", (_types.SimpleNamespace,), {})


def _ud_setup(self, idx: Any, **kw: Any) -> None:  # noqa: ARG001
    self.data = _exposed_for(idx if isinstance(idx, int) else 0)


UserDictShape = _make("userdict", (_collections.UserDict,), {"_setup": _ud_setup})


def _ul_init(self, idx: Any = 0, **kw: Any) -> None:  # noqa: ARG001
    # UserList.__getitem__(slice) / copy call self.__class__(list)
    self.secret = _canary("attr", "secret", "userlist")
    self._private = _canary("attr", "private", "userlist")
    self.password = _canary("attr", "password", "userlist")
    if isinstance(idx, int):
        self.idx = idx
        self.data = [MapDrop(idx * 3 + j) for j in range(3)]
    else:
        self.idx = 0
        self.data = list(idx)


UserListShape = _make("userlist", (_collections.UserList,), {"__init__": _ul_init})


def _us_init(self, idx: Any = 0, **kw: Any) -> None:  # noqa: ARG001
    self.secret = _canary("attr", "secret", "userstring")
    self._private = _canary("attr", "private", "userstring")
    self.password = _canary("attr", "password", "userstring")
    self.idx = idx if isinstance(idx, int) else 0
    self.data = f"PUB_USERSTR_{idx}" if isinstance(idx, int) else str(idx)


UserStringShape = _make("userstring", (_collections.UserString,), {
    "__init__": _us_init, "__str__": lambda self: str(_o(self, "data")),
})


def _dp_setup(self, idx: int, **kw: Any) -> None:  # noqa: ARG001
    # a careless dict subclass: only __getitem__/__contains__ are restricted.  Its other entries
    # stay reachable through iteration / items() / str() -- the DOCUMENTED protocol -- so they are
    # not canaries (marker PUBVIA_ITER); the attribute log and dict.get-style bypasses still apply
    self._allowed = ("title", "n")
    dict.__setitem__(self, "title", f"PUB_TITLE_{idx}")
    dict.__setitem__(self, "n", 7 + idx)
    for nm in ("other", "internal_note"):
        dict.__setitem__(self, nm, f"PUBVIA_ITER_{nm}")


def _dp_getitem(self, key):  # noqa: ANN001
    if key in _o(self, "_allowed"):
        return dict.__getitem__(self, key)
    raise KeyError(key)


DictPartial = _make("dictpartial", (dict,), {
    "_setup": _dp_setup, "__getitem__": _dp_getitem,
    "__contains__": lambda self, k: k in _o(self, "_allowed"),
    "__str__": dict.__repr__,   # i.e. what str() gives when the host did not define __str__
})

# ---------------------------------------------------------------------------------------
# Sized / Sequence / Mapping objects with boundary lengths, carrying properties named like the
# attributes of range / slice / list / numbers (a fallback written for one builtin type must not
# duck-type its way into a drop).  The getters return a recognisable number (77000xx77).
# ---------------------------------------------------------------------------------------
import sys as _sys  # noqa: E402

TRIPWIRE_PROPS = ("start", "stop", "step", "index", "count", "real", "imag", "numerator",
                  "denominator", "length", "maxlen", "itemsize", "ndim", "shape")


def _tripwires() -> dict[str, Any]:
    return {nm: property(lambda self, _i=i: 7700000 + _i * 100 + 77) for i, nm in enumerate(TRIPWIRE_PROPS)}


def _len_fn(kind: str):  # noqa: ANN202
    val = {"0": 0, "1": 1, "max": _sys.maxsize, "over": _sys.maxsize + 1, "neg": -1}[kind]
    return lambda self: val


for _k in ("0", "1", "max", "over", "neg"):
    _make(f"sized{_k}", (), {**_tripwires(), "__len__": _len_fn(_k)})

_make("seqover", (Sequence,), {**_tripwires(), "_setup": _seq_setup, "__getitem__": _seq_getitem,
                                "__len__": _len_fn("over")})
_make("seqmax", (Sequence,), {**_tripwires(), "_setup": _seq_setup, "__getitem__": _seq_getitem,
                               "__len__": _len_fn("max")})
_make("mapover", (Mapping,), {**_tripwires(), **_MAP_NS, "__len__": _len_fn("over")})
_make("mapneg", (Mapping,), {**_tripwires(), **_MAP_NS, "__len__": _len_fn("neg")})

# ---------------------------------------------------------------------------------------
# forwarding proxies: the class has NO __getitem__ (obj[key] is a TypeError, so nothing is exposed
# through the item protocol) but __getattr__ forwards attribute lookups to a wrapped object kept in
# a private attribute.  `obj[key]` resolves __getitem__ on the TYPE; `getattr(obj, "__getitem__")`
# goes through __getattr__ and gets the wrapped object's bound method.  The wrapped dict holds a
# canary under every name the workload tries.  Every forwarded name is logged (it also passes
# through the class's logging __getattribute__ first, where the allow-list judges it).
# ---------------------------------------------------------------------------------------


def _proxy_ns(shape: str, wrapped_kind: str, only_dunder: bool) -> dict[str, Any]:
    def _setup(self, idx: int, **kw: Any) -> None:  # noqa: ARG001
        if wrapped_kind == "dict":
            w: Any = {n: f"CNRY_wrapped_{n.strip('_') or 'x'}_{shape}" for n in STORAGE_NAMES}
            w["api_key"] = f"CNRY_wrapped_api_key_{shape}"
        elif wrapped_kind == "list":
            w = [f"CNRY_wrapped_el{j}_{shape}" for j in range(3)]
        else:
            w = _types.SimpleNamespace(api_key=f"CNRY_wrapped_api_key_{shape}",
                                       token=f"CNRY_wrapped_token_{shape}")
        self._wrapped = w

    def __getattr__(self, name):  # noqa: ANN001, N807
        MON.getattr_names.add(name)
        if only_dunder and not (name.startswith("__") and name.endswith("__")):
            raise AttributeError(name)
        if name == "_wrapped":
            raise AttributeError(name)
        return getattr(_o(self, "_wrapped"), name)

    return {"_setup": _setup, "__getattr__": __getattr__}


_make("proxyall", (), _proxy_ns("proxyall", "dict", False))
_make("proxydunder", (), _proxy_ns("proxydunder", "dict", True))
_make("proxylist", (), _proxy_ns("proxylist", "list", False))
_make("proxyrecord", (), _proxy_ns("proxyrecord", "record", False))

SPY_SHAPES = [
    "plain", "callprop", "mapping", "sequence", "raiser_key", "raiser_type", "raiser_index",
    "raiser_attr", "raiser_value", "liquid", "html", "asyncdrop", "magic", "iterable",
    "forcedefault", "dictdrop", "dictget", "listdrop", "strsub",
    "ntuple", "typednt", "ntuplesub", "tuplesub", "dc_plain", "dc_frozen", "dc_slots", "enum",
    "simplens", "userdict", "userlist", "userstring", "dictpartial",
    "sized0", "sized1", "sizedmax", "sizedover", "sizedneg", "seqover", "seqmax", "mapover", "mapneg",
    "proxyall", "proxydunder", "proxylist", "proxyrecord",
]

# what each spy shape legitimately shows for a *string key* (relation check is skipped for
# these names); first/last/size are special everywhere
VISIBLE: dict[str, frozenset[str]] = {s: frozenset() for s in SPY_SHAPES}
VISIBLE["mapping"] = frozenset(EXPOSED_KEYS)
VISIBLE["asyncdrop"] = frozenset(EXPOSED_KEYS)
VISIBLE["sequence"] = frozenset(EXPOSED_KEYS)   # its items are mapping drops
VISIBLE["iterable"] = frozenset(EXPOSED_KEYS)
VISIBLE["dictdrop"] = frozenset(EXPOSED_KEYS)
VISIBLE["dictget"] = frozenset(EXPOSED_KEYS)
VISIBLE["listdrop"] = frozenset(EXPOSED_KEYS)   # its items are mapping drops
VISIBLE["userdict"] = frozenset(EXPOSED_KEYS)
VISIBLE["userlist"] = frozenset(EXPOSED_KEYS)
for _s in ("ntuple", "typednt", "ntuplesub", "tuplesub"):
    VISIBLE[_s] = frozenset(EXPOSED_KEYS)          # one of the tuple's ITEMS is a mapping drop
for _s in ("seqover", "seqmax", "mapover", "mapneg"):
    VISIBLE[_s] = frozenset(EXPOSED_KEYS)
VISIBLE["dictpartial"] = frozenset(("title", "n", "other", "internal_note"))


def make(shape: str, idx: int = 0, **kw: Any) -> Any:
    f = FACTORIES.get(shape)
    if f is not None:
        return f(idx, **kw)
    return CLASSES[shape](idx, **kw)


def is_spy(o: object) -> bool:
    return type(o) in INFO


# ---------------------------------------------------------------------------------------
# callable items: values the host exposed through ITEM access that happen to be callable.
# The engine may hand them around and stringify them (that is what the host exposed); it
# must never CALL them nor look inside what a call would return.  Every callable records
# that it was called (MON.called) and returns a mapping holding `callresult` canaries.
# ---------------------------------------------------------------------------------------

CALL_RESULT_KEYS = ("token", "list", "nested", "n")


def call_result(kind: str) -> dict[str, Any]:
    return {
        "token": f"CNRY_callresult_token_{kind}",
        "list": [f"CNRY_callresult_list0_{kind}", f"CNRY_callresult_list1_{kind}"],
        "nested": {"token": f"CNRY_callresult_nested_{kind}"},
        "n": 41,
    }


def _vault_open(self):  # noqa: ANN001
    MON.called("method", _get(1))
    return call_result("method")


Vault = _make("vault", (), {"open": _vault_open})


def _callobj_call(self, *a: Any, **k: Any):  # noqa: ANN001, ARG001
    MON.called("callobj", _get(1))
    return call_result("callobj")


CallObj = _make("callobj", (), {"__call__": _callobj_call})


def lazy_func() -> dict[str, Any]:
    MON.called("func", _get(1))
    return call_result("func")


lazy_lambda = lambda: (MON.called("lambda", _get(1)), call_result("lambda"))[1]  # noqa: E731


def _lazy_with_arg(tag: str) -> dict[str, Any]:
    MON.called("partial", _get(1))
    return call_result("partial")


async def lazy_coro() -> dict[str, Any]:
    MON.called("coro", _get(1))
    return call_result("coro")


class LazyClass:
    """Instantiating it is a call; the instance is a little read-only mapping."""

    def __init__(self) -> None:
        MON.called("class", _get(1))
        self._d = call_result("class")

    def __getitem__(self, key: str) -> Any:
        return self._d[key]

    def __len__(self) -> int:
        return len(self._d)

    def __iter__(self):  # noqa: ANN204
        return iter(self._d)

    def __str__(self) -> str:
        return "PUBSTR_LAZYINSTANCE"

    @staticmethod
    def static_loader() -> dict[str, Any]:
        MON.called("staticmethod", _get(1))
        return call_result("staticmethod")

    @classmethod
    def class_loader(cls) -> dict[str, Any]:
        MON.called("classmethod", _get(1))
        return call_result("classmethod")


CALLABLE_KINDS = ["method", "func", "lambda", "partial", "class", "coro", "builtin", "callobj",
                  "staticmethod", "classmethod"]


def make_callables() -> dict[str, Any]:
    """Fresh callables, one per kind (the call of `builtin` cannot be recorded; its result
    canary still can be seen)."""
    import functools

    return {
        "method": Vault(0).open,
        "func": lazy_func,
        "lambda": lazy_lambda,
        "partial": functools.partial(_lazy_with_arg, "x"),
        "class": LazyClass,
        "coro": lazy_coro,
        "builtin": call_result("builtin").copy,
        "callobj": CallObj(0),
        "staticmethod": LazyClass.static_loader,
        "classmethod": LazyClass.class_loader,
    }


def _calldrop_setup(self, idx: int, **kw: Any) -> None:  # noqa: ARG001
    self._exposed = dict(kw.get("items") or {})
    self._exposed["title"] = "PUB_CALLDROP"


def _calldrop_getitem(self, key):  # noqa: ANN001
    exposed = _o(self, "_exposed")
    if isinstance(key, str) and key in exposed:
        v = exposed[key]
        if callable(v):
            MON.callables_served += 1
        return v
    raise KeyError(key)


CallDrop = _make("calldrop", (Mapping,), {**_MAP_NS, "_setup": _calldrop_setup, "__getitem__": _calldrop_getitem})
