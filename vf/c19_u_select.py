"""C19 units: where / reject / find / find_index / has.

Documentation used: filter_reference.md sections where, reject, find, find_index, has
("property ... equal to a value"; "If a second argument is not given, only elements with
the named property that are truthy will be included" / falsy for reject; lambda forms
select by "an arbitrary Boolean expression"); truthiness and equality as in
variables/appendix A (only nil and false are falsy; a boolean equals only a boolean).
CTS: "where, value is explicit nil" (nil value == value absent), "find, array of strings,
substring match", "has, array of ints", "find, array of hashes, with a nil".
"""

from __future__ import annotations

import random
from typing import Any

from .c19_lib import KEYS
from .c19_lib import MISSING
from .c19_lib import g_hashes
from .c19_lib import g_list
from .c19_lib import hget
from .c19_lib import is_num
from .c19_lib import lam_path
from .c19_lib import leq
from .c19_lib import skey
from .c19_lib import truthy
from .c19_lib import value_class
from .c19_run import Runner
from .c19_run import unit

VALUES = [False, True, 0, 1, 2, "", "a", "b", "B", 1.5, 0.0, "0", 10**20, -3, "kitchen", "false", 1.0,
          "Straße", "STRASSE", "strasse", "é", "e\u0301", "ς", "σ", "ﬁ", "fi"]


def gen_select(rng: random.Random, i: int) -> dict[str, Any]:
    m = rng.random()
    if m < 0.12:
        pool = rng.choice((["x", "y", "z", "zoo", "", "oo"], [1, 2, 3, 0, 2, 10**30]))
        x: Any = g_list(rng, pool, 0, 6)
        k: Any = rng.choice(pool)
        return {"mode": "scalars", "x": x, "k": k, "pseed": rng.randrange(10**6)}
    x = g_hashes(rng)
    k = rng.choice(KEYS)
    if m < 0.55:
        return {"mode": "truthy", "x": x, "k": k, "pseed": rng.randrange(10**6)}
    if m < 0.62:
        return {"mode": "nilvalue", "x": x, "k": k, "pseed": rng.randrange(10**6)}
    present = [h[k] for h in x if isinstance(h, dict) and k in h and h[k] is not None
               and not isinstance(h[k], (list, dict))]
    v = rng.choice(present) if present and rng.random() < 0.7 else rng.choice(VALUES)
    return {"mode": "value", "x": x, "k": k, "v": v, "pseed": rng.randrange(10**6)}


def _pred(mode: str, k: Any, v: Any):  # noqa: ANN202
    if mode == "value":
        return lambda h: leq(_nil(hget(h, k)), v)
    return lambda h: truthy(_nil(hget(h, k)))


def _nil(v: Any) -> Any:
    return None if v is MISSING else v


def _qual(mode: str, k: Any, v: Any, E: list[Any], got: Any, want: list[Any]) -> str:
    """Class of the first element on which the observed selection differs."""
    if not isinstance(got, list):
        return "not-an-array"
    gk = [skey(_j(e)) for e in got]
    wk = [skey(_j(e)) for e in want]
    for h in E:
        s = skey(_j(h))
        if (s in gk) != (s in wk):
            pv = hget(h, k)
            if pv is MISSING:
                return "missing-key"
            if mode == "value":
                if isinstance(pv, bool) != isinstance(v, bool) and (is_num(pv) or is_num(v)):
                    return "bool-vs-number"
                return value_class(pv) + "-vs-" + value_class(v)
            return value_class(pv)
    return "order-or-count"


def _j(v: Any) -> Any:
    from .c19_lib import jn

    return jn(v)


@unit("select", ("where", "reject", "find", "find_index", "has"), gen_select)
def case_select(R: Runner, inp: dict[str, Any]) -> None:
    mode, x, k = inp["mode"], inp["x"], inp["k"]
    if mode == "scalars":
        return _scalars(R, x, k)
    v = inp.get("v")
    args = (k, v) if mode == "value" else ((k, None) if mode == "nilvalue" else (k,))
    P = _pred(mode, k, v)
    E = list(x)
    want_w = [h for h in E if P(h)]
    want_r = [h for h in E if not P(h)]
    lam = lam_path(k) + (" == v" if mode == "value" else "")
    law_s = "stringkey-equality" if mode == "value" else "stringkey-truthiness"
    law_l = "lambda-equality" if mode == "value" else "lambda-truthiness"
    px = list(E)
    random.Random(inp["pseed"]).shuffle(px)

    res: dict[str, Any] = {}
    for f, want in (("where", want_w), ("reject", want_r)):
        s = R.both(f, x, *args)
        lm = R.T(f, f"{f}: i => {lam}", x=x, v=v)
        res[f] = s
        R.expect(f, law_s, s, want, lambda s=s, want=want: _qual(mode, k, v, E, s.value, want))
        R.expect(f, law_l, lm, want, lambda lm=lm, want=want: _qual(mode, k, v, E, lm.value, want))
        if mode == "value":
            # the compared value may just as well be a template-local variable
            R.locals_agree(f, f"{f}: i => {lam_path(k)} == t", lm, v, "lambda-sees-template-local-variable", x=x)
        if s.ok and lm.ok:
            R.law(f, "form-equivalence", skey(s.value) == skey(lm.value),
                  lambda s=s, lm=lm: _qual(mode, k, v, E, s.value, lm.value),
                  {"stringkey": s.value, "lambda": lm.value})
            R.ctx.count("lambda_form_comparisons") if R.recording else None
        # order / duplicates must not change the selection (multiset relation)
        sp = R.both(f, px, *args)
        if s.ok and sp.ok:
            R.law(f, "order-independent",
                  sorted(map(repr, map(skey, s.value))) == sorted(map(repr, map(skey, sp.value))),
                  "", {"input": s.value, "permuted": sp.value})
        elif s.kind != "foreign" and sp.kind != "foreign":
            R.law(f, "order-independent", s.kind == sp.kind, "fails-for-one-order")
    w, r = res["where"], res["reject"]
    if w.ok and r.ok and isinstance(w.value, list) and isinstance(r.value, list):
        # where (+) reject = input, order kept, decided per value (duplicates together)
        wset = {skey(e) for e in w.value}
        jE = [_j(h) for h in E]
        ok = ([e for e in jE if skey(e) in wset] == w.value
              and [e for e in jE if skey(e) not in wset] == r.value
              and _strict_eq(w.value, [e for e in jE if skey(e) in wset])
              and _strict_eq(r.value, [e for e in jE if skey(e) not in wset]))
        R.law("reject", "partition-with-where", ok, "", {"where": w.value, "reject": r.value})
        R.law("where", "partition-with-reject", ok, "", {"where": w.value, "reject": r.value})

    # find / find_index / has against the reference and against where
    want_f = want_w[0] if want_w else None
    want_i = next((i for i, h in enumerate(E) if P(h)), None)
    fs = R.both("find", x, *args)
    fl = R.T("find", f"find: i => {lam}", x=x, v=v)
    q_f = lambda: _qual(mode, k, v, E, [fs.value] if fs.ok and fs.value is not None else [],  # noqa: E731
                        [want_f] if want_f is not None else [])
    R.expect("find", law_s, fs, want_f, q_f)
    R.expect("find", law_l, fl, want_f, "")
    if mode == "value":
        R.locals_agree("find", f"find: i => {lam_path(k)} == t", fl, v, "lambda-sees-template-local-variable",
                       sites=("assign", "for", "macro"), x=x)
    if fs.ok and w.ok:
        R.law("find", "first-of-where", skey(fs.value) == skey(w.value[0] if w.value else None), "",
              {"find": fs.value, "where": w.value})
    if fs.ok and fl.ok:
        R.law("find", "form-equivalence", skey(fs.value) == skey(fl.value), "",
              {"stringkey": fs.value, "lambda": fl.value})
        R.ctx.count("lambda_form_comparisons") if R.recording else None
    is_ = R.both("find_index", x, *args)
    il = R.T("find_index", f"find_index: i => {lam}", x=x, v=v)
    q_i = lambda: _qual(mode, k, v, E, [E[is_.value]] if is_.ok and isinstance(is_.value, int)  # noqa: E731
                        and not isinstance(is_.value, bool) and 0 <= is_.value < len(E) else [],
                        [want_f] if want_f is not None else [])
    R.expect("find_index", law_s, is_, want_i, q_i)
    R.expect("find_index", law_l, il, want_i, "")
    if mode == "value":
        R.locals_agree("find_index", f"find_index: i => {lam_path(k)} == t", il, v, "lambda-sees-template-local-variable",
                       sites=("assign", "for", "macro"), x=x)
    if is_.ok and fs.ok:
        iv = is_.value
        cons = (iv is None and fs.value is None) or (
            isinstance(iv, int) and not isinstance(iv, bool) and 0 <= iv < len(E)
            and skey(_j(E[iv])) == skey(fs.value))
        R.law("find_index", "index-of-find", cons, "", {"find_index": iv, "find": fs.value})
    if is_.ok and il.ok:
        R.law("find_index", "form-equivalence", skey(is_.value) == skey(il.value), "",
              {"stringkey": is_.value, "lambda": il.value})
        R.ctx.count("lambda_form_comparisons") if R.recording else None
    hs = R.both("has", x, *args)
    hl = R.T("has", f"has: i => {lam}", x=x, v=v)
    R.expect("has", law_s, hs, bool(want_w),
             lambda: _qual(mode, k, v, E, _pyselect(mode, k, v, E) if hs.value else [], want_w))
    R.expect("has", law_l, hl, bool(want_w), "")
    if mode == "value":
        R.locals_agree("has", f"has: i => {lam_path(k)} == t", hl, v, "lambda-sees-template-local-variable",
                       sites=("assign", "for", "macro"), x=x)
    if hs.ok and is_.ok:
        R.law("has", "iff-find-index", hs.value is (is_.value is not None), "",
              {"has": hs.value, "find_index": is_.value})
    if hs.ok and hl.ok:
        R.law("has", "form-equivalence", skey(hs.value) == skey(hl.value), "",
              {"stringkey": hs.value, "lambda": hl.value})
        R.ctx.count("lambda_form_comparisons") if R.recording else None
    hp = R.both("has", px, *args)
    if hs.ok and hp.ok:
        R.law("has", "order-independent", hs.value is hp.value, "", None)


def _pyselect(mode: str, k: Any, v: Any, E: list[Any]) -> list[Any]:
    """What a selection by Python equality would pick (only used to name the input
    class of a failing `has`, which returns no elements itself)."""
    out = []
    for h in E:
        pv = hget(h, k)
        if pv is MISSING:
            continue
        if (mode == "value" and pv == v) or (mode != "value" and pv is not None and pv is not False):
            out.append(h)
    return out


def _strict_eq(a: list[Any], b: list[Any]) -> bool:
    return skey(a) == skey(b)


def _scalars(R: Runner, x: list[Any], k: Any) -> None:
    """Arrays of strings / ints (CTS pins substring and equality matching for find/
    find_index/has): the three must agree with each other whatever the predicate is."""
    f = R.both("find", x, k)
    i = R.both("find_index", x, k)
    h = R.both("has", x, k)
    if f.ok and i.ok:
        iv = i.value
        ok = (iv is None and f.value is None) or (
            isinstance(iv, int) and not isinstance(iv, bool) and 0 <= iv < len(x)
            and skey(x[iv]) == skey(f.value))
        R.law("find_index", "index-of-find", ok, "scalar-items", {"find_index": iv, "find": f.value})
        R.law("find", "item-at-find-index", ok, "scalar-items", {"find_index": iv, "find": f.value})
    if h.ok and i.ok:
        R.law("has", "iff-find-index", h.value is (i.value is not None), "scalar-items",
              {"has": h.value, "find_index": i.value})
    # CTS: strings match by substring, ints by equality
    if f.ok and i.ok and all(isinstance(e, str) for e in x) and isinstance(k, str) and k != "":
        want = next((j for j, e in enumerate(x) if k in e), None)
        R.law("find_index", "cts-substring-match", skey(i.value) == skey(want), "", {"want": want, "got": i.value})
    if i.ok and all(is_num(e) for e in x) and is_num(k) and k != 0:
        want = next((j for j, e in enumerate(x) if e == k), None)
        R.law("find_index", "cts-int-equality", skey(i.value) == skey(want), "", {"want": want, "got": i.value})
    # where / reject on non-hash items: documented as an error (CTS "left value is not
    # an array") - must be a LiquidError, nothing else
    R.both("where", x, k, cls="scalar-items")
    R.both("reject", x, k, cls="scalar-items")
