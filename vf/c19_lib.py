"""C19 support code: access to the real filters (through templates and through the
filter registry), strict value keys, reference helpers written from the documentation,
input generators and witness shrinking.

Nothing here inspects liquid2's source; the filters are only *called*.
"""

from __future__ import annotations

import json
import math
import re
from decimal import Decimal
from fractions import Fraction
from typing import Any
from typing import Callable

# ---------------------------------------------------------------------------
# results of one execution of real code
# ---------------------------------------------------------------------------


class Res:
    """Outcome of one filter application.

    kind: "ok" (value = result), "err" (a LiquidError, or a TypeError on the registry
    path, which the dispatch layer converts to LiquidTypeError), "foreign" (any other
    exception).
    """

    __slots__ = ("kind", "value", "exc", "msg")

    def __init__(self, kind: str, value: Any = None, exc: str = "", msg: str = ""):
        self.kind = kind
        self.value = value
        self.exc = exc
        self.msg = msg

    @property
    def ok(self) -> bool:
        return self.kind == "ok"

    def brief(self) -> Any:
        if self.kind == "ok":
            return {"ok": self.value}
        return {self.kind: self.exc, "msg": self.msg[:160]}


LOOP_DECODE = (
    "{% assign r = x | CHAIN %}[{% for v in r %}{% if v == nil %}null{% else %}"
    "{{ v | json }}{% endif %}{% unless forloop.last %},{% endunless %}{% endfor %}]"
)


class Engine:
    """Runs filters of the working tree two ways: rendered templates and the registry."""

    def __init__(self) -> None:
        from liquid2 import RenderContext
        from liquid2.exceptions import LiquidError
        from liquid2.shopify import Environment

        self.LiquidError = LiquidError
        self.RenderContext = RenderContext
        self.env = Environment()
        self.env_auto = Environment(auto_escape=True)
        self._cache: dict[tuple[int, str], Any] = {}
        self._base = self.env.from_string("")
        self.renders = 0
        self.directs = 0

    # -- templates ----------------------------------------------------------
    def _template(self, src: str, auto: bool = False):  # noqa: ANN202
        key = (1 if auto else 0, src)
        t = self._cache.get(key)
        if t is None:
            if len(self._cache) > 4000:
                self._cache.clear()
            t = (self.env_auto if auto else self.env).from_string(src)
            self._cache[key] = t
        return t

    def render(self, src: str, data: dict[str, Any], auto: bool = False) -> Res:
        self.renders += 1
        try:
            return Res("ok", self._template(src, auto).render(**data))
        except self.LiquidError as e:
            return Res("err", None, type(e).__name__, str(getattr(e, "message", e))[:200])
        except RecursionError:
            raise
        except Exception as e:  # noqa: BLE001
            return Res("foreign", None, type(e).__name__, str(e)[:200])

    def T(self, chain: str, data: dict[str, Any], decode: str = "json") -> Res:
        """`{{ x | <chain> | json }}` rendered and json-decoded."""
        if decode == "loop":
            src = LOOP_DECODE.replace("CHAIN", chain)
        else:
            src = "{{ x | " + chain + " | json }}"
        r = self.render(src, data)
        if not r.ok:
            return r
        try:
            return Res("ok", json.loads(r.value))
        except ValueError:
            return Res("foreign", None, "UndecodableOutput", r.value[:200])

    # -- registry -----------------------------------------------------------
    def D(self, name: str, x: Any, *args: Any, **kwargs: Any) -> Res:
        """env.filters[name] fetched the way the renderer fetches it (context and
        environment keyword arguments bound), applied to Python values."""
        self.directs += 1
        try:
            f = self.RenderContext(self._base).filter(name, token=None)
            return Res("ok", f(x, *args, **kwargs))
        except self.LiquidError as e:
            return Res("err", None, type(e).__name__, str(getattr(e, "message", e))[:200])
        except TypeError as e:
            # Filter.evaluate converts TypeError to LiquidTypeError at the call site
            return Res("err", None, "TypeError->LiquidTypeError", str(e)[:200])
        except RecursionError:
            raise
        except Exception as e:  # noqa: BLE001
            return Res("foreign", None, type(e).__name__, str(e)[:200])


# ---------------------------------------------------------------------------
# value keys and normalisation
# ---------------------------------------------------------------------------


def skey(v: Any) -> Any:
    """Strict structural key: True != 1 != 1.0, order of hash entries kept."""
    if v is None:
        return ("n",)
    if v is True or v is False:
        return ("b", v)
    if isinstance(v, int):
        return ("i", v)
    if isinstance(v, float):
        return ("f", repr(v))
    if isinstance(v, str):
        return ("s", str(v))
    if isinstance(v, (list, tuple)):
        return ("l", tuple(skey(e) for e in v))
    if isinstance(v, dict):
        return ("d", tuple((skey(k), skey(val)) for k, val in v.items()))
    if isinstance(v, range):
        return ("r", v.start, v.stop, v.step)
    if type(v).__name__ == "_Null":
        return ("n",)
    return ("o", type(v).__name__, str(v))


def jn(v: Any) -> Any:
    """The value as it looks after a JSON round trip (tuples -> lists, hash keys ->
    strings, map's null object -> None, Markup -> str)."""
    if v is None or v is True or v is False:
        return v
    if isinstance(v, (int, float)):
        return v
    if isinstance(v, str):
        return str(v)
    if isinstance(v, (list, tuple, range)):
        return [jn(e) for e in v]
    if isinstance(v, dict):
        return {_jkey(k): jn(val) for k, val in v.items()}
    if type(v).__name__ == "_Null":
        return None
    return {"$obj": type(v).__name__}


def _jkey(k: Any) -> str:
    if isinstance(k, str):
        return k
    if k is True:
        return "true"
    if k is False:
        return "false"
    if k is None:
        return "null"
    return str(k)


def same(a: Any, b: Any) -> bool:
    return skey(a) == skey(b)


def jsame(a: Any, b: Any) -> bool:
    return skey(jn(a)) == skey(jn(b))


def is_num(v: Any) -> bool:
    return isinstance(v, (int, float)) and not isinstance(v, bool)


def leq(a: Any, b: Any) -> bool:
    """Liquid equality (appendix A): same-type structural equality, int == float
    numerically, a boolean equals only a boolean, a string never equals a number."""
    if isinstance(a, bool) or isinstance(b, bool):
        return isinstance(a, bool) and isinstance(b, bool) and a == b
    if a is None or b is None:
        return a is None and b is None
    if is_num(a) and is_num(b):
        return a == b
    if isinstance(a, str) and isinstance(b, str):
        return a == b
    if isinstance(a, (list, tuple)) and isinstance(b, (list, tuple)):
        return len(a) == len(b) and all(leq(x, y) for x, y in zip(a, b))
    if isinstance(a, dict) and isinstance(b, dict):
        return len(a) == len(b) and all(k in b and leq(v, b[k]) for k, v in a.items())
    return False


def truthy(v: Any) -> bool:
    """Liquid truthiness: only nil and false are falsy."""
    return v is not None and v is not False


def lstr(v: Any) -> str:
    """Documented stringification (appendix A)."""
    if isinstance(v, str):
        return v
    if v is None:
        return ""
    if v is True:
        return "true"
    if v is False:
        return "false"
    if isinstance(v, range):
        return f"{v.start}..{v.stop - 1}"
    if isinstance(v, (list, tuple)):
        return "".join(lstr(e) for e in v)
    return str(v)


def flatten(x: Any) -> list[Any]:
    out: list[Any] = []
    for e in x:
        if isinstance(e, (list, tuple)):
            out.extend(flatten(e))
        else:
            out.append(e)
    return out


def is_nested(x: Any) -> bool:
    return isinstance(x, (list, tuple)) and any(isinstance(e, (list, tuple)) for e in x)


def effective(x: Any) -> list[list[Any]]:
    """Candidate array views of a filter input.  Documented: strings are sequences
    of characters (concat), a hash is a one-element array (CTS map/find), any other
    scalar is a one-element array (CTS compact/reverse/sort/uniq), nested arrays are
    flattened by concat/map/sum (for the other array filters flattening is neither
    promised nor excluded, so both views are admissible)."""
    if isinstance(x, (list, tuple)):
        if is_nested(x):
            return [flatten(x), list(x)]
        return [list(x)]
    if isinstance(x, range):
        return [list(x)]
    if isinstance(x, str):
        return [list(x)]
    if x is None:
        return [[], [None]]
    return [[x]]


def value_class(v: Any) -> str:
    if v is None:
        return "nil"
    if v is False:
        return "false"
    if v is True:
        return "true"
    if is_num(v):
        if v == 0:
            return "zero"
        if isinstance(v, int):
            return "bigint" if abs(v) > 2**53 else "int"
        return "float"
    if isinstance(v, str):
        return "empty-string" if v == "" else "string"
    if isinstance(v, (list, tuple)):
        return "empty-array" if len(v) == 0 else "array"
    if isinstance(v, dict):
        return "empty-hash" if len(v) == 0 else "hash"
    return type(v).__name__


MISSING = ("$missing",)


def hget(h: Any, k: Any) -> Any:
    """Property lookup on a hash: MISSING when the key is absent."""
    if isinstance(h, dict) and k in h:
        return h[k]
    return MISSING


def hval(h: Any, k: Any) -> Any:
    v = hget(h, k)
    return None if v is MISSING else v


# ---------------------------------------------------------------------------
# numbers
# ---------------------------------------------------------------------------

RE_INT = re.compile(r"-?\d+\Z")
RE_FLOAT = re.compile(r"-?\d+\.\d+\Z")


def to_number(v: Any) -> int | float:
    """Documented conversion of a filter operand: ints and floats as they are,
    string representations of an integer or float are cast, anything else is 0."""
    if is_num(v):
        return v
    if isinstance(v, str):
        if RE_INT.match(v):
            return int(v)
        if RE_FLOAT.match(v):
            return float(v)
    return 0


def numeric_string_in_domain(v: Any) -> bool:
    """Strings are either documented numeric strings (-?d+ or -?d+.d+) or strings that no
    number parser would accept; anything in between ("2.", ".5", "1e3", " 7", "inf", "1_0",
    non-ASCII digits) is outside the documented domain (the witness shrinker can produce them)."""
    if not isinstance(v, str) or RE_INT.match(v) or RE_FLOAT.match(v):
        return True
    for conv in (int, float):
        try:
            conv(v)
            return False
        except ValueError:
            pass
    return True


def exact(v: int | float) -> Fraction:
    """Exact value in decimal semantics: a float denotes its shortest decimal form
    (the documented examples 183.357 - 12.2 = 171.157 require this)."""
    if isinstance(v, int):
        return Fraction(v)
    return Fraction(Decimal(repr(v)))


def float_close(got: Any, want: Fraction) -> bool:
    if not isinstance(got, float) or math.isnan(got) or math.isinf(got):
        return False
    if want == 0:
        return abs(got) < 1e-300
    g = Fraction(got)
    return abs(g - want) <= abs(want) * Fraction(1, 2**50)


def num_class(*vals: Any) -> str:
    cl = set()
    for v in vals:
        if isinstance(v, str):
            cl.add("numeric-string" if (RE_INT.match(v) or RE_FLOAT.match(v)) else "non-numeric-string")
            v = to_number(v)
        if isinstance(v, bool) or v is None or isinstance(v, (dict, list)):
            cl.add("non-number")
        elif isinstance(v, int):
            cl.add("bigint" if abs(v) > 2**53 else "int")
        elif isinstance(v, float):
            cl.add("float")
    if "bigint" in cl:
        cl.discard("int")
    if len(cl) > 1:
        cl.discard("int")
    return "+".join(sorted(cl)) or "int"


# ---------------------------------------------------------------------------
# generators (everything from the rng handed in)
# ---------------------------------------------------------------------------

ASCII = "abcABCxyz019"
PUNCT = " ,.-_/+=%#:;!?@~*()[]{}|\\"
HTMLCH = "<>&'\""
WS = " \t\n\r"
UNI = ["é", "É", "ñ", "Ü", "ж", "Ж", "λ", "Ω", "测", "试", "😀", "\u0301", "\u00a0", "\u2003", "ø"]
ALL_CHARS = list(ASCII + PUNCT + HTMLCH + WS) + UNI


# words on which lower / upper / casefold / NFC / NFKC disagree.  The documented definitions are
# "forced to lowercase" (sort_natural), "all characters in uppercase / lowercase" (upcase /
# downcase), i.e. Python's str.lower / str.upper; equality is code-point equality.
TRICKY_WORDS = [
    "Straße", "STRASSE 7", "Strassen", "Strand", "straẞe", "ﬁn", "fin", "Fin", "ﬀ", "ff", "FF",
    "µm", "μm", "Μm", "ſet", "set", "Set", "İstanbul", "istanbul", "Istanbul", "ıs", "is",
    "ας", "ασ", "ΑΣ", "Σ", "ς", "σ", "Ǆ", "ǅ", "ǆ", "Ꮳ", "ꮳ", "ά", "Ά", "α", "é", "e\u0301", "É", "E\u0301",
    "ǰ", "J\u030c", "ΐ", "ﬃ",
]


def g_text(rng, lo: int = 0, hi: int = 12, alphabet: Any = None) -> str:  # noqa: ANN001
    a = alphabet or ALL_CHARS
    return "".join(rng.choice(a) for _ in range(rng.randint(lo, hi)))


def g_word(rng, lo: int = 1, hi: int = 5) -> str:  # noqa: ANN001
    return "".join(rng.choice("abcdeABC") for _ in range(rng.randint(lo, hi)))


def g_int(rng, big: float = 0.4) -> int:  # noqa: ANN001
    r = rng.random()
    if r > big:
        c = rng.random()
        if c < 0.5:
            return rng.randint(-20, 20)
        if c < 0.8:
            return rng.randint(-(10**6), 10**6)
        return rng.randint(-(2**53), 2**53)
    c = rng.randrange(7)
    s = rng.choice((1, -1))
    if c == 0:
        return s * (2**53 + rng.randint(-3, 50))
    if c == 1:
        return s * (2**63 + rng.randint(-3, 3))
    if c == 2:
        return s * (2**64 + rng.randint(-3, 1000))
    if c == 3:
        return s * (10**40 + rng.randint(-1000, 1000))
    if c == 4:
        return s * (10 ** rng.randint(41, 90) + rng.randint(0, 10**9))
    if c == 5:
        return s * rng.getrandbits(rng.randint(54, 400))
    return s * int("9" * rng.randint(16, 60))


SIMPLE_FLOATS = [0.0, 0.5, 1.5, -1.5, 0.1, 0.2, 0.3, 2.5, 183.357, 12.2, 7.5, 5.4, -5.4,
                 0.01, 99.99, 1e-3, 4.999, 100.0, -0.25, 1.0, 2.0, 3.0]


def g_float(rng, wide: bool = False) -> float:  # noqa: ANN001
    c = rng.random()
    if c < 0.3:
        return rng.choice(SIMPLE_FLOATS)
    if c < 0.8 or not wide:
        return round(rng.uniform(-1000, 1000), rng.randint(0, 4))
    if c < 0.9:
        return rng.uniform(-1, 1) * 10.0 ** rng.randint(-8, 14)
    return float(rng.randint(-(10**6), 10**6)) + rng.choice((0.0, 0.5, 0.25, 0.125))


def g_numstr(rng) -> str:  # noqa: ANN001
    c = rng.random()
    if c < 0.5:
        return str(g_int(rng, big=0.25))
    f = round(rng.uniform(-1000, 1000), rng.randint(1, 4))
    s = f"{f:.{rng.randint(1, 4)}f}"
    return s


def g_number(rng, strings: bool = True) -> Any:  # noqa: ANN001
    c = rng.random()
    if c < 0.45:
        return g_int(rng)
    if c < 0.8 or not strings:
        return g_float(rng, wide=True)
    return g_numstr(rng)


HASH_VALUES = [None, False, True, 0, 1, 2, "", "a", "b", "B", [], [1], {}, {"z": 1}, 1.5, 0.0,
               "0", 10**20, -3, "kitchen", "false", "Straße", "STRASSE", "é", "e\u0301"]
KEYS = ["k", "title", "a b", "n"]


def g_hash(rng, keys: Any = KEYS, values: Any = HASH_VALUES, present: float = 0.7) -> dict[Any, Any]:  # noqa: ANN001
    h: dict[Any, Any] = {}
    ks = list(keys)
    rng.shuffle(ks)
    for k in ks:
        if rng.random() < present:
            h[k] = rng.choice(values)
    if rng.random() < 0.15:
        h[7] = rng.choice(("x", 1, None))  # mixed key types
    return h


def g_hashes(rng, lo: int = 0, hi: int = 7, **kw: Any) -> list[dict[Any, Any]]:  # noqa: ANN001
    pool = [g_hash(rng, **kw) for _ in range(rng.randint(1, 4))]
    out = []
    for _ in range(rng.randint(lo, hi)):
        out.append(dict(rng.choice(pool)) if rng.random() < 0.6 else g_hash(rng, **kw))
    return out


def g_list(rng, pool: list[Any], lo: int = 0, hi: int = 8) -> list[Any]:  # noqa: ANN001
    return [_copy(rng.choice(pool)) for _ in range(rng.randint(lo, hi))]


def _copy(v: Any) -> Any:
    if isinstance(v, list):
        return [_copy(e) for e in v]
    if isinstance(v, dict):
        return {k: _copy(e) for k, e in v.items()}
    return v


deep_copy = _copy


def nest(rng, flat: list[Any], p: float = 0.5) -> list[Any]:  # noqa: ANN001
    """Group some runs of *flat* into sub-arrays (depth <= 3) keeping the leaf order."""
    if rng.random() > p or not flat:
        return list(flat)
    out: list[Any] = []
    i = 0
    depth_budget = 2
    while i < len(flat):
        if rng.random() < 0.4:
            j = min(len(flat), i + rng.randint(0, 3))
            sub: list[Any] = list(flat[i:j])
            if sub and depth_budget and rng.random() < 0.3:
                sub = [sub[0], sub[1:]] if len(sub) > 1 else [sub]
            out.append(sub)
            i = j
        else:
            out.append(flat[i])
            i += 1
    return out


def permute(rng, x: list[Any]) -> list[Any]:  # noqa: ANN001
    y = list(x)
    rng.shuffle(y)
    return y


def lam_path(k: Any) -> str:
    """Source text of the lambda body selecting property k of item i."""
    if isinstance(k, int):
        return f"i[{k}]"
    if re.match(r"[A-Za-z_][A-Za-z0-9_]*\Z", k):
        return f"i.{k}"
    return "i[" + json.dumps(k, ensure_ascii=True) + "]"


# ---------------------------------------------------------------------------
# shrinking
# ---------------------------------------------------------------------------


class Budget:
    def __init__(self, n: int):
        self.n = n

    def take(self) -> bool:
        self.n -= 1
        return self.n >= 0


def _simpler(v: Any) -> list[Any]:
    """Candidate replacements that are simpler than v (never v itself)."""
    out: list[Any] = []
    if isinstance(v, bool) or v is None:
        return out
    if isinstance(v, int):
        for c in (0, 1, -1, 2, 10, v // 2, -v if v < 0 else None, 2**53 + 1, 2**64, 10**40):
            if c is not None and c != v and abs(c) < abs(v):
                out.append(c)
    elif isinstance(v, float):
        for c in (0.0, 1.0, 0.5, 1.5, float(round(v)), round(v, 1), round(v, 2), abs(v)):
            if repr(c) != repr(v) and len(repr(c)) <= len(repr(v)) and c not in out:
                out.append(c)
    return out


def shrink_value(v: Any, test: Callable[[Any], bool], budget: Budget, depth: int = 0) -> Any:
    """Greedy shrinking of one value while test(value) stays True."""
    if depth > 4:
        return v
    if isinstance(v, str):
        cur = v
        # chunk removal
        n = 2
        while len(cur) >= 1 and budget.n > 0:
            chunk = max(1, len(cur) // n)
            i = 0
            reduced = False
            while i < len(cur) and budget.take():
                cand = cur[:i] + cur[i + chunk:]
                if cand != cur and test(cand):
                    cur = cand
                    reduced = True
                else:
                    i += chunk
            if not reduced:
                if chunk == 1:
                    break
                n = min(len(cur), n * 2)
        # simplify characters
        for i, ch in enumerate(cur):
            if ch != "a" and budget.take():
                cand = cur[:i] + "a" + cur[i + 1:]
                if test(cand):
                    cur = cand
        return cur
    if isinstance(v, (list, tuple)):
        cur = list(v)
        n = 2
        while len(cur) >= 1 and budget.n > 0:
            chunk = max(1, len(cur) // n)
            i = 0
            reduced = False
            while i < len(cur) and budget.take():
                cand = cur[:i] + cur[i + chunk:]
                if test(cand):
                    cur = cand
                    reduced = True
                else:
                    i += chunk
            if not reduced:
                if chunk == 1:
                    break
                n = min(len(cur), n * 2)
        for i in range(len(cur)):
            if budget.n <= 0:
                break

            def t2(nv: Any, i: int = i) -> bool:
                return test(cur[:i] + [nv] + cur[i + 1:])

            cur[i] = shrink_value(cur[i], t2, budget, depth + 1)
        return cur
    if isinstance(v, dict):
        cur_d = dict(v)
        for k in list(cur_d):
            if budget.take():
                cand = {kk: vv for kk, vv in cur_d.items() if kk != k}
                if test(cand):
                    cur_d = cand
        for k in list(cur_d):
            if budget.n <= 0:
                break

            def t3(nv: Any, k: Any = k) -> bool:
                d2 = dict(cur_d)
                d2[k] = nv
                return test(d2)

            cur_d[k] = shrink_value(cur_d[k], t3, budget, depth + 1)
        return cur_d
    for c in _simpler(v):
        if budget.take() and test(c):
            return shrink_value(c, test, budget, depth + 1)
    return v


def shrink_inp(inp: dict[str, Any], fails: Callable[[dict[str, Any]], bool],
               max_calls: int = 250, frozen: tuple[str, ...] = ("mode", "pseed", "k", "parts")) -> dict[str, Any]:
    budget = Budget(max_calls)
    cur = dict(inp)
    for _round in range(2):
        before = repr(cur)
        for k in sorted(cur):
            if k in frozen or budget.n <= 0:
                continue

            def t(nv: Any, k: str = k) -> bool:
                d = dict(cur)
                d[k] = nv
                try:
                    return fails(d)
                except Exception:  # noqa: BLE001
                    return False

            cur[k] = shrink_value(cur[k], t, budget)
        if repr(cur) == before:
            break
    return cur


# ---------------------------------------------------------------------------
# data shapes: drops (docs/variables_and_drops.md: "an instance of a Python class that
# implements the Sequence or Mapping interface"), tuples, ranges, one-shot iterables
# ---------------------------------------------------------------------------

from collections import abc as _abc  # noqa: E402


class MapDrop(_abc.Mapping):  # type: ignore[type-arg]
    """A read-only Mapping drop over a dict (not a dict subclass)."""

    def __init__(self, d: dict[Any, Any]):
        self._d = d

    def __getitem__(self, k: Any) -> Any:
        return self._d[k]

    def __iter__(self) -> Any:
        return iter(self._d)

    def __len__(self) -> int:
        return len(self._d)

    def __repr__(self) -> str:
        return f"MapDrop({self._d!r})"

    __str__ = __repr__


class SeqDrop(_abc.Sequence):  # type: ignore[type-arg]
    """A read-only Sequence drop over a list (not a list subclass)."""

    def __init__(self, items: list[Any]):
        self._l = items

    def __getitem__(self, i: Any) -> Any:
        return self._l[i]

    def __len__(self) -> int:
        return len(self._l)

    def __repr__(self) -> str:
        return f"SeqDrop({self._l!r})"

    __str__ = __repr__


def shaped(x: Any, shape: str) -> Any:
    """The same data in another documented shape."""
    if shape == "list":
        return x
    if shape == "tuple":
        return tuple(x)
    if shape == "sequence-drop":
        return SeqDrop(list(x))
    if shape == "iterator":
        return iter(list(x))  # one-shot iterable, consumed by the one application of a render
    if shape == "mapping-drop-items":
        return [MapDrop(h) if isinstance(h, dict) else h for h in x]
    if shape == "tuple-of-mapping-drops":
        return tuple(MapDrop(h) if isinstance(h, dict) else h for h in x)
    if shape == "sequence-drop-of-mapping-drops":
        return SeqDrop([MapDrop(h) if isinstance(h, dict) else h for h in x])
    if shape == "single-hash":
        return x[0]
    if shape == "single-mapping-drop":
        return MapDrop(x[0])
    if shape == "range":
        return range(x[0], x[-1] + 1)
    raise ValueError(shape)
