"""Controllable clock: replaces the `datetime` module global of the two liquid2
modules that read the wall clock (liquid2.context, liquid2.builtin.filters.misc)."""

from __future__ import annotations

import datetime as _real
import types


class Clock:
    def __init__(self, t: float = 1_700_000_000.0):
        self.t = t

    def advance(self, seconds: float) -> None:
        self.t += seconds


CLOCK = Clock()


class _DTMeta(type):
    def __instancecheck__(cls, obj: object) -> bool:
        return isinstance(obj, _real.datetime)


class _DMeta(type):
    def __instancecheck__(cls, obj: object) -> bool:
        return isinstance(obj, _real.date)


class FakeDateTime(_real.datetime, metaclass=_DTMeta):
    @classmethod
    def now(cls, tz=None):  # noqa: ANN001, ANN206
        return _real.datetime.fromtimestamp(CLOCK.t, tz)


class FakeDate(_real.date, metaclass=_DMeta):
    @classmethod
    def today(cls):  # noqa: ANN206
        return _real.datetime.fromtimestamp(CLOCK.t).date()


def _shim() -> types.ModuleType:
    m = types.ModuleType("datetime")
    for k in dir(_real):
        if not k.startswith("__"):
            setattr(m, k, getattr(_real, k))
    m.datetime = FakeDateTime  # type: ignore[attr-defined]
    m.date = FakeDate  # type: ignore[attr-defined]
    return m


_installed = False


def install() -> Clock:
    global _installed
    import liquid2.builtin.filters.misc as misc
    import liquid2.context as context

    if not _installed:
        shim = _shim()
        context.datetime = shim
        misc.datetime = shim
        _installed = True
    return CLOCK


def selftest() -> bool:
    """The shim really controls what templates see."""
    import liquid2

    install()
    CLOCK.t = 1_000_000_000.0
    a = liquid2.Environment().from_string("{{ now | date: '%s' }}|{{ 'now' | date: '%s' }}|{{ today }}").render()
    CLOCK.t = 1_000_086_400.0
    b = liquid2.Environment().from_string("{{ now | date: '%s' }}|{{ 'now' | date: '%s' }}|{{ today }}").render()
    return a != b and a.startswith("1000000000|1000000000|") and b.startswith("1000086400|1000086400|")
