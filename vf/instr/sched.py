"""Deterministic coroutine scheduling.

liquid2's async path awaits only what the harness gives it (drops'
`__getitem_async__`, loaders' `get_source_async`) when no file-system loader is in
play, so coroutines can be driven by hand with `send(None)`.  `Gate()` is an awaitable
that yields to the scheduler exactly once.
"""

from __future__ import annotations

import itertools
import random
from typing import Any
from typing import Callable
from typing import Iterator


class Gate:
    """Awaitable that suspends the awaiting coroutine once."""

    __slots__ = ("tag",)

    def __init__(self, tag: object = None):
        self.tag = tag

    def __await__(self):  # noqa: ANN204
        try:
            import asyncio

            asyncio.get_running_loop()
        except RuntimeError:
            yield self  # driven by hand: hand control to the scheduler
            return
        # under a real event loop (file-system loaders): a plain yield point
        yield from asyncio.sleep(0).__await__()


def drive(coro) -> Any:  # noqa: ANN001
    """Run one coroutine to completion, resuming it immediately at every Gate."""
    try:
        while True:
            coro.send(None)
    except StopIteration as stop:
        return stop.value


class Outcome:
    __slots__ = ("value", "error")

    def __init__(self, value: Any = None, error: BaseException | None = None):
        self.value = value
        self.error = error

    def key(self) -> tuple:
        if self.error is not None:
            return ("err", type(self.error).__name__)
        return ("ok", self.value)


def run_schedule(
    factories: list[Callable[[], Any]], choose: Callable[[list[int], int], int]
) -> tuple[list[Outcome], list[int]]:
    """Run coroutines made by *factories* under a schedule.

    *choose(live, step)* returns the index (into live) of the coroutine to resume.
    Returns the outcomes (in factory order) and the schedule actually taken (list of
    coroutine ids).
    """
    coros = [f() for f in factories]
    outcomes: list[Outcome | None] = [None] * len(coros)
    live = list(range(len(coros)))
    taken: list[int] = []
    step = 0
    while live:
        pick = live[choose(live, step)]
        step += 1
        taken.append(pick)
        try:
            coros[pick].send(None)
        except StopIteration as stop:
            outcomes[pick] = Outcome(value=stop.value)
            live.remove(pick)
        except Exception as err:  # noqa: BLE001
            outcomes[pick] = Outcome(error=err)
            live.remove(pick)
    return [o for o in outcomes if o is not None], taken


def count_awaits(factory: Callable[[], Any]) -> int:
    """Number of sends needed to finish the coroutine when run alone."""
    c = factory()
    n = 0
    try:
        while True:
            c.send(None)
            n += 1
    except StopIteration:
        return n + 1
    except Exception:  # noqa: BLE001
        return n + 1


def all_schedules(lengths: list[int], cap: int) -> Iterator[list[int]] | None:
    """All interleavings (as sequences of coroutine ids) of coroutines needing
    lengths[i] sends each; None if there are more than *cap*."""
    import math

    total = sum(lengths)
    n = math.factorial(total)
    for x in lengths:
        n //= math.factorial(x)
    if n > cap:
        return None

    def gen(rem: tuple[int, ...]) -> Iterator[list[int]]:
        if not any(rem):
            yield []
            return
        for i, r in enumerate(rem):
            if r:
                nxt = rem[:i] + (r - 1,) + rem[i + 1 :]
                for tail in gen(nxt):
                    yield [i, *tail]

    return gen(tuple(lengths))


def follow(schedule: list[int]) -> Callable[[list[int], int], int]:
    """Chooser following a fixed schedule of coroutine ids (falls back to first live)."""

    def choose(live: list[int], step: int) -> int:
        if step < len(schedule) and schedule[step] in live:
            return live.index(schedule[step])
        return 0

    return choose


def seeded(rng: random.Random) -> Callable[[list[int], int], int]:
    def choose(live: list[int], step: int) -> int:  # noqa: ARG001
        return rng.randrange(len(live))

    return choose


__all__ = [
    "Gate", "drive", "run_schedule", "count_awaits", "all_schedules", "follow",
    "seeded", "Outcome", "itertools",
]
