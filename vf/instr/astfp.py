"""Structural fingerprint of a parsed Template (nodes, expressions, tokens).

Rendering must not write to the parsed template: anything stored on a node, expression
or the Template itself during a render outlives that render and can leak into the next.
`fingerprint(template)` walks the object graph reachable from `template.nodes` through
`__slots__` / `__dict__` (all classes in the MRO) and returns a list of (path, value)
leaves; `diff(a, b)` names the first attribute path that differs.
"""

from __future__ import annotations

import enum
from typing import Any

SKIP_ATTRS = {"env", "uptodate", "source"}  # environment (has its own caches), callables, big strings


def _attrs(o: Any) -> list[str]:
    names: list[str] = []
    for klass in type(o).__mro__:
        sl = klass.__dict__.get("__slots__", ())
        if isinstance(sl, str):
            sl = (sl,)
        for n in sl:
            if n not in names and n not in ("__weakref__", "__dict__"):
                names.append(n)
    d = getattr(o, "__dict__", None)
    if isinstance(d, dict):
        for n in d:
            if n not in names:
                names.append(n)
    return names


def fingerprint(template: Any, limit: int = 200000) -> list[tuple[str, str]]:
    out: list[tuple[str, str]] = []
    seen: set[int] = set()

    def walk(o: Any, path: str, depth: int) -> None:
        if len(out) > limit or depth > 60:
            return
        if o is None or isinstance(o, (bool, int, float, str, bytes)):
            out.append((path, f"{type(o).__name__}:{o!r}"[:200]))
            return
        if isinstance(o, enum.Enum):
            out.append((path, f"enum:{o}"))
            return
        if id(o) in seen:
            out.append((path, "<seen>"))
            return
        if isinstance(o, (list, tuple)):
            seen.add(id(o))
            out.append((path, f"{type(o).__name__}[{len(o)}]"))
            for i, x in enumerate(o):
                walk(x, f"{path}[{i}]", depth + 1)
            return
        if isinstance(o, (dict,)):
            seen.add(id(o))
            out.append((path, f"dict[{len(o)}]"))
            for k in o:
                walk(o[k], f"{path}[{k!r}]", depth + 1)
            return
        if isinstance(o, (set, frozenset)):
            out.append((path, f"set:{sorted(map(repr, o))}"[:300]))
            return
        if callable(o) and not hasattr(o, "__slots__") and type(o).__module__ in ("builtins", "functools"):
            out.append((path, f"callable:{getattr(o, '__name__', type(o).__name__)}"))
            return
        mod = type(o).__module__ or ""
        if not (mod.startswith("liquid2") or mod.startswith("collections")):
            out.append((path, f"obj:{type(o).__name__}"))
            return
        seen.add(id(o))
        out.append((path, f"<{type(o).__name__}>"))
        for a in _attrs(o):
            if a in SKIP_ATTRS:
                continue
            try:
                v = getattr(o, a)
            except AttributeError:
                out.append((f"{path}.{a}", "<unset>"))
                continue
            walk(v, f"{path}.{a}", depth + 1)

    walk(template.nodes, "nodes", 0)
    for a in ("name", "path", "global_data", "overlay_data"):
        walk(getattr(template, a, None), a, 0)
    for a in _attrs(template):
        if a not in ("env", "nodes", "name", "path", "global_data", "overlay_data", "uptodate"):
            walk(getattr(template, a, None), a, 0)
    return out


def fingerprint_nodes(template: Any) -> list[tuple[str, str]]:
    """Only the node tree (global_data / overlay_data are rebound by loaders by design)."""
    fp = fingerprint(template)
    return [x for x in fp if x[0].startswith("nodes")]


def diff(a: list[tuple[str, str]], b: list[tuple[str, str]]) -> str | None:
    if a == b:
        return None
    da, db = dict(a), dict(b)
    for p, v in a:
        if db.get(p) != v:
            return f"{p}: {v} -> {db.get(p, '<gone>')}"
    for p, v in b:
        if p not in da:
            return f"{p}: <new> -> {v}"
    return "order changed"


def mechanism(d: str) -> str:
    """Class-level name of the mutated attribute: strip indexes."""
    import re

    path = d.split(":", 1)[0]
    path = re.sub(r"\[[^\]]*\]", "", path)
    parts = path.split(".")
    return ".".join(parts[-2:]) if len(parts) >= 2 else path
