"""Process-wide state of the library under test: every mutable container bound at module
level or as a class attribute in liquid2.*, plus the size of functools caches and the
package-level default environment.  A render must leave all of it unchanged; whatever it
changes is restored so that later executions are judged from the same starting point.
"""

from __future__ import annotations

import copy
import sys
from typing import Any


def _canon(v: Any) -> str:
    if isinstance(v, (set, frozenset)):
        return "{" + ", ".join(sorted(map(repr, v))) + "}"
    if isinstance(v, dict):
        return "{" + ", ".join(f"{k!r}: {_short(x)}" for k, x in v.items()) + "}"
    if isinstance(v, list):
        return "[" + ", ".join(_short(x) for x in v) + "]"
    return repr(v)


def _short(x: Any) -> str:
    if isinstance(x, (str, int, float, bool, type(None), tuple, frozenset)):
        return repr(x)
    if isinstance(x, (set, dict, list)):
        return _canon(x)
    return f"<{type(x).__name__}>"


def _containers() -> dict[str, Any]:
    out: dict[str, Any] = {}
    for name, mod in list(sys.modules.items()):
        if mod is None or not (name == "liquid2" or name.startswith("liquid2.")):
            continue
        for k, v in list(vars(mod).items()):
            if k.startswith("__"):
                continue
            if isinstance(v, (dict, list, set)):
                out[f"{name}.{k}"] = v
            elif isinstance(v, type) and getattr(v, "__module__", "") == name:
                for ck, cv in list(vars(v).items()):
                    if not ck.startswith("__") and isinstance(cv, (dict, list, set)):
                        out[f"{name}.{v.__name__}.{ck}"] = cv
    return out


def _instances() -> dict[str, str]:
    """State of objects bound at module level whose class liquid2 defines (a shared parser,
    a registry object, ...): their attributes, one level deep."""
    out: dict[str, str] = {}
    for name, mod in list(sys.modules.items()):
        if mod is None or not (name == "liquid2" or name.startswith("liquid2.")):
            continue
        for k, v in list(vars(mod).items()):
            if k.startswith("__") or isinstance(v, (type, dict, list, set, str, bytes, int, float, tuple, frozenset)) \
                    or callable(v) or type(v).__module__.split(".")[0] not in ("liquid2",):
                continue
            if k == "DEFAULT_ENVIRONMENT" or type(v).__name__ in ("module",):
                continue
            try:
                attrs = dict(vars(v)) if hasattr(v, "__dict__") else {}
                for sl in getattr(type(v), "__slots__", ()) or ():
                    if isinstance(sl, str) and hasattr(v, sl):
                        attrs[sl] = getattr(v, sl)
            except Exception:  # noqa: BLE001
                continue
            if attrs:
                out[f"{name}.{k}<{type(v).__name__}>"] = "{" + ", ".join(
                    f"{a}={_short(x)[:80]}" for a, x in sorted(attrs.items()) if not a.startswith("__")) + "}"
    return out


def _caches() -> dict[str, int]:
    out: dict[str, int] = {}
    for name, mod in list(sys.modules.items()):
        if mod is None or not (name == "liquid2" or name.startswith("liquid2.")):
            continue
        for k, v in list(vars(mod).items()):
            ci = getattr(v, "cache_info", None)
            if callable(ci) and getattr(v, "__module__", name) == name:
                try:
                    out[f"{name}.{k}#cache"] = ci().currsize
                except Exception:  # noqa: BLE001
                    pass
    return out


def _default_env() -> str:
    import liquid2

    env = getattr(liquid2, "DEFAULT_ENVIRONMENT", None)
    if env is None:
        return ""
    tpl = getattr(getattr(env, "loader", None), "templates", None)
    return repr((sorted(env.filters), sorted(env.tags), _canon(dict(env.globals)),
                 sorted(tpl) if isinstance(tpl, dict) else None))


def _interpreter() -> dict[str, str]:
    """Process-wide interpreter settings a library has no business changing while rendering."""
    import decimal
    import locale
    import os
    import warnings

    c = decimal.getcontext()
    out = {
        "decimal.getcontext()": repr((c.prec, c.rounding, c.Emin, c.Emax, c.capitals, c.clamp,
                                     sorted(str(t) for t, on in c.traps.items() if on))),
        "sys.getrecursionlimit()": repr(sys.getrecursionlimit()),
        "os.getcwd()": os.getcwd(),
        "os.environ": repr(sorted((k, v) for k, v in os.environ.items() if k in ("TZ", "LANG", "LC_ALL", "LANGUAGE", "HOME"))),
        "len(warnings.filters)": repr(len(warnings.filters)),
    }
    try:
        out["locale.setlocale(LC_ALL)"] = locale.setlocale(locale.LC_ALL)
    except Exception:  # noqa: BLE001
        pass
    if hasattr(sys, "get_int_max_str_digits"):
        out["sys.get_int_max_str_digits()"] = repr(sys.get_int_max_str_digits())
    return out


def _restore_interpreter(name: str, old: dict[str, str]) -> None:
    import decimal

    if name == "decimal.getcontext()":
        decimal.setcontext(decimal.Context(prec=28, rounding=decimal.ROUND_HALF_EVEN, traps=[
            decimal.InvalidOperation, decimal.DivisionByZero, decimal.Overflow]))


class Snapshot:
    def __init__(self) -> None:
        self.interp = _interpreter()
        self.inst = _instances()
        self.objs = _containers()
        self.saved = {k: (copy.copy(v), _canon(v)) for k, v in self.objs.items()}
        self.caches = _caches()
        self.denv = _default_env()
        self.names = len(self.objs) + len(self.caches) + 1 + len(self.interp) + len(self.inst)

    def changed(self, restore: bool = True) -> list[str]:
        """Names whose state differs from the snapshot (containers are restored in place)."""
        out = []
        now = _containers()
        for k, v in now.items():
            if k not in self.saved:
                out.append(k + " (new)")
                continue
            old, canon = self.saved[k]
            if _canon(v) != canon:
                out.append(f"{k}: {canon[:120]} -> {_canon(v)[:120]}")
                if restore and v is self.objs[k]:
                    v.clear()
                    if isinstance(v, list):
                        v.extend(old)
                    else:
                        v.update(old)
        for k, n in _caches().items():
            if self.caches.get(k, 0) != n:
                out.append(f"{k}: {self.caches.get(k, 0)} -> {n} entries")
                self.caches[k] = n
        for k, v in _interpreter().items():
            if self.interp.get(k) != v:
                out.append(f"{k}: {self.interp.get(k)} -> {v}")
                if restore:
                    _restore_interpreter(k, self.interp)
                    self.interp[k] = _interpreter().get(k, v)
        for k, v in _instances().items():
            if k in self.inst and self.inst[k] != v:
                out.append(f"{k}: {self.inst[k][:160]} -> {v[:160]}")
            self.inst[k] = v
        d = _default_env()
        if d != self.denv:
            out.append(f"liquid2.DEFAULT_ENVIRONMENT: {self.denv[:100]} -> {d[:100]}")
            self.denv = d
        return out
