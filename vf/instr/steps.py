"""Logical clock: number of Python function activations and generator/coroutine
resumptions (sys.monitoring PY_START | PY_RESUME).

One `StepCounter` is installed per worker process (`start()`); `reset(budget)` arms it
for the next monitored call.  When the budget is exceeded `StepBudgetExceeded`
(a BaseException) is raised inside the monitored code so a non-terminating call is cut
short and can be reported.
"""

from __future__ import annotations

import sys

TOOL = 4


class StepBudgetExceeded(BaseException):
    pass


class StepCounter:
    __slots__ = ("budget", "n", "armed", "fired", "installed")

    def __init__(self) -> None:
        self.budget: int | None = None
        self.n = 0
        self.armed = False
        self.fired = False
        self.installed = False

    def _cb(self, code, offset):  # noqa: ANN001, ARG002
        self.n += 1
        if self.armed and self.n > self.budget:  # type: ignore[operator]
            self.armed = False
            self.fired = True
            raise StepBudgetExceeded(self.n)

    def start(self) -> "StepCounter":
        mon = sys.monitoring
        mon.use_tool_id(TOOL, "vf-steps")
        mon.register_callback(TOOL, mon.events.PY_START, self._cb)
        # generator / coroutine resumptions are steps too: a Python-level generator
        # looping over a huge range would otherwise be invisible to the clock
        mon.register_callback(TOOL, mon.events.PY_RESUME, self._cb)
        mon.set_events(TOOL, mon.events.PY_START | mon.events.PY_RESUME)
        self.installed = True
        return self

    def stop(self) -> None:
        if not self.installed:
            return
        mon = sys.monitoring
        self.armed = False
        mon.set_events(TOOL, 0)
        mon.register_callback(TOOL, mon.events.PY_START, None)
        mon.register_callback(TOOL, mon.events.PY_RESUME, None)
        mon.free_tool_id(TOOL)
        self.installed = False

    def reset(self, budget: int | None) -> None:
        self.n = 0
        self.fired = False
        self.budget = budget
        self.armed = budget is not None

    def disarm(self) -> int:
        self.armed = False
        return self.n
