"""The committed snapshot of the compliance corpus, and text mutators."""

from __future__ import annotations

import json
import os
from functools import lru_cache
from typing import Any
from typing import Iterator

from ..core import VERIF_DIR


@lru_cache(maxsize=1)
def cases() -> list[dict[str, Any]]:
    with open(os.path.join(VERIF_DIR, "corpus", "cts.json"), encoding="utf8") as f:
        data = json.load(f)
    out = []
    for c in data["tests"]:
        out.append(
            {
                "name": c["name"],
                "template": c["template"],
                "data": c.get("data") or {},
                "templates": c.get("templates") or {},
                "result": c.get("result"),
                "invalid": bool(c.get("invalid")),
            }
        )
    return out


def valid_cases() -> list[dict[str, Any]]:
    return [c for c in cases() if not c["invalid"]]


SUBST = "{%}#|:,.'\"[]()-~$\\a1 \n="


def prefixes(s: str) -> Iterator[tuple[str, str]]:
    for i in range(len(s)):
        yield f"prefix:{i}", s[:i]


def deletions(s: str) -> Iterator[tuple[str, str]]:
    for i in range(len(s)):
        yield f"del:{i}", s[:i] + s[i + 1 :]


def duplications(s: str) -> Iterator[tuple[str, str]]:
    for i in range(len(s)):
        yield f"dup:{i}", s[: i + 1] + s[i:]


def substitutions(s: str, alphabet: str = SUBST) -> Iterator[tuple[str, str]]:
    for i in range(len(s)):
        for ch in alphabet:
            if s[i] != ch:
                yield f"sub:{i}:{ch!r}", s[:i] + ch + s[i + 1 :]


def insertions(s: str, alphabet: str = SUBST) -> Iterator[tuple[str, str]]:
    for i in range(len(s) + 1):
        for ch in alphabet:
            yield f"ins:{i}:{ch!r}", s[:i] + ch + s[i:]
