"""Model -> Liquid source, in many layouts.

`emit(program, layout)` returns the source of the root template and of every partial,
and stamps each Text node with the *effective* trim pair decided by the markers of the
markup adjacent to it in source order (that is the documented rule; the reference
interpreter applies it, it never looks at source text).
"""

from __future__ import annotations

import random
from dataclasses import dataclass
from dataclasses import field
from typing import Any

from . import model as M

MARKERS = ["", "-", "~", "+"]


@dataclass
class Layout:
    rng: random.Random
    markers: list[str] | None = None  # explicit assignment by position index
    p_marker: float = 0.0  # probability of a non-empty marker when not explicit
    noisy_ws: bool = False  # vary whitespace inside markup
    alt_forms: bool = False  # echo/liquid forms, bracket notation, quote styles
    shorthand_indexes: bool = False
    comments: bool = False  # insert comments at statement boundaries
    n_positions: int = 0  # out: number of marker positions used
    used: list[str] = field(default_factory=list)
    reuse: bool = False  # reuse the markers stamped on statements by an earlier emission
    frame: Any = None  # [statement being emitted, next slot]

    def marker(self) -> str:
        i = self.n_positions
        self.n_positions += 1
        if self.frame is not None:
            st, slot = self.frame
            self.frame[1] += 1
        else:
            st, slot = None, 0
        stamped = getattr(st, "_wc", None) if st is not None else None
        if self.reuse and stamped is not None and slot in stamped:
            m = stamped[slot]
            self.used.append(m)
            return m
        m = self._draw(i)
        if st is not None:
            if stamped is None:
                stamped = {}
                try:
                    st._wc = stamped
                except AttributeError:
                    stamped = None
            if stamped is not None:
                stamped[slot] = m
        return m

    def _draw(self, i: int) -> str:
        if self.markers is not None:
            m = self.markers[i] if i < len(self.markers) else ""
        elif self.p_marker and self.rng.random() < self.p_marker:
            m = self.rng.choice(MARKERS[1:])
        else:
            m = ""
        self.used.append(m)
        return m

    def ws(self, need: bool = True) -> str:
        if not self.noisy_ws:
            return " " if need else ""
        opts = [" ", "  ", "\t", "\n", " \n "] if need else ["", " ", ""]
        return self.rng.choice(opts)


# ----------------------------------------------------------------------- expressions

SAFE_IDENT = set("abcdefghijklmnopqrstuvwxyzABCDEFGHIJKLMNOPQRSTUVWXYZ_")


def quote(s: str, lay: Layout, line_safe: bool = False) -> str:
    q = "'"
    if lay.alt_forms and lay.rng.random() < 0.5:
        q = '"'
    out = []
    for ch in s:
        if ch == "\\":
            out.append("\\\\")
        elif ch == q:
            out.append("\\" + q)
        elif ch == "\n" and (line_safe or (lay.alt_forms and lay.rng.random() < 0.5)):
            out.append("\\n")
        elif ch == "$":
            out.append("\\$")
        else:
            out.append(ch)
    return q + "".join(out) + q


def is_ident(s: str) -> bool:
    return bool(s) and s[0] in SAFE_IDENT and all(c in SAFE_IDENT or c.isdigit() for c in s)


def e_var(v: M.Var, lay: Layout, line: bool) -> str:
    out = [v.root]
    for seg in v.segs:
        if isinstance(seg, M.Var):
            out.append("[" + e_var(seg, lay, line) + "]")
        elif isinstance(seg, int):
            if lay.shorthand_indexes and seg >= 0 and lay.rng.random() < 0.5:
                out.append(f".{seg}")
            else:
                out.append(f"[{seg}]")
        elif is_ident(seg) and not (lay.alt_forms and lay.rng.random() < 0.3):
            out.append("." + seg)
        else:
            out.append("[" + quote(seg, lay, line) + "]")
    return "".join(out)


def e_prim(e: Any, lay: Layout, line: bool = False) -> str:
    if isinstance(e, M.Lit):
        v = e.value
        if v is None:
            return "nil" if not lay.alt_forms or lay.rng.random() < 0.5 else "null"
        if v is True:
            return "true"
        if v is False:
            return "false"
        if isinstance(v, (int, float)):
            return repr(v)
        return quote(v, lay, line)
    if isinstance(e, M.Var):
        return e_var(e, lay, line)
    if isinstance(e, M.Kw):
        return e.name
    if isinstance(e, M.Rng):
        return f"({e_prim(e.start, lay, line)}..{e_prim(e.stop, lay, line)})"
    if isinstance(e, M.TStr):
        q = "'" if not lay.alt_forms or lay.rng.random() < 0.5 else '"'
        buf = []
        for p in e.parts:
            if isinstance(p, str):
                buf.append(p.replace("\\", "\\\\").replace(q, "\\" + q).replace("$", "\\$")
                           .replace("\n", "\\n"))
            else:
                sp = " " if lay.noisy_ws and lay.rng.random() < 0.5 else ""
                buf.append("${" + sp + e_expr(p, lay, line) + sp + "}")
        return q + "".join(buf) + q
    if isinstance(e, M.Lam):
        body = e_cond(e.body, lay, line) if is_cond(e.body) else e_prim(e.body, lay, line)
        if len(e.params) == 1 and not (lay.alt_forms and lay.rng.random() < 0.3):
            return f"{e.params[0]} => {body}"
        return f"({', '.join(e.params)}) => {body}"
    raise TypeError(f"not a primitive: {e!r}")


def e_filters(fs: list[M.FCall], lay: Layout, line: bool) -> str:
    out = []
    for f in fs:
        s = f.name
        parts = [e_prim(a, lay, line) for a in f.args]
        for k, v in f.kwargs:
            sep = ":" if not lay.alt_forms or lay.rng.random() < 0.7 else "="
            parts.append(f"{k}{sep} {e_prim(v, lay, line)}" if sep == ":" else f"{k} = {e_prim(v, lay, line)}")
        if parts:
            s += ": " + ", ".join(parts)
        out.append(s)
    return "".join(f" |{lay.ws(False) or ' '}{s}" if lay.noisy_ws else f" | {s}" for s in out)


def e_expr(e: Any, lay: Layout, line: bool = False) -> str:
    if isinstance(e, M.Filt):
        left = (", ".join(e_prim(i, lay, line) for i in e.left.items)
                if isinstance(e.left, M.Arr) else e_prim(e.left, lay, line))
        return left + e_filters(e.filters, lay, line)
    if isinstance(e, M.Tern):
        s = e_expr(e.then, lay, line) + " if " + e_cond(e.cond, lay, line)
        if e.orelse is not None:
            s += " else " + e_expr(e.orelse, lay, line)
        if e.tail:
            s += " |" + e_filters(e.tail, lay, line)[1:]
        return s
    if isinstance(e, M.Arr):
        return ", ".join(e_prim(i, lay, line) for i in e.items)
    return e_prim(e, lay, line)


def is_cond(c: Any) -> bool:
    return isinstance(c, (M.Truthy, M.Not, M.And, M.Or, M.Cmp, M.Contains, M.In))


def e_cond(c: Any, lay: Layout, line: bool = False, parent: str = "") -> str:
    """Conditions with explicit grouping; `not` is always parenthesised when nested."""
    if isinstance(c, M.Truthy):
        return e_prim(c.e, lay, line)
    if isinstance(c, M.Cmp):
        op = c.op
        if op == "!=" and lay.alt_forms and lay.rng.random() < 0.3:
            op = "<>"
        s = f"{e_prim(c.l, lay, line)} {op} {e_prim(c.r, lay, line)}"
        return s
    if isinstance(c, M.Contains):
        return f"{e_prim(c.l, lay, line)} contains {e_prim(c.r, lay, line)}"
    if isinstance(c, M.In):
        return f"{e_prim(c.l, lay, line)} in {e_prim(c.r, lay, line)}"
    if isinstance(c, M.Not):
        inner = e_cond(c.c, lay, line, "not")
        if not isinstance(c.c, M.Truthy):
            inner = f"({inner})"
        s = f"not {inner}"
        return f"({s})" if parent in ("and", "or") else s
    if isinstance(c, M.And):
        a = e_cond(c.a, lay, line, "and")
        b = e_cond(c.b, lay, line, "and")
        if isinstance(c.a, M.Or):
            a = f"({a})"
        if isinstance(c.b, (M.Or, M.And)):
            b = f"({b})"
        s = f"{a} and {b}"
        return f"({s})" if parent == "not" else s
    if isinstance(c, M.Or):
        a = e_cond(c.a, lay, line, "or")
        b = e_cond(c.b, lay, line, "or")
        if isinstance(c.b, M.Or):
            b = f"({b})"
        s = f"{a} or {b}"
        return f"({s})" if parent == "not" else s
    raise TypeError(f"not a condition: {c!r}")


# ------------------------------------------------------------------------ statements


class Emitter:
    def __init__(self, lay: Layout):
        self.lay = lay
        # linear list of ("text", node) | ("markup", left, right, str)
        self.items: list[tuple] = []
        self.stack: list[list[Any]] = []

    # -- helpers
    def tag(self, body: str) -> None:
        l, r = self.lay.marker(), self.lay.marker()
        w1, w2 = self.lay.ws(), self.lay.ws()
        self.items.append(("markup", l, r, "{%" + l + w1 + body + w2 + r + "%}"))

    def out(self, body: str) -> None:
        l, r = self.lay.marker(), self.lay.marker()
        w1, w2 = self.lay.ws(), self.lay.ws()
        self.items.append(("markup", l, r, "{{" + l + w1 + body + w2 + r + "}}"))

    def maybe_comment(self) -> None:
        lay = self.lay
        if lay.comments and lay.rng.random() < 0.15:
            self.stmt(M.Comment(lay.rng.choice(["hash", "block", "inline"]), " note "))

    def block(self, body: list[Any]) -> None:
        for s in body:
            self.maybe_comment()
            self.stmt(s)

    def stmt(self, s: Any) -> None:
        self.stack.append([s, 0])
        self.lay.frame = self.stack[-1]
        try:
            self._stmt(s)
        finally:
            self.stack.pop()
            self.lay.frame = self.stack[-1] if self.stack else None

    def _stmt(self, s: Any) -> None:  # noqa: PLR0912, PLR0915
        lay = self.lay
        n = type(s).__name__
        if n == "Text":
            if self.items and self.items[-1][0] == "text":
                raise ValueError("adjacent Text statements")
            self.items.append(("text", s))
        elif n == "Out":
            if s.form == "echo":
                self.tag("echo " + e_expr(s.e, lay))
            else:
                self.out(e_expr(s.e, lay))
        elif n == "Assign":
            self.tag(f"assign {s.name} = " + e_expr(s.e, lay))
        elif n == "Capture":
            self.tag(f"capture {s.name}")
            self.block(s.body)
            self.tag("endcapture")
        elif n == "If":
            kw = "unless" if s.unless else "if"
            for i, (c, b) in enumerate(s.branches):
                self.tag(("elsif " if i else kw + " ") + e_cond(c, lay))
                self.block(b)
            if s.orelse is not None:
                self.tag("else")
                self.block(s.orelse)
            self.tag("end" + kw)
        elif n == "Case":
            self.tag("case " + e_prim(s.subject, lay))
            # only whitespace may sit between `case` and the first `when`; it is dropped
            if lay.noisy_ws and lay.rng.random() < 0.5:
                self.items.append(("dropped-ws", lay.rng.choice([" ", "\n", "\n  "])))
            for vals, b in s.whens:
                sep = ", " if not lay.alt_forms or lay.rng.random() < 0.6 else " or "
                self.tag("when " + sep.join(e_prim(v, lay) for v in vals))
                self.block(b)
            if s.orelse is not None:
                self.tag("else")
                self.block(s.orelse)
            self.tag("endcase")
        elif n == "For":
            self.tag(for_header(s, lay, False))
            self.block(s.body)
            if s.orelse is not None:
                self.tag("else")
                self.block(s.orelse)
            self.tag("endfor")
        elif n == "Break":
            self.tag("break")
        elif n == "Continue":
            self.tag("continue")
        elif n == "Incr":
            self.tag(f"increment {s.name}")
        elif n == "Decr":
            self.tag(f"decrement {s.name}")
        elif n == "Cycle":
            self.tag(cycle_body(s, lay, False))
        elif n == "Raw":
            l0, l1, l2, l3 = lay.marker(), lay.marker(), lay.marker(), lay.marker()
            s.inner = (l1, l2)
            self.items.append(
                ("markup", l0, l3, "{%" + l0 + " raw " + l1 + "%}" + s.text + "{%" + l2 + " endraw " + l3 + "%}")
            )
        elif n == "Comment":
            l, r = lay.marker(), lay.marker()
            if s.kind == "hash":
                hashes = "#" * (1 if "#" not in s.text else 3)
                txt = s.text
                # keep the text from fusing with the hashes or the markers
                if not txt or txt[0] in "#-+~" or txt[-1] in "#-+~":
                    txt = " " + txt + " "
                self.items.append(("markup", l, r, "{" + hashes + l + txt + r + hashes + "}"))
            elif s.kind == "inline":
                txt = s.text.replace("\n", "\n# ")
                self.items.append(("markup", l, r, "{%" + l + " #" + txt + r + "%}"))
            else:
                self.items.append(("markup", l, r, "{%" + l + " comment %}" + s.text + "{% endcomment " + r + "%}"))
        elif n == "With":
            self.tag("with " + ", ".join(f"{k}: {e_prim(v, lay)}" for k, v in s.binds))
            self.block(s.body)
            self.tag("endwith")
        elif n == "Macro":
            self.tag(macro_header(s, lay, False))
            self.block(s.body)
            self.tag("endmacro")
        elif n == "Call":
            self.tag(call_body(s, lay, False))
        elif n == "Partial":
            self.tag(partial_body(s, lay, False))
        elif n == "LiquidTag":
            l, r = lay.marker(), lay.marker()
            lines = liquid_lines(s.body, lay, 1)
            self.items.append(("markup", l, r, "{%" + l + " liquid\n" + "\n".join(lines) + "\n" + r + "%}"))
        else:
            raise TypeError(f"cannot emit {n}")

    def finish(self) -> str:
        """Stamp effective trims on texts and return the source."""
        items = [it for it in self.items if it[0] != "dropped-ws" or True]
        out = []
        for i, it in enumerate(items):
            if it[0] == "text":
                left = ""
                right = ""
                j = i - 1
                while j >= 0 and items[j][0] == "dropped-ws":
                    j -= 1
                if j >= 0 and items[j][0] == "markup":
                    left = items[j][2] or "default"
                else:
                    left = "default"
                j = i + 1
                if j < len(items) and items[j][0] == "markup":
                    right = items[j][1] or "default"
                else:
                    right = "default"
                it[1].eff = (left, right)
                out.append(it[1].s)
            elif it[0] == "dropped-ws":
                out.append(it[1])
            else:
                out.append(it[3])
        return "".join(out)


def for_header(s: M.For, lay: Layout, line: bool) -> str:
    it = e_expr(s.it, lay, line) if isinstance(s.it, M.Arr) else e_prim(s.it, lay, line)
    h = f"for {s.var} in {it}"
    opts = []
    if s.limit is not None:
        opts.append("limit: " + e_prim(s.limit, lay, line))
    if s.offset is not None:
        opts.append("offset: " + ("continue" if s.offset == "continue" else e_prim(s.offset, lay, line)))
    if s.reversed:
        opts.append("reversed")
    if lay.alt_forms:
        lay.rng.shuffle(opts)
    for o in opts:
        h += (", " if lay.alt_forms and lay.rng.random() < 0.2 else " ") + o
    return h


def cycle_body(s: M.Cycle, lay: Layout, line: bool) -> str:
    g = (quote(s.group, lay, line) + ": ") if s.group is not None else ""
    return "cycle " + g + ", ".join(e_prim(i, lay, line) for i in s.items)


def macro_header(s: M.Macro, lay: Layout, line: bool) -> str:
    ps = []
    for name, d in s.params:
        ps.append(name if d is None else f"{name}: {e_prim(d, lay, line)}")
    nm = quote(s.name, lay, line) if lay.alt_forms and lay.rng.random() < 0.5 else s.name
    return f"macro {nm}" + ((" " + ", ".join(ps)) if ps else "")


def call_body(s: M.Call, lay: Layout, line: bool) -> str:
    ps = [e_prim(a, lay, line) for a in s.args] + [f"{k}: {e_prim(v, lay, line)}" for k, v in s.kwargs]
    nm = quote(s.name, lay, line) if lay.alt_forms and lay.rng.random() < 0.5 else s.name
    return f"call {nm}" + ((" " + ", ".join(ps)) if ps else "")


def partial_body(s: M.Partial, lay: Layout, line: bool) -> str:
    h = f"{s.tag} " + quote(s.name, lay, line)
    if s.mode:
        h += f" {s.mode} " + e_prim(s.arg, lay, line)
        if s.alias:
            h += f" as {s.alias}"
    if s.kwargs:
        h += ("," if (s.mode or (lay.alt_forms and lay.rng.random() < 0.5)) else "") + " " + ", ".join(
            f"{k}: {e_prim(v, lay, line)}" for k, v in s.kwargs)
    return h


def liquid_ok(body: list[Any]) -> bool:
    """Can this statement list be written as line statements?"""
    for s in M.walk(body):
        n = type(s).__name__
        if n in ("Text", "Raw", "LiquidTag"):
            return False
        if n == "Comment" and s.kind == "block" and "%}" not in s.text:
            continue  # written as comment ... endcomment lines
        if n == "Comment" and (s.kind != "inline" or "\n" in s.text):
            return False
    return True


def liquid_lines(body: list[Any], lay: Layout, depth: int) -> list[str]:
    ind = "  " * depth if lay.noisy_ws else ""
    L: list[str] = []
    for s in body:
        n = type(s).__name__
        if n == "Out":
            L.append(ind + "echo " + e_expr(s.e, lay, True))
        elif n == "Assign":
            L.append(ind + f"assign {s.name} = " + e_expr(s.e, lay, True))
        elif n == "Capture":
            L.append(ind + f"capture {s.name}")
            L += liquid_lines(s.body, lay, depth + 1)
            L.append(ind + "endcapture")
        elif n == "If":
            kw = "unless" if s.unless else "if"
            for i, (c, b) in enumerate(s.branches):
                L.append(ind + ("elsif " if i else kw + " ") + e_cond(c, lay, True))
                L += liquid_lines(b, lay, depth + 1)
            if s.orelse is not None:
                L.append(ind + "else")
                L += liquid_lines(s.orelse, lay, depth + 1)
            L.append(ind + "end" + kw)
        elif n == "Case":
            L.append(ind + "case " + e_prim(s.subject, lay, True))
            for vals, b in s.whens:
                L.append(ind + "when " + ", ".join(e_prim(v, lay, True) for v in vals))
                L += liquid_lines(b, lay, depth + 1)
            if s.orelse is not None:
                L.append(ind + "else")
                L += liquid_lines(s.orelse, lay, depth + 1)
            L.append(ind + "endcase")
        elif n == "For":
            L.append(ind + for_header(s, lay, True))
            L += liquid_lines(s.body, lay, depth + 1)
            if s.orelse is not None:
                L.append(ind + "else")
                L += liquid_lines(s.orelse, lay, depth + 1)
            L.append(ind + "endfor")
        elif n in ("Break", "Continue"):
            L.append(ind + n.lower())
        elif n == "Incr":
            L.append(ind + f"increment {s.name}")
        elif n == "Decr":
            L.append(ind + f"decrement {s.name}")
        elif n == "Cycle":
            L.append(ind + cycle_body(s, lay, True))
        elif n == "Comment" and s.kind == "block":
            # a block comment whose lines are indented like the statements around them
            L.append(ind + "comment")
            for line in s.text.split("\n"):
                L.append((ind + "  " if lay.noisy_ws else "") + line.strip(" "))
            L.append(ind + "endcomment")
        elif n == "Comment":
            L.append(ind + "#" + s.text)
        elif n == "With":
            L.append(ind + "with " + ", ".join(f"{k}: {e_prim(v, lay, True)}" for k, v in s.binds))
            L += liquid_lines(s.body, lay, depth + 1)
            L.append(ind + "endwith")
        elif n == "Macro":
            L.append(ind + macro_header(s, lay, True))
            L += liquid_lines(s.body, lay, depth + 1)
            L.append(ind + "endmacro")
        elif n == "Call":
            L.append(ind + call_body(s, lay, True))
        elif n == "Partial":
            L.append(ind + partial_body(s, lay, True))
        else:
            raise TypeError(f"cannot emit {n} as a line statement")
    return L


@dataclass
class Emitted:
    source: str
    partials: dict[str, str]
    n_positions: int
    markers: list[str]


def emit(prog: M.Program, lay: Layout) -> Emitted:
    em = Emitter(lay)
    em.block(prog.body)
    src = em.finish()
    parts = {}
    for name, body in prog.partials.items():
        pe = Emitter(lay)
        pe.block(body)
        parts[name] = pe.finish()
    return Emitted(src, parts, lay.n_positions, list(lay.used))
