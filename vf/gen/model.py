"""Abstract program model (independent of liquid2's AST).

Expressions and statements are small dataclasses.  The emitter (emit.py) turns a
program into Liquid source in many layouts; the reference interpreter (ref/interp.py)
gives it a meaning straight from this model.
"""

from __future__ import annotations

from dataclasses import dataclass
from dataclasses import field
from typing import Any

# ----------------------------------------------------------------------------- exprs


@dataclass
class Lit:
    value: Any  # None | bool | int | float | str


@dataclass
class Kw:
    name: str  # empty | blank


@dataclass
class Var:
    root: str
    segs: list[Any] = field(default_factory=list)  # str (name) | int (index) | Var (nested)


@dataclass
class Rng:
    start: Any  # Lit(int) | Var
    stop: Any


@dataclass
class Arr:
    items: list[Any]  # primitives


@dataclass
class TStr:
    parts: list[Any]  # str | expression (Filt / primitive)


@dataclass
class FCall:
    name: str
    args: list[Any] = field(default_factory=list)
    kwargs: list[tuple[str, Any]] = field(default_factory=list)


@dataclass
class Filt:
    left: Any  # primitive | Arr
    filters: list[FCall] = field(default_factory=list)


@dataclass
class Tern:
    then: Filt
    cond: Any
    orelse: Filt | None
    tail: list[FCall] = field(default_factory=list)


@dataclass
class Lam:
    params: list[str]
    body: Any  # primitive expression or condition


# ------------------------------------------------------------------------ conditions


@dataclass
class Truthy:
    e: Any


@dataclass
class Not:
    c: Any


@dataclass
class And:
    a: Any
    b: Any


@dataclass
class Or:
    a: Any
    b: Any


@dataclass
class Cmp:
    op: str  # == != <> < > <= >=
    l: Any
    r: Any


@dataclass
class Contains:
    l: Any
    r: Any


@dataclass
class In:
    l: Any
    r: Any


# ------------------------------------------------------------------------ statements


@dataclass
class Stmt:
    """Base: `wc` holds one (left, right) marker pair per markup tag the statement
    emits, `eff` (texts only) the effective trim decided by the neighbours."""


@dataclass
class Text(Stmt):
    s: str
    eff: tuple[str, str] = ("", "")


@dataclass
class Out(Stmt):
    e: Any
    form: str = "out"  # out | echo


@dataclass
class Assign(Stmt):
    name: str
    e: Any


@dataclass
class Capture(Stmt):
    name: str
    body: list[Any]


@dataclass
class If(Stmt):
    branches: list[tuple[Any, list[Any]]]
    orelse: list[Any] | None = None
    unless: bool = False


@dataclass
class Case(Stmt):
    subject: Any
    whens: list[tuple[list[Any], list[Any]]]
    orelse: list[Any] | None = None


@dataclass
class For(Stmt):
    var: str
    it: Any  # Var | Rng | Arr
    body: list[Any]
    limit: Any = None
    offset: Any = None  # expr | "continue"
    reversed: bool = False
    orelse: list[Any] | None = None


@dataclass
class Break(Stmt):
    pass


@dataclass
class Continue(Stmt):
    pass


@dataclass
class Incr(Stmt):
    name: str


@dataclass
class Decr(Stmt):
    name: str


@dataclass
class Cycle(Stmt):
    group: str | None
    items: list[Any]


@dataclass
class Raw(Stmt):
    text: str


@dataclass
class Comment(Stmt):
    kind: str  # hash | block | inline
    text: str


@dataclass
class With(Stmt):
    binds: list[tuple[str, Any]]
    body: list[Any]


@dataclass
class Macro(Stmt):
    name: str
    params: list[tuple[str, Any]]  # (name, default expr | None)
    body: list[Any]


@dataclass
class Call(Stmt):
    name: str
    args: list[Any]
    kwargs: list[tuple[str, Any]]


@dataclass
class Partial(Stmt):
    tag: str  # include | render
    name: str
    mode: str | None = None  # with | for
    arg: Any = None
    alias: str | None = None
    kwargs: list[tuple[str, Any]] = field(default_factory=list)


@dataclass
class LiquidTag(Stmt):
    body: list[Any]


@dataclass
class Program:
    body: list[Any]
    partials: dict[str, list[Any]] = field(default_factory=dict)


BLOCK_FIELDS = {
    "Capture": ["body"],
    "For": ["body", "orelse"],
    "With": ["body"],
    "Macro": ["body"],
    "LiquidTag": ["body"],
}


def child_blocks(s: Any) -> list[list[Any]]:
    """All statement lists directly inside statement s."""
    n = type(s).__name__
    if n == "If":
        out = [b for _, b in s.branches]
        if s.orelse is not None:
            out.append(s.orelse)
        return out
    if n == "Case":
        out = [b for _, b in s.whens]
        if s.orelse is not None:
            out.append(s.orelse)
        return out
    return [getattr(s, f) for f in BLOCK_FIELDS.get(n, []) if getattr(s, f) is not None]


def walk(body: list[Any]):
    for s in body:
        yield s
        for b in child_blocks(s):
            yield from walk(b)
