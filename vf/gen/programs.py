"""Type-directed random program generator over gen.model.

A small typed pool of variable names is shared by data, assigns, loop variables and
block-scoped binders so that shadowing and capture patterns occur.  Generation is
type-directed to stay (mostly) inside the domain where the documented semantics pin
the result; what falls outside is detected by the reference (OutOfDomain) and skipped.
"""

from __future__ import annotations

import random
from typing import Any

from . import model as M

WORDS = ["alpha", "Beta", "gamma", "delta", "x y", "Hello", "zeta", "b", "a", "10", "kappa", "Mu"]
TEXT_BITS = ["a", "b", "text", "Hello", ", ", ".", "-", "x", "1", "é", "·"]
WS_BITS = [" ", "  ", "\n", "\t", "\r\n", "\n  ", " \n"]
UNI_WS = [" ", " ", "　", "\x0b", "\x0c", "\x85", " ", "\x1c"]

POOL = {
    "int": ["n", "m", "k"],
    "float": ["f"],
    "str": ["s", "t", "u"],
    "bool": ["b", "ok"],
    "ints": ["nums", "xs"],
    "strs": ["words", "ys"],
    "objs": ["items"],
    "hash": ["h"],
}
ALL_NAMES = [n for ns in POOL.values() for n in ns]


def _mentions(e: Any, name: str) -> int:
    """How many times the expression reads the variable *name*."""
    from dataclasses import fields, is_dataclass

    if isinstance(e, M.Var):
        return (1 if e.root == name else 0) + sum(_mentions(x, name) for x in getattr(e, "segs", []) or [])
    if is_dataclass(e) and not isinstance(e, type):
        return sum(_mentions(getattr(e, f.name), name) for f in fields(e))
    if isinstance(e, (list, tuple)):
        return sum(_mentions(x, name) for x in e)
    return 0


def _lambda_params(e: Any) -> list[str]:
    out: list[str] = []
    fs = list(getattr(e, "filters", []) or []) + list(getattr(e, "tail", []) or [])
    for sub in (getattr(e, "then", None), getattr(e, "orelse", None)):
        if sub is not None:
            fs += list(getattr(sub, "filters", []) or [])
    for f in fs:
        for a in f.args:
            if isinstance(a, M.Lam):
                out.extend(a.params)
    return out


class Profile:
    def __init__(self, **kw: Any):
        self.max_depth = 3
        self.max_stmts = 7
        self.text_ws = True  # whitespace-rich literal text
        self.unicode_ws = False
        self.partials = True
        self.macros = True
        self.liquid_tag = True
        self.captures_inspected = True  # may expressions inspect captured text?
        self.partial_prefix = ""  # e.g. "snippets/"
        self.partial_suffix = ""  # e.g. ".html"
        self.partial_interrupts = False  # break/continue inside partial bodies (C03 only)
        self.partial_kw_shadow = False  # keyword argument named like the bound variable's root (C03 only)
        self.__dict__.update(kw)


class Gen:
    def __init__(self, rng: random.Random, profile: Profile | None = None):
        self.r = rng
        self.p = profile or Profile()
        self.partials: dict[str, list[Any]] = {}
        self.macro_names: list[tuple[str, list[tuple[str, str]]]] = []
        self.cycle_groups: dict[str, list[Any]] = {}
        self.n_partials = 0

    # ------------------------------------------------------------------ data
    def data(self, empty: bool = False) -> dict[str, Any]:
        r = self.r
        if empty:
            return {}
        d: dict[str, Any] = {}
        for n in POOL["int"]:
            d[n] = r.choice([0, 1, 2, 3, 5, -1, -4, 10, 42, 2**53 + 1])
        for n in POOL["float"]:
            d[n] = r.choice([0.5, 1.5, 2.25, -0.75, 10.0, 3.0])
        for n in POOL["str"]:
            d[n] = r.choice(WORDS + ["", " pad ", "a,b,c", "MiXed"])
        for n in POOL["bool"]:
            d[n] = r.choice([True, False])
        for n in POOL["ints"]:
            d[n] = [r.choice([0, 1, 2, 3, 3, 7, -2, 10]) for _ in range(r.choice([0, 1, 2, 3, 4, 5]))]
        for n in POOL["strs"]:
            d[n] = [r.choice(WORDS) for _ in range(r.choice([0, 1, 2, 3, 4]))]
        for n in POOL["objs"]:
            d[n] = [
                {"k": r.choice([1, 2, 3]), "t": r.choice(WORDS), "ok": r.choice([True, False, None]),
                 "tags": [r.choice(WORDS) for _ in range(r.randint(0, 2))]}
                for _ in range(r.choice([0, 1, 2, 3, 4]))
            ]
        for n in POOL["hash"]:
            d[n] = {"title": r.choice(WORDS), "count": r.choice([0, 1, 7]),
                    "inner": {"x": r.choice([1, 2]), "name": r.choice(WORDS)},
                    "list": [1, 2, 3][: r.randint(0, 3)], "two words": "tw"}
        # drop a few variables so undefined occurs
        for n in r.sample(ALL_NAMES, r.choice([0, 0, 1, 2])):
            d.pop(n, None)
        return d

    # ----------------------------------------------------------- expressions
    def lit(self, ty: str) -> M.Lit:
        r = self.r
        if ty == "int":
            return M.Lit(r.choice([0, 1, 2, 3, 7, 10, -1, -5, 100]))
        if ty == "float":
            return M.Lit(r.choice([0.5, 1.5, 2.25, -0.75, 4.0]))
        if ty == "str":
            return M.Lit(r.choice(WORDS + ["", " ", "a,b"]))
        if ty == "bool":
            return M.Lit(r.choice([True, False]))
        return M.Lit(None)

    def var_of(self, ty: str, env: dict[str, str]) -> M.Var | None:
        names = [n for n, t in env.items() if t == ty]
        if not names:
            return None
        return M.Var(self.r.choice(names))

    def prim(self, ty: str, env: dict[str, str], loop: bool = False) -> Any:
        """A primitive (literal / path) of scalar type ty."""
        r = self.r
        c = r.random()
        if c < 0.45:
            v = self.var_of(ty, env)
            if v is not None:
                return v
        if c < 0.75:
            # paths into compound data
            if ty == "int":
                opts = []
                if any(t == "ints" for t in env.values()):
                    a = self.var_of("ints", env)
                    opts += [M.Var(a.root, [r.choice([0, 1, -1, 2, -2, -3, -4, -5, -7, 3, 5])]), M.Var(a.root, ["size"]),
                             M.Var(a.root, [r.choice(["first", "last"])])]
                if any(t == "objs" for t in env.values()):
                    a = self.var_of("objs", env)
                    opts += [M.Var(a.root, [r.choice([0, 1]), "k"]), M.Var(a.root, ["size"])]
                if any(t == "hash" for t in env.values()):
                    a = self.var_of("hash", env)
                    opts += [M.Var(a.root, ["count"]), M.Var(a.root, ["inner", "x"]),
                             M.Var(a.root, ["list", r.choice([0, 2])]), M.Var(a.root, ["size"])]
                if loop:
                    opts += [M.Var("forloop", [r.choice(["index", "index0", "rindex", "rindex0", "length"])])]
                    if r.random() < 0.3:
                        opts.append(M.Var("forloop", ["parentloop", r.choice(["index", "length"])]))
                if opts:
                    return r.choice(opts)
            if ty == "str":
                opts = []
                if any(t == "strs" for t in env.values()):
                    a = self.var_of("strs", env)
                    opts += [M.Var(a.root, [r.choice([0, 1, -1, 2, -2, -3, -4, -6])]), M.Var(a.root, [r.choice(["first", "last"])])]
                if any(t == "objs" for t in env.values()):
                    a = self.var_of("objs", env)
                    opts += [M.Var(a.root, [0, "t"]), M.Var(a.root, [r.choice([0, 1]), "tags", 0])]
                if any(t == "hash" for t in env.values()):
                    a = self.var_of("hash", env)
                    opts += [M.Var(a.root, ["title"]), M.Var(a.root, ["inner", "name"]),
                             M.Var(a.root, ["two words"])]
                    s = self.var_of("str", env)
                    if s is not None and r.random() < 0.2:
                        opts.append(M.Var(a.root, [s]))  # dynamic key (usually undefined)
                if opts:
                    return r.choice(opts)
            if ty == "bool":
                opts = []
                if loop:
                    opts += [M.Var("forloop", [r.choice(["first", "last"])])]
                if any(t == "objs" for t in env.values()):
                    a = self.var_of("objs", env)
                    opts += [M.Var(a.root, [0, "ok"])]
                if opts:
                    return r.choice(opts)
        return self.lit(ty)

    def list_prim(self, ty: str, env: dict[str, str], loop: bool = False) -> Any:
        """A primitive list expression: ty in ints / strs / objs."""
        r = self.r
        v = self.var_of(ty, env)
        if ty == "ints" and (v is None or r.random() < 0.3):
            a = r.choice([0, 1, 2, 3])
            stop: Any = M.Lit(a + r.choice([-1, 0, 1, 2, 4]))
            if r.random() < 0.3:
                # a stop that varies between evaluations of the same node (small by construction)
                opts: list[Any] = []
                if loop:
                    opts += [M.Var("forloop", ["index"]), M.Var("forloop", ["index"]), M.Var("forloop", ["length"])]
                if any(t == "ints" for t in env.values()):
                    opts.append(M.Var(self.var_of("ints", env).root, ["size"]))
                if any(t == "hash" for t in env.values()):
                    opts.append(M.Var(self.var_of("hash", env).root, ["count"]))
                if any(t == "objs" for t in env.values()):
                    opts.append(M.Var(self.var_of("objs", env).root, [r.choice([0, 1]), "k"]))
                if opts:
                    stop = r.choice(opts)
            return M.Rng(M.Lit(a) if r.random() < 0.7 else (self.var_of("int", env) or M.Lit(a)), stop)
        if v is None:
            v = M.Var(POOL[ty][0])
        if ty == "ints" and r.random() < 0.15 and any(t == "hash" for t in env.values()):
            return M.Var(self.var_of("hash", env).root, ["list"])
        return v

    STR_FILTERS = ["upcase", "downcase", "capitalize", "append", "prepend", "strip", "lstrip", "rstrip",
                   "replace", "remove", "truncate", "slice", "default", "escape", "replace_first",
                   "remove_first", "replace_last", "remove_last", "truncatewords"]
    INT_FILTERS = ["plus", "minus", "times", "abs", "at_least", "at_most", "divided_by", "modulo"]
    LIST_FILTERS = ["reverse", "sort", "uniq", "concat", "slice", "compact"]

    def fcall(self, ty: str, env: dict[str, str], loop: bool) -> tuple[M.FCall, str]:
        """A filter applicable to a value of type ty; returns (call, result type)."""
        r = self.r
        if ty == "str":
            f = r.choice(self.STR_FILTERS + ["size", "split"])
            if f in ("append", "prepend", "remove", "remove_first", "remove_last"):
                return M.FCall(f, [self.prim("str", env, loop) if f in ("append", "prepend") else M.Lit(r.choice(["a", "e", "l", "x y"]))]), "str"
            if f in ("replace", "replace_first", "replace_last"):
                return M.FCall(f, [M.Lit(r.choice(["a", "e", "l", " "])), self.prim("str", env, loop)]), "str"
            if f == "truncate":
                args = [M.Lit(r.choice([4, 5, 8, 20]))]
                if r.random() < 0.3:
                    args.append(M.Lit(r.choice(["", "..", "~"])))
                return M.FCall(f, args), "str"
            if f == "truncatewords":
                return M.FCall(f, [M.Lit(r.choice([1, 2, 5]))]), "str"
            if f == "slice":
                args = [M.Lit(r.choice([0, 1, 2, -1, -2]))]
                if r.random() < 0.6:
                    args.append(M.Lit(r.choice([0, 1, 2, 5])))
                return M.FCall(f, args), "str"
            if f == "default":
                kw = [("allow_false", M.Lit(True))] if r.random() < 0.2 else []
                return M.FCall(f, [self.prim("str", env, loop)], kw), "str"
            if f == "size":
                return M.FCall(f), "int"
            if f == "split":
                return M.FCall(f, [M.Lit(r.choice([",", " ", "a", ""]))]), "strs"
            return M.FCall(f), "str"
        if ty in ("int", "float"):
            f = r.choice(self.INT_FILTERS + ["ceil", "floor", "round"] if ty == "float" else self.INT_FILTERS)
            if f in ("abs", "ceil", "floor", "round"):
                return M.FCall(f), ("int" if f != "abs" else ty)
            if f in ("divided_by", "modulo"):
                if ty == "float":
                    f = "plus"
                else:
                    return M.FCall(f, [M.Lit(r.choice([1, 2, 3, -2, 7]))]), "int"
            arg_ty = "float" if r.random() < 0.15 else "int"
            return M.FCall(f, [self.prim(arg_ty, env, loop)]), ("float" if "float" in (ty, arg_ty) else "int")
        if ty in ("ints", "strs"):
            f = r.choice(self.LIST_FILTERS + ["join", "first", "last", "size", "sum" if ty == "ints" else "sort_natural"])
            el = "int" if ty == "ints" else "str"
            if f == "concat":
                return M.FCall(f, [self.list_prim(ty, env, loop)]), ty
            if f == "slice":
                return M.FCall(f, [M.Lit(r.choice([0, 1, -1, -2])), M.Lit(r.choice([1, 2, 3]))]), ty
            if f == "join":
                return M.FCall(f, [M.Lit(r.choice([",", "-", " ", ""]))] if r.random() < 0.8 else []), "str"
            if f in ("first", "last"):
                return M.FCall(f), el
            if f == "size":
                return M.FCall(f), "int"
            if f == "sum":
                return M.FCall(f), "int"
            return M.FCall(f), ty
        if ty == "objs":
            f = r.choice(["map", "where", "reject", "find", "find_index", "has", "size", "sum", "first", "reverse"])
            if f == "map":
                if r.random() < 0.5:
                    k = r.choice(["k", "t"])
                    return M.FCall(f, [M.Lit(k)]), ("ints" if k == "k" else "strs")
                k = r.choice(["k", "t"])
                pn = r.choice(["it", "it", "i", "x", "n", "s"])
                return M.FCall(f, [M.Lam([pn], M.Var(pn, [k]))]), ("ints" if k == "k" else "strs")
            if f in ("where", "reject", "find", "find_index", "has"):
                form = r.random()
                if form < 0.35:
                    args: list[Any] = [M.Lit("k"), M.Lit(r.choice([1, 2, 3]))]
                elif form < 0.5:
                    args = [M.Lit("ok")]
                elif form < 0.8:
                    pn = r.choice(["it", "it", "x", "s", "t"])
                    args = [M.Lam([pn], M.Cmp(r.choice(["==", "!=", "<", ">="]), M.Var(pn, ["k"]),
                                            self.prim("int", env, loop)))]
                else:
                    pn = r.choice(["it", "it", "x", "s"])
                    args = [M.Lam([pn, "i"] if r.random() < 0.3 else [pn], M.Truthy(M.Var(pn, ["ok"])))]
                rt = {"where": "objs", "reject": "objs", "find": "obj", "find_index": "int?", "has": "bool"}[f]
                return M.FCall(f, args), rt
            if f == "sum":
                return M.FCall(f, [M.Lit("k")] if r.random() < 0.6 else [M.Lam(["it"], M.Var("it", ["k"]))]), "int"
            if f == "size":
                return M.FCall(f), "int"
            if f == "first":
                return M.FCall(f), "obj"
            return M.FCall(f), "objs"
        raise ValueError(ty)

    def filtered(self, env: dict[str, str], loop: bool, want_printable: bool = True) -> Any:
        """A filtered expression whose final value is printable (scalar or flat list)."""
        r = self.r
        ty = r.choice(["str", "str", "int", "int", "float", "bool", "ints", "strs", "objs"])
        if ty in ("ints", "strs", "objs"):
            left: Any = self.list_prim(ty, env, loop)
        else:
            left = self.prim(ty, env, loop)
        fs: list[M.FCall] = []
        for _ in range(r.choice([0, 0, 1, 1, 2, 3])):
            if ty in ("bool", "obj", "int?"):
                break
            f, ty = self.fcall(ty, env, loop)
            fs.append(f)
        if ty == "objs":
            f, ty = M.FCall("map", [M.Lit("t")]), "strs"
            fs.append(f)
        if ty == "obj":
            return None  # not printable; caller retries
        if isinstance(left, M.Lit) and not fs and r.random() < 0.1 and ty in ("int", "str"):
            # array literal
            return M.Filt(M.Arr([left, self.prim(ty, env, loop), self.prim("str", env, loop)]),
                          [M.FCall("join", [M.Lit("/")])] if r.random() < 0.7 else [])
        return M.Filt(left, fs)

    def out_expr(self, env: dict[str, str], loop: bool) -> Any:
        r = self.r
        if not self.p.captures_inspected and r.random() < 0.12:
            return M.Filt(M.Var(r.choice(["cap1", "cap2"])))  # printed as is, never inspected
        for _ in range(10):
            e = self.filtered(env, loop)
            if e is not None:
                break
        else:
            e = M.Filt(self.lit("str"))
        c = r.random()
        if c < 0.12:
            if isinstance(e, M.Filt) and isinstance(e.left, M.Arr):
                e = M.Filt(self.lit("str"))  # array literals are not allowed in ternary branches
            orelse = self.filtered(env, loop) if r.random() < 0.7 else None
            if isinstance(orelse, M.Filt) and isinstance(orelse.left, M.Arr):
                orelse = None
            if orelse is None and r.random() < 0.5:
                orelse = None
            tail = [M.FCall(r.choice(["upcase", "size"]) if r.random() < 0.7 else "default", [] if True else [])] if r.random() < 0.3 else []
            if tail and tail[0].name == "default":
                tail = [M.FCall("default", [M.Lit("dflt")])]
            return M.Tern(e, self.cond(env, loop, 1), orelse, tail)
        if c < 0.2 and isinstance(e, M.Filt) and not e.filters:
            return M.Filt(M.TStr([r.choice(["", "a ", "[ "]), M.Filt(e.left), r.choice(["", " b", " ]"])]))
        return e

    def cond(self, env: dict[str, str], loop: bool, depth: int = 0) -> Any:
        r = self.r
        c = r.random()
        if depth < 2 and c < 0.3:
            k = r.random()
            if k < 0.4:
                return M.And(self.cond(env, loop, depth + 1), self.cond(env, loop, depth + 1))
            if k < 0.8:
                return M.Or(self.cond(env, loop, depth + 1), self.cond(env, loop, depth + 1))
            return M.Not(self.cond(env, loop, depth + 1))
        if c < 0.5:
            ty = r.choice(["bool", "str", "int", "ints", "objs", "hash"])
            if ty in ("ints", "objs", "hash"):
                v = self.var_of(ty, env) or M.Var(POOL[ty][0])
                return M.Truthy(v)
            return M.Truthy(self.prim(ty, env, loop))
        if c < 0.85:
            ty = r.choice(["int", "int", "str", "float"])
            op = r.choice(["==", "!=", "<", ">", "<=", ">="])
            a = self.prim(ty, env, loop)
            b = self.prim("int" if ty == "float" and r.random() < 0.5 else ty, env, loop)
            if r.random() < 0.12:
                op = r.choice(["==", "!="])
                b = r.choice([M.Lit(None), M.Kw("empty"), M.Kw("blank")])
                a = self.prim(r.choice(["str", "int"]), env, loop) if r.random() < 0.6 else (
                    self.var_of(r.choice(["ints", "strs"]), env) or a)
            return M.Cmp(op, a, b)
        k = r.random()
        if k < 0.5:
            a, b = self.prim("str", env, loop), M.Lit(r.choice(["a", "e", "l", "Hello", ""]))
        elif k < 0.8:
            a, b = (self.var_of("strs", env) or M.Var("words")), self.prim("str", env, loop)
        else:
            a, b = (self.var_of("ints", env) or M.Var("nums")), self.prim("int", env, loop)
        return M.Contains(a, b) if r.random() < 0.6 else M.In(b, a)

    # ------------------------------------------------------------- statements
    def text(self) -> M.Text:
        r = self.r
        bits = []
        n = r.randint(1, 4)
        for _ in range(n):
            k = r.random()
            if self.p.text_ws and k < 0.45:
                bits.append(r.choice(WS_BITS))
            elif self.p.unicode_ws and k < 0.55:
                bits.append(r.choice(UNI_WS))
            else:
                bits.append(r.choice(TEXT_BITS))
        return M.Text("".join(bits))

    def ws_text(self) -> M.Text:
        r = self.r
        pool = WS_BITS + (UNI_WS if self.p.unicode_ws else [])
        return M.Text("".join(r.choice(pool) for _ in range(r.randint(1, 2))))

    def name_for(self, ty: str) -> str:
        return self.r.choice(POOL[ty])

    def body(self, depth: int, env: dict[str, str], loop: bool, isolated: bool, n: int | None = None,
             allow_text: bool = True) -> list[Any]:
        r = self.r
        n = n if n is not None else r.randint(1, max(1, self.p.max_stmts - 2 * depth))
        out: list[Any] = []
        env = dict(env)
        for _ in range(n):
            s = self.stmt(depth, env, loop, isolated, allow_text)
            if s is None:
                continue
            if isinstance(s, list):  # a family of statements (e.g. loops sharing state)
                out.extend(s)
                continue
            if isinstance(s, M.Text) and out and isinstance(out[-1], M.Text):
                continue
            out.append(s)
        return out

    def maybe_blank_body(self, depth: int, env: dict[str, str], loop: bool, isolated: bool) -> list[Any]:
        """Sometimes a body made only of whitespace text and non-writing tags."""
        r = self.r
        if r.random() < 0.18:
            b: list[Any] = []
            if r.random() < 0.7:
                b.append(self.ws_text())
            b.append(M.Assign(self.name_for("int"), M.Filt(self.lit("int"))) if r.random() < 0.6
                     else M.Comment("hash", " c "))
            if r.random() < 0.5:
                b.append(self.ws_text())
            return b
        return self.body(depth, env, loop, isolated)

    def stmt(self, depth: int, env: dict[str, str], loop: bool, isolated: bool, allow_text: bool) -> Any:  # noqa: PLR0911, PLR0912, PLR0915
        r = self.r
        deep = depth >= self.p.max_depth
        kinds = ["text"] * 5 + ["out"] * 6 + ["assign"] * 3 + ["incr", "cycle", "raw", "comment", "capture"]
        if not deep:
            kinds += ["if"] * 4 + ["for"] * 4 + ["case"] * 2 + ["with"] + ["forseq"]
            if self.p.liquid_tag:
                kinds += ["liquid"]
            if self.p.partials and self.n_partials < 3:
                kinds += ["partial"] * 2
            if self.p.macros and not isolated and depth == 0:
                kinds += ["macro"]
                if len(self.macro_names) < 4:
                    kinds += ["lamscope"]
        if loop:
            kinds += ["break", "continue"]
        if self.macro_names and not isolated:
            kinds += ["call"] * 2
        k = r.choice(kinds)
        if k == "text":
            return self.text() if allow_text else None
        if k == "out":
            e = self.out_expr(env, loop)
            o = M.Out(e, "echo" if r.random() < 0.2 else "out")
            params = _lambda_params(e)
            if params and r.random() < 0.6:
                # a lambda parameter is visible only inside the lambda: print it afterwards
                return [o, M.Out(M.Filt(M.Var(r.choice(params))))]
            return o
        if k == "assign":
            ty = r.choice(["int", "str", "str", "bool", "ints", "strs", "float"])
            name = self.name_for(ty)
            if ty in ("ints", "strs"):
                e: Any = M.Filt(self.list_prim(ty, env, loop), [M.FCall(r.choice(["reverse", "uniq", "sort"]))] if r.random() < 0.5 else [])
                if r.random() < 0.2:
                    el = "int" if ty == "ints" else "str"
                    e = M.Filt(M.Arr([self.prim(el, env, loop) for _ in range(r.randint(2, 3))]))
            else:
                left = self.prim(ty, env, loop)
                fs = []
                t2 = ty
                if r.random() < 0.5 and ty != "bool":
                    f, t2 = self.fcall(ty, env, loop)
                    fs = [f]
                    if t2 != ty:
                        fs, t2 = [], ty
                e = M.Filt(left, fs)
            if loop and _mentions(e, name) >= 2:
                # `assign t = t | replace: ' ', t` inside nested loops squares the value on
                # every iteration: no bounded meaning, minutes of CPU for every renderer
                e = M.Filt(self.prim(ty, env, loop) if ty not in ("ints", "strs") else self.list_prim(ty, env, loop))
                if _mentions(e, name) >= 2:
                    e = M.Filt(self.lit(ty if ty not in ("ints", "strs") else "str"))
            env[name] = ty
            return M.Assign(name, e)
        if k == "capture":
            name = self.name_for("str") if self.p.captures_inspected else r.choice(["cap1", "cap2"])
            b = self.body(depth + 1, env, loop, isolated, n=r.randint(1, 3))
            if not any(isinstance(s, (M.Out, M.Text)) and (not isinstance(s, M.Text) or s.s.strip()) for s in b):
                b.append(M.Out(M.Filt(self.lit("str"))))
                if len(b) >= 2 and isinstance(b[-2], M.Out) is False and isinstance(b[-2], M.Text) is False:
                    pass
            if self.p.captures_inspected:
                env[name] = "str"
            return M.Capture(name, b)
        if k == "incr":
            return (M.Incr if r.random() < 0.6 else M.Decr)(r.choice(["c1", "c2", "n"]))
        if k == "cycle":
            if r.random() < 0.4:
                g = r.choice(["g1", "g2"])
                items = self.cycle_groups.setdefault(g, [self.lit(r.choice(["str", "int"])) for _ in range(r.randint(1, 3))])
                return M.Cycle(g, items)
            return M.Cycle(None, r.choice([[M.Lit("odd"), M.Lit("even")], [M.Lit(1), M.Lit(2), M.Lit(3)], [M.Lit("x")]]))
        if k == "raw":
            return M.Raw(r.choice(["{{ raw }}", " {% if %} ", "r", " \n r \n ", "{# x #}", " "])) if allow_text else None
        if k == "comment":
            if not allow_text:
                return M.Comment("inline", " note")
            return M.Comment(r.choice(["hash", "block", "inline"]), r.choice([" note ", " {{ x }} ", "", "\n multi\n line\n", " - item, (x)\n\n * two "]))
        if k in ("break", "continue"):
            inner = [M.Break() if k == "break" else M.Continue()]
            return M.If([(self.cond(env, loop, 1), inner)], None)
        if k == "if":
            nb = r.choice([1, 1, 2, 3])
            branches = [(self.cond(env, loop), self.maybe_blank_body(depth + 1, env, loop, isolated)) for _ in range(nb)]
            orelse = self.maybe_blank_body(depth + 1, env, loop, isolated) if r.random() < 0.5 else None
            return M.If(branches, orelse, unless=r.random() < 0.25)
        if k == "case":
            ty = r.choice(["int", "str"])
            subj = self.prim(ty, env, loop)
            whens = []
            for _ in range(r.randint(1, 3)):
                vals = [self.lit(ty) if r.random() < 0.7 else self.prim(ty, env, loop) for _ in range(r.choice([1, 1, 2]))]
                if r.random() < 0.3:
                    vals.append(subj)
                whens.append((vals, self.maybe_blank_body(depth + 1, env, loop, isolated)))
            orelse = self.maybe_blank_body(depth + 1, env, loop, isolated) if r.random() < 0.6 else None
            return M.Case(subj, whens, orelse)
        if k == "for":
            ty = r.choice(["ints", "strs", "objs", "ints", "hash"])
            var = r.choice(["i", "x", "it", self.name_for("int"), self.name_for("str")])
            e2 = dict(env)
            if ty == "hash":
                it: Any = self.var_of("hash", env) or M.Var("h")
                e2[var] = "pair"
            else:
                it = self.list_prim(ty, env, loop)
                e2[var] = {"ints": "int", "strs": "str", "objs": "obj"}[ty]
            limit = offset = None
            rev = False
            if not isinstance(it, M.Arr) and r.random() < 0.45:
                if r.random() < 0.6:
                    limit = M.Lit(r.choice([0, 1, 2, 3])) if r.random() < 0.8 else self.prim("int", env, loop)
                if r.random() < 0.5:
                    offset = "continue" if r.random() < 0.4 else M.Lit(r.choice([0, 1, 2]))
                rev = r.random() < 0.3
            b = self.maybe_blank_body(depth + 1, e2, True, isolated)
            if e2[var] in ("int", "str") and r.random() < 0.6:
                b.insert(0, M.Out(M.Filt(M.Var(var))))
                if len(b) > 1 and isinstance(b[1], M.Text) is False:
                    pass
            elif e2[var] == "obj" and r.random() < 0.6:
                b.insert(0, M.Out(M.Filt(M.Var(var, [r.choice(["k", "t"])]))))
            elif e2[var] == "pair" and r.random() < 0.6:
                b.insert(0, M.Out(M.Filt(M.Var(var, [0]))))
            orelse = self.maybe_blank_body(depth + 1, env, loop, isolated) if r.random() < 0.35 else None
            if orelse is None and r.random() < 0.25 and all(isinstance(x, (M.Text, M.Assign, M.Comment)) for x in b):
                orelse = [M.Text(r.choice(["empty", "none", "-"]))]  # blank body, printing else
            return M.For(var, it, b, limit, offset, rev, orelse)
        if k == "forseq":
            # 2-4 consecutive loops over the same (variable, iterable): `offset: continue`
            # starts where the previous such loop stopped selecting, whatever it was
            ty = r.choice(["ints", "strs"])
            it = self.var_of(ty, env) or M.Var(POOL[ty][0])
            var = r.choice(["i", "x"])
            e2 = dict(env)
            e2[var] = "int" if ty == "ints" else "str"
            seq: list[Any] = []
            for j in range(r.randint(2, 4)):
                limit = M.Lit(r.choice([0, 0, 1, 2, 3])) if r.random() < 0.6 else None
                offset: Any = None
                if j and r.random() < 0.7:
                    offset = "continue"
                elif r.random() < 0.3:
                    offset = M.Lit(r.choice([0, 1, 2]))
                b: list[Any] = [M.Out(M.Filt(M.Var(var)))]
                if r.random() < 0.4:
                    b.append(M.Text(r.choice([",", " ", "-"])))
                if r.random() < 0.2:
                    b.append(M.If([(self.cond(e2, True, 1), [M.Break()])], None))
                orelse = [M.Text("none")] if r.random() < 0.4 else None
                seq.append(M.For(var, it, b, limit, offset, r.random() < 0.2, orelse))
                if r.random() < 0.3:
                    seq.append(M.Text(r.choice(["|", " / ", "\n"])))
            return seq
        if k == "with":
            binds = []
            e2 = dict(env)
            for _ in range(r.randint(1, 2)):
                ty = r.choice(["int", "str"])
                nm = self.name_for(ty)
                binds.append((nm, self.prim(ty, env, loop)))
                e2[nm] = ty
            b = self.body(depth + 1, e2, loop, isolated, n=r.randint(1, 3))
            b.append(M.Out(M.Filt(M.Var(binds[0][0]))))
            return M.With(binds, b)
        if k == "liquid":
            b = self.body(depth + 1, env, loop, isolated, n=r.randint(1, 4), allow_text=False)
            b = [s for s in b if s is not None]
            from .emit import liquid_ok

            if not b or not liquid_ok(b):
                return None
            # keep typing info from assigns inside
            for s in b:
                if isinstance(s, M.Assign):
                    pass
            return M.LiquidTag(b)
        if k == "macro":
            name = f"mac{len(self.macro_names)}"
            params = []
            e2: dict[str, str] = {}
            for _ in range(r.randint(0, 3)):
                ty = r.choice(["int", "str"])
                nm = self.name_for(ty)
                if any(nm == p for p, _ in params):
                    continue
                params.append((nm, self.lit(ty) if r.random() < 0.5 else None))
                e2[nm] = ty
            b = self.body(depth + 1, e2, False, True, n=r.randint(1, 4))
            b.append(M.Out(M.Filt(M.Var(params[0][0]))) if params else M.Out(M.Filt(M.Var("args"), [M.FCall("join", [M.Lit("+")])])))
            self.macro_names.append((name, [(p, e2[p]) for p, _ in params]))
            return M.Macro(name, params, b)
        if k == "lamscope":
            # An arrow function whose body reads a variable of the scope it is written in
            # (a macro parameter / a keyword argument of a rendered partial), used under the
            # same filter name from several scopes with different values.
            pn = self.name_for("int")
            f = r.choice(["where", "reject", "find_index", "has", "where", "find"])
            cmpv: Any = M.Var(pn)
            lam_p = r.choice(["it", "x", "e"])
            if True:
                lam: Any = M.Lam([lam_p], M.Cmp(r.choice(["==", "!=", "<", ">="]), M.Var(lam_p, ["k"]), cmpv))
                tail = {"where": [M.FCall("map", [M.Lit("k")]), M.FCall("join", [M.Lit(",")])],
                        "reject": [M.FCall("map", [M.Lit("k")]), M.FCall("join", [M.Lit(",")])],
                        "find": [M.FCall("json")], "find_index": [], "has": []}[f]
            use = M.Out(M.Filt(M.Var("items"), [M.FCall(f, [lam]), *tail]))
            vals = r.sample([0, 1, 2, 3, 5], 3)
            out: list[Any] = []
            if r.random() < 0.5:
                # ... and from the enclosing template itself, before or after
                out.append(M.Assign(pn, M.Filt(M.Lit(vals[2]))))
                out.append(use)
            if r.random() < 0.6:
                name = f"mac{len(self.macro_names)}"
                self.macro_names.append((name, [(pn, "int")]))
                out.append(M.Macro(name, [(pn, None)], [M.Text("("), use, M.Text(")")]))
                out.append(M.Call(name, [M.Lit(vals[0])], []))
                out.append(M.Call(name, [], [(pn, M.Lit(vals[1]))]))
            elif self.p.partials:
                pname = f"{self.p.partial_prefix}part{len(self.partials)}{self.p.partial_suffix}"
                self.partials[pname] = [M.Text("<"), use, M.Text(">")]
                self.n_partials += 1
                out.append(M.Partial("render", pname, None, None, None, [(pn, M.Lit(vals[0]))]))
                out.append(M.Partial("render", pname, None, None, None, [(pn, M.Lit(vals[1]))]))
            if r.random() < 0.5:
                out.append(use)
            return out or None
        if k == "call":
            name, ptypes = r.choice(self.macro_names)
            args = [self.prim(t, env, loop) for _, t in ptypes[: r.randint(0, len(ptypes))]]
            if r.random() < 0.2:
                args.append(self.prim("int", env, loop))
            kwargs = []
            if ptypes and r.random() < 0.4:
                p, t = r.choice(ptypes)
                kwargs.append((p, self.prim(t, env, loop)))
            if r.random() < 0.15:
                kwargs.append(("extra", self.prim("str", env, loop)))
            return M.Call(name, args, kwargs)
        if k == "partial":
            self.n_partials += 1
            tag = "render" if (isolated or r.random() < 0.5) else "include"
            if isolated and r.random() < 0.08:
                tag = "include"  # refused inside a rendered partial / macro: DisabledTagError
            name = f"{self.p.partial_prefix}part{len(self.partials)}{self.p.partial_suffix}"
            mode = r.choice([None, None, "with", "for"])
            alias = None
            arg = None
            plain = not (self.p.partial_prefix or self.p.partial_suffix)
            e2 = dict(env) if tag == "include" else {n: t for n, t in env.items() if n in ALL_NAMES and False}
            if tag == "render":
                # a rendered partial sees globals only: type info of data variables
                e2 = {n: t for t, ns in POOL.items() for n in ns}
            if mode == "with":
                ty = r.choice(["int", "str"])
                arg = self.prim(ty, env, loop)
                if isinstance(arg, M.Lit) and arg.value is None:
                    arg = self.lit(ty)
                alias = r.choice([None, "item", self.name_for(ty)] if plain else ["item", self.name_for(ty)])
                e2[alias or name] = ty
            elif mode == "for":
                lty = r.choice(["ints", "strs"])
                arg = self.var_of(lty, env) or M.Var(POOL[lty][0])
                alias = r.choice([None, "item", "i"] if plain else ["item", "i"])
                e2[alias or name] = "int" if lty == "ints" else "str"
            kwargs = []
            if r.random() < 0.4:
                ty = r.choice(["int", "str"])
                nm = self.name_for(ty)
                kwargs.append((nm, self.prim(ty, env, loop)))
                e2[nm] = ty
            if self.p.partial_kw_shadow and mode and isinstance(arg, M.Var) and r.random() < 0.5:
                # the bound variable's root name is also a keyword argument of the tag
                lty = {"ints": "ints", "strs": "strs"}.get(env.get(arg.root, ""), None)
                val = (self.var_of(lty, env) or arg) if lty else self.prim(r.choice(["int", "str"]), env, loop)
                kwargs.append((arg.root, val))
            self.partials[name] = []  # reserve the name
            pb = self.body(depth + 1, e2, bool(self.p.partial_interrupts), tag == "render" or isolated,
                           n=r.randint(1, 4))
            if mode:
                pb.append(M.Out(M.Filt(M.Var(alias or name))))
            if tag == "render" and mode == "for" and r.random() < 0.5:
                pb.append(M.Out(M.Filt(M.Var("forloop", [r.choice(["index", "length", "first", "last", "rindex0"])]))))
            self.partials[name] = pb
            return M.Partial(tag, name, mode, arg, alias, kwargs)
        return None

    def program(self) -> M.Program:
        self.partials = {}
        self.macro_names = []
        self.cycle_groups = {}
        self.n_partials = 0
        env = {n: t for t, ns in POOL.items() for n in ns}
        body = self.body(0, env, False, False, n=self.r.randint(2, self.p.max_stmts))
        return M.Program(body, dict(self.partials))
