"""C19 units: the data-shape axis and sequences of filter applications in one render.

shapes - docs/variables_and_drops.md: "Anywhere an array-like value is expected ... Liquid will
accept any Python Sequence, not just a list"; "In the case of a Mapping, like a dict, ... a
sequence filter will add the mapping to a single element sequence and iterate over that"; a
drop "implements the Sequence or Mapping interface".  Law: every array-filter application gives
the same result whether the array is a list, a tuple, a Sequence drop or a one-shot iterable,
whether its items are dicts or Mapping drops, whether a range is a range object or the list of
its numbers, and `h | F` == `[h] | F` for a single hash h (dict or Mapping drop) - string-key
and lambda forms.  Results are projected to scalars (ids, sizes, sums) so they can be compared
after json.

sequence - a filter application is a function of its input and arguments: preceding it (and
interleaving it) in the same render with lambda-form find / has / find_index / where
applications that match early, match late or never match, and whose parameter names collide
with the variables the later application uses, must not change its result.
"""

from __future__ import annotations

import json
import random
from typing import Any

from .c19_lib import Res
from .c19_lib import g_word
from .c19_lib import shaped
from .c19_lib import skey
from .c19_run import Runner
from .c19_run import unit

VALS = ["kitchen", "house", "sale", "a", "B", "b", None, True, False, 3, 1.5]
STRS = ["kitchen", "house", "sale", "a", "B", "b"]


def _hashes(rng: random.Random, lo: int, hi: int, strings_only: bool = False) -> list[dict[str, Any]]:
    out = []
    for j in range(rng.randint(lo, hi)):
        h: dict[str, Any] = {"id": j + 1, "title": g_word(rng), "n": rng.choice((1, 2, 2.5, "3", 10**20))}
        c = rng.random()
        if c < 0.75:
            h["k"] = rng.choice(STRS if strings_only else VALS)
        elif c < 0.85 and not strings_only:
            h["k"] = None
        h["s"] = rng.choice(STRS)
        out.append(h)
    return out


def gen_shapes(rng: random.Random, i: int) -> dict[str, Any]:
    m = rng.random()
    if m < 0.12:
        a = rng.randint(-3, 5)
        return {"mode": "range", "x": list(range(a, a + rng.randint(1, 6))), "y": [rng.randint(0, 9) for _ in range(rng.randint(0, 3))]}
    single = m < 0.4
    x = _hashes(rng, 1, 1 if single else 6)
    v = rng.choice([h.get("k") for h in x if h.get("k") is not None] or ["kitchen"]) if rng.random() < 0.7 else rng.choice(STRS)
    y = _hashes(rng, 0, 3)
    return {"mode": "single" if single else "array", "x": x, "v": v, "y": y}


# (owner filter, template); IDS prints the ids of an array result, ONE the id of a single result
IDS = " | map: 'id' | json"
ARRAY_CHAINS: list[tuple[str, str]] = [
    ("map", "{{ x | map: 'id' | json }}"),
    ("map", "{{ x | map: i => i.title | json }}"),
    ("where", "{{ x | where: 'k', v" + IDS + " }}"),
    ("where", "{{ x | where: 'k'" + IDS + " }}"),
    ("where", "{{ x | where: i => i.k == v" + IDS + " }}"),
    ("reject", "{{ x | reject: 'k', v" + IDS + " }}"),
    ("reject", "{{ x | reject: i => i.k" + IDS + " }}"),
    ("find", "{% assign r = x | find: 'k', v %}{{ r.id | json }}"),
    ("find", "{% assign r = x | find: i => i.k == v %}{{ r.id | json }}"),
    ("find", "{{ x | find: 'k', v" + IDS + " }}"),
    ("find_index", "{{ x | find_index: 'k', v | json }}"),
    ("find_index", "{{ x | find_index: i => i.k == v | json }}"),
    ("has", "{{ x | has: 'k', v | json }}"),
    ("has", "{{ x | has: i => i.k == v | json }}"),
    ("sort", "{{ x | sort: 's'" + IDS + " }}"),
    ("sort", "{{ x | sort: i => i.s" + IDS + " }}"),
    ("sort_natural", "{{ x | sort_natural: 's'" + IDS + " }}"),
    ("sort_numeric", "{{ x | sort_numeric: 'id'" + IDS + " }}"),
    ("uniq", "{{ x | uniq: 's'" + IDS + " }}"),
    ("uniq", "{{ x | uniq: i => i.s" + IDS + " }}"),
    ("compact", "{{ x | compact: 'k'" + IDS + " }}"),
    ("compact", "{{ x | compact: i => i.k" + IDS + " }}"),
    ("sum", "{{ x | sum: 'n' | json }}"),
    ("sum", "{{ x | sum: i => i.n | json }}"),
    ("concat", "{{ x | concat: y" + IDS + " }}"),
    ("concat", "{{ x | concat: y | size }}"),
    ("reverse", "{{ x | reverse" + IDS + " }}"),
    ("join", "{{ x | map: 'title' | join: '#' | json }}"),
]
# these look at the container itself (not sequence filters): only for array shapes
CONTAINER_CHAINS: list[tuple[str, str]] = [
    ("first", "{% assign r = x | first %}{{ r.id | json }}"),
    ("last", "{% assign r = x | last %}{{ r.id | json }}"),
    ("size", "{{ x | size }}"),
    ("slice", "{{ x | slice: 1, 2" + IDS + " }}"),
]
RANGE_CHAINS: list[tuple[str, str]] = [
    ("sum", "{{ x | sum | json }}"), ("reverse", "{{ x | reverse | json }}"), ("uniq", "{{ x | uniq | size }}"),
    ("concat", "{{ x | concat: y | json }}"), ("sort", "{{ x | sort | json }}"), ("first", "{{ x | first | json }}"),
    ("last", "{{ x | last | json }}"), ("size", "{{ x | size }}"), ("join", "{{ x | join: ',' | json }}"),
    ("compact", "{{ x | compact | json }}"), ("where", "{{ x | where: i => i > 1 | json }}"),
    ("find_index", "{{ x | find_index: i => i == 2 | json }}"), ("map", "{{ x | map: i => i | json }}"),
    ("slice", "{{ x | slice: 1, 2 | json }}"),
]
ARRAY_SHAPES = ("tuple", "sequence-drop", "iterator", "mapping-drop-items", "tuple-of-mapping-drops",
                "sequence-drop-of-mapping-drops")
# a hash given directly: documented as a one-element sequence for sequence filters; first /
# last / size have their own documented meaning for a mapping ("The input could be array-like
# or a mapping"), which a Mapping drop must share with a dict
MAPPING_CHAINS: list[tuple[str, str]] = [
    ("first", "{{ x | first | json }}"), ("last", "{{ x | last | json }}"), ("size", "{{ x | size }}"),
]


def _render(R: Runner, owner: str, src: str, data: dict[str, Any], cls: str) -> Res:
    before = skey(data)
    res = R.eng.render(src, data)
    if res.ok:
        try:
            res = Res("ok", json.loads(res.value) if res.value.strip() != "" else None)
        except ValueError:
            res = Res("ok", res.value)
    if R.recording:
        R.ctx.count("template_applications")
    return R._guard(owner, res, before, data, cls, "template:" + src)


def _same(R: Runner, owner: str, law: str, got: Res, ref: Res, q: str, detail: dict[str, Any]) -> None:
    if got.kind == "foreign" or ref.kind == "foreign":
        return
    ok = got.kind == ref.kind and (not got.ok or skey(got.value) == skey(ref.value))
    if R.recording:
        R.ctx.count("sequence_comparisons" if law.endswith("earlier-applications") else "shape_comparisons")
    R.law(owner, law, ok, q, None if ok else dict(detail, got=got.brief(), reference=ref.brief()))


@unit("shapes", (), gen_shapes)
def case_shapes(R: Runner, inp: dict[str, Any]) -> None:
    mode, x = inp["mode"], inp["x"]
    if mode == "range":
        if not x or x != list(range(x[0], x[-1] + 1)):
            return
        for owner, src in RANGE_CHAINS:
            ref = _render(R, owner, src, {"x": list(x), "y": inp["y"]}, "list")
            for shape in ("range", "tuple", "sequence-drop", "iterator"):
                if shape == "iterator" and owner in ("first", "last", "size", "slice"):
                    continue  # not sequence filters: an iterator is not a sequence
                got = _render(R, owner, src, {"x": shaped(x, shape), "y": inp["y"]}, shape)
                _same(R, owner, "same-result-for-every-data-shape", got, ref, shape, {"template": src, "shape": shape})
                if R.recording:
                    R.ctx.seen("data_shapes", shape)
        return
    if not x or not all(isinstance(h, dict) for h in x):
        return
    v, y = inp["v"], inp["y"]
    if mode == "single":
        h = x[0]
        for owner, src in ARRAY_CHAINS:
            ref = _render(R, owner, src, {"x": [h], "v": v, "y": y}, "list")
            for shape in ("single-hash", "single-mapping-drop"):
                got = _render(R, owner, src, {"x": shaped([h], shape), "v": v, "y": y}, shape)
                _same(R, owner, "single-hash-is-a-one-element-sequence", got, ref, shape, {"template": src, "shape": shape})
                if R.recording:
                    R.ctx.seen("data_shapes", shape)
        for owner, src in MAPPING_CHAINS:
            ref = _render(R, owner, src, {"x": h}, "dict")
            got = _render(R, owner, src, {"x": shaped([h], "single-mapping-drop")}, "mapping-drop")
            _same(R, owner, "same-result-for-mapping-drop-and-dict", got, ref, "mapping-drop", {"template": src})
        return
    for owner, src in ARRAY_CHAINS + CONTAINER_CHAINS:
        ref = _render(R, owner, src, {"x": x, "v": v, "y": y}, "list")
        for shape in ARRAY_SHAPES:
            if shape == "iterator" and (owner, src) in CONTAINER_CHAINS:
                continue
            got = _render(R, owner, src, {"x": shaped(x, shape), "v": v, "y": shaped(y, "tuple") if shape == "tuple" else y}, shape)
            _same(R, owner, "same-result-for-every-data-shape", got, ref, shape, {"template": src, "shape": shape})
            if R.recording:
                R.ctx.seen("data_shapes", shape)


# ---------------------------------------------------------------------------
# sequences of applications in one render
# ---------------------------------------------------------------------------

SEP = "\x1f"
# later applications: they use the variables t (a value), k (a property name), x (the array)
LATER: list[tuple[str, str]] = [
    ("where", "{{ x | where: k, t" + IDS + " }}"),
    ("where", "{{ x | where: i => i.s == t" + IDS + " }}"),
    ("reject", "{{ x | reject: k, t" + IDS + " }}"),
    ("map", "{{ x | map: k | json }}"),
    ("map", "{{ x | map: i => i[k] | json }}"),
    ("sort", "{{ x | sort: k" + IDS + " }}"),
    ("uniq", "{{ x | uniq: k" + IDS + " }}"),
    ("find", "{% assign r = x | find: k, t %}{{ r.id | json }}"),
    ("has", "{{ x | has: k, t | json }}"),
    ("find_index", "{{ x | find_index: item => item.s == t | json }}"),
    ("sum", "{{ x | sum: 'id' | json }}"),
    ("compact", "{{ x | compact: k" + IDS + " }}"),
    ("concat", "{{ x | concat: x | size }}"),
    ("append", "{{ t | append: k | json }}"),
    ("size", "{{ x | size }}"),
]
# earlier applications (lambda forms), parameter names chosen to collide with t, k, x, i, item
PARAMS = ("t", "k", "x", "i", "item")
EARLIER = [
    "{{ x | has: P => P.s == first_s }}",          # matches on the first item (abandons the generator at once)
    "{{ x | has: P => P.s == last_s }}",           # matches late
    "{{ x | has: P => P.s == 'no such value' }}",  # never matches (generator exhausted)
    "{% assign r_ = x | find: P => P.s == first_s %}",
    "{% assign r_ = x | find: P => P.id == mid_id %}",
    "{{ x | find_index: P => P.s == last_s }}",
    "{{ x | find_index: (P, n) => n == 1 }}",
    "{% assign r_ = x | where: P => P.s == first_s %}",
    "{% assign r_ = x | map: P => P.id %}",
    "{% assign r_ = x | find: P => P.nosuch.deeper == first_s %}",
]


def gen_sequence(rng: random.Random, i: int) -> dict[str, Any]:
    x = _hashes(rng, 1, 6, strings_only=True)
    return {"mode": "sequence", "x": x, "tseed": rng.randrange(10**6), "repeat": rng.choice((1, 1, 2, 3, 40))}


@unit("sequence", (), gen_sequence)
def case_sequence(R: Runner, inp: dict[str, Any]) -> None:
    x = inp["x"]
    if not x or not all(isinstance(h, dict) and "s" in h and "id" in h for h in x):
        return
    rng = random.Random(inp["tseed"])
    data = {"x": x, "first_s": x[0]["s"], "last_s": x[-1]["s"], "mid_id": x[len(x) // 2]["id"]}
    pre = "{% assign t = first_s %}{% assign k = 's' %}"
    later = rng.sample(LATER, 4)
    # reference: each later application alone in a fresh render
    refs = [_render(R, owner, pre + src, data, "fresh") for owner, src in later]
    # the same applications in one render, preceded by and interleaved with earlier ones
    parts = [pre]
    used = []
    for owner, src in later:
        for _ in range(inp["repeat"] if len(used) == 0 else 1):
            e = rng.choice(EARLIER).replace("P", rng.choice(PARAMS))
            used.append(e)
            parts.append("{% capture junk_ %}" + e + "{% endcapture %}")
        parts.append(SEP + src)
    whole = "".join(parts)
    before = skey(data)
    res = R.eng.render(whole, data)
    R._guard("find", res, before, data, "sequence", "template:sequence")
    if R.recording:
        R.ctx.count("template_applications")
        R.ctx.count("application_sequences")
    if res.kind == "foreign":
        return
    if not res.ok:
        # the later applications all succeed alone; the sequence must not fail as a whole
        if all(r.ok for r in refs):
            R.law(later[0][0], "same-result-after-earlier-applications", False, "render-fails",
                  {"earlier": used[:6], "n_earlier": len(used), "got": res.brief()})
        return
    if inp["tseed"] % 2 == 0:
        inheritance_check(R, x)
    outs = res.value.split(SEP)[1:]
    for (owner, src), ref, out in zip(later, refs, outs):
        try:
            got = Res("ok", json.loads(out) if out.strip() != "" else None)
        except ValueError:
            got = Res("ok", out)
        if not ref.ok:
            continue
        _same(R, owner, "same-result-after-earlier-applications", got, ref, "",
              {"later": src, "earlier": used[:6], "n_earlier": len(used)})


# ---------------------------------------------------------------------------
# the same applications inside template inheritance
# ---------------------------------------------------------------------------
#
# A filter application means the same in an overriding {% block %} (also a nested block and
# the parent's block reached through block.super) as in a flat template: lambda bodies see the
# block-local variables (loop variable, assign, capture), also when the same filter names were
# already used by the base template or an earlier block.

BASE_PRELUDE = (
    "{% assign f_ = x | where: 'id' %}{% assign g_ = x | find: 'id', 1 %}{{ x | has: 'id' }}"
    "{{ x | map: 'id' | join: ',' }}{{ x | sort: 'id' | size }}{{ x | uniq: 'id' | size }}"
    "{{ x | find_index: 'id', 1 }}{{ x | reject: 'id' | size }}{{ x | compact: 'id' | size }}{{ x | sum: 'id' }}"
    "{{ x | where: q => q.id == 1 | size }}{{ x | has: q => q.id == 0 }}")
INH_OWNERS: list[str] = []


def _frag(owner: str, body: str) -> str:
    INH_OWNERS.append(owner)
    return SEP + body


F_BASE_BLOCK = "{% for t in tvs %}" + _frag("where", "{{ x | where: i => i.s == t | map: 'id' | json }}") + "{% endfor %}"
F_MAIN = ("{% assign k = 's' %}{% for t in tvs %}"
          + _frag("where", "{{ x | where: k, t | map: 'id' | json }}")
          + _frag("where", "{{ x | where: p => p.s == t | map: 'id' | json }}")
          + _frag("reject", "{{ x | reject: p => p.s == t | map: 'id' | json }}")
          + _frag("find", "{% assign r = x | find: p => p.s == t %}{{ r.id | json }}")
          + _frag("find_index", "{{ x | find_index: p => p.s == t | json }}")
          + _frag("has", "{{ x | has: p => p.s == t | json }}")
          + _frag("map", "{{ x | map: p => p[k] | json }}")
          + _frag("sort", "{{ x | sort: p => p[k] | map: 'id' | json }}")
          + _frag("uniq", "{{ x | uniq: p => p[k] | map: 'id' | json }}")
          + _frag("compact", "{{ x | compact: p => p[k] | map: 'id' | json }}")
          + _frag("sum", "{% assign kk = 'id' %}{{ x | sum: p => p[kk] | json }}")
          + "{% endfor %}")
F_INNER = ("{% capture c %}{{ last_s }}{% endcapture %}"
           + _frag("where", "{{ x | where: i => i.s == c | map: 'id' | json }}")
           + _frag("has", "{{ x | has: i => i.s == c | json }}")
           + _frag("find", "{% assign r = x | find: (i, n) => i.s == c %}{{ r.id | json }}"))
F_OTHER = ("{% assign t2 = first_s %}"
           + _frag("find_index", "{{ x | find_index: i => i.s == t2 | json }}")
           + _frag("where", "{{ x | where: i => i.s != t2 | map: 'id' | json }}"))
INH_TEMPLATES = {
    "base": BASE_PRELUDE + "|{% block main %}" + F_BASE_BLOCK + "{% endblock %}|{% block other %}{% endblock %}",
    "child": ("{% extends 'base' %}{% block main %}" + F_MAIN + "{% block inner %}" + F_INNER + "{% endblock %}"
              "[{{ block.super }}]{% endblock %}{% block other %}" + F_OTHER + "{% endblock %}"),
    "flat": BASE_PRELUDE + "|" + F_MAIN + F_INNER + "[" + F_BASE_BLOCK + "]|" + F_OTHER,
}


def inheritance_check(R: Runner, x: list[dict[str, Any]]) -> None:
    eng = R.eng
    env = getattr(eng, "_c19_inh_env", None)
    if env is None:
        from liquid2 import DictLoader
        from liquid2 import Environment

        env = Environment(loader=DictLoader(INH_TEMPLATES))
        eng._c19_inh_env = env  # type: ignore[attr-defined]
    data = {"x": x, "first_s": x[0]["s"], "last_s": x[-1]["s"], "tvs": [x[0]["s"], x[-1]["s"], "no such value"]}
    outs = []
    for name in ("flat", "child"):
        try:
            outs.append(Res("ok", env.get_template(name).render(**data)))
        except eng.LiquidError as e:
            outs.append(Res("err", None, type(e).__name__, str(e)[:200]))
        except Exception as e:  # noqa: BLE001
            outs.append(Res("foreign", None, type(e).__name__, str(e)[:200]))
    flat, child = outs
    if R.recording:
        R.ctx.count("inheritance_renders")
    R.law("where", "no-foreign-exception", child.kind != "foreign", child.exc + ":inherited-block", child.brief())
    if child.kind == "foreign" or not flat.ok:
        return
    if not child.ok:
        R.law("where", "same-result-inside-inherited-block", False, "render-fails", {"got": child.brief()})
        return
    a, b = flat.value.split(SEP), child.value.split(SEP)
    if len(a) != len(b):
        R.law("where", "same-result-inside-inherited-block", False, "different-structure", {"flat": flat.value[:300], "child": child.value[:300]})
        return
    bad = [(i, u, v) for i, (u, v) in enumerate(zip(a, b)) if u != v]
    # attribute to the filter named in the first differing segment
    owner = "where"
    if bad:
        owner = _owner_of_segment(a, bad[0][0])
    for f in sorted(set(INH_OWNERS)):
        ok = not (bad and owner == f)
        if R.recording:
            R.ctx.count("inheritance_comparisons")
        R.law(f, "same-result-inside-inherited-block", ok, "",
              None if ok else {"segment": bad[0][0], "flat": bad[0][1][:200], "in_block": bad[0][2][:200]})


def _segment_owners() -> list[str]:
    """Owner filter of every SEP-separated segment of the flat rendering, in order (loops over
    three values repeat their fragments)."""
    main = [o for o in INH_OWNERS[1:12]]
    inner = INH_OWNERS[12:15]
    base = [INH_OWNERS[0]]
    other = INH_OWNERS[15:17]
    return ["where"] + main * 3 + inner + base * 3 + other


def _owner_of_segment(_a: list[str], idx: int) -> str:
    owners = _segment_owners()
    return owners[idx] if 0 <= idx < len(owners) else "where"
