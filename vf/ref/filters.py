"""Independent definitions of filters with a crisp documented meaning.

Each function raises `OOD` when its arguments leave the domain in which
docs/filter_reference.md (or the compliance suite) pins the result.
"""

from __future__ import annotations

import html
from decimal import Decimal
from fractions import Fraction
from typing import Any
from typing import Callable


class OOD(Exception):
    pass


class Empty:
    def __repr__(self) -> str:
        return "empty"


class Blank:
    def __repr__(self) -> str:
        return "blank"


class LambdaFn:
    def __init__(self, fn: Callable[..., Any]):
        self.fn = fn

    def __call__(self, item: Any, index: int = 0) -> Any:
        return self.fn(item, index)


def _undef(v: Any) -> bool:
    return type(v).__name__ == "Undef"


def float_str(f: float) -> str:
    if f != f or f in (float("inf"), float("-inf")):
        raise OOD("non-finite float")
    if f != 0 and not (1e-4 <= abs(f) < 1e15):
        raise OOD("float magnitude outside plain-decimal range")
    return repr(f)


def s_(v: Any) -> str:
    """Liquid string form of a scalar (filters stringify non-string scalars)."""
    if v is None or _undef(v):
        return ""
    if v is True:
        return "true"
    if v is False:
        return "false"
    if isinstance(v, int):
        return str(v)
    if isinstance(v, float):
        return float_str(v)
    if isinstance(v, str):
        return v
    if isinstance(v, (list, tuple)):
        return "".join(s_(x) for x in v)
    raise OOD(f"stringify {type(v).__name__}")


def strarg(v: Any) -> str:
    if isinstance(v, (list, tuple, dict, range, LambdaFn)):
        raise OOD("non-scalar where a string is expected")
    return s_(v)


def is_num(v: Any) -> bool:
    return isinstance(v, (int, float)) and not isinstance(v, bool)


def num(v: Any) -> int | float:
    if is_num(v):
        if isinstance(v, float):
            float_str(v)
        return v
    raise OOD("non-number in arithmetic")


def arr(v: Any) -> list[Any]:
    if isinstance(v, (list, tuple)):
        if any(isinstance(x, (list, tuple)) for x in v):
            raise OOD("nested array input (flattening)")
        return list(v)
    if isinstance(v, range):
        if len(v) > 10000:
            raise OOD("huge range")
        return list(v)
    raise OOD("non-array input to array filter")


def _exact(op: str, a: Any, b: Any) -> Any:
    a, b = num(a), num(b)
    if isinstance(a, int) and isinstance(b, int):
        return {"+": a + b, "-": a - b, "*": a * b}[op]
    fa, fb = Fraction(Decimal(repr(a)) if isinstance(a, float) else a), Fraction(
        Decimal(repr(b)) if isinstance(b, float) else b)
    r = {"+": fa + fb, "-": fa - fb, "*": fa * fb}[op]
    f = float(r)
    if Fraction(Decimal(repr(f))) != r:
        raise OOD("result not exactly representable as a short decimal")
    if f == 0:
        raise OOD("sign of a float zero")
    return f


def plus(a: Any, b: Any) -> Any:
    return _exact("+", a, b)


def minus(a: Any, b: Any) -> Any:
    return _exact("-", a, b)


def times(a: Any, b: Any) -> Any:
    return _exact("*", a, b)


def divided_by(a: Any, b: Any) -> Any:
    a, b = num(a), num(b)
    if b == 0:
        raise OOD("division by zero")
    if isinstance(a, int) and isinstance(b, int):
        return a // b
    r = Fraction(Decimal(repr(a))) / Fraction(Decimal(repr(b)))
    f = float(r)
    if Fraction(Decimal(repr(f))) != r:
        raise OOD("inexact quotient")
    if f == 0:
        raise OOD("sign of a float zero")
    return f


def modulo(a: Any, b: Any) -> Any:
    a, b = num(a), num(b)
    if b == 0:
        raise OOD("modulo zero")
    if isinstance(a, int) and isinstance(b, int):
        return a % b
    raise OOD("float modulo")


def abs_(a: Any) -> Any:
    return abs(num(a))


def at_least(a: Any, b: Any) -> Any:
    a, b = num(a), num(b)
    if a == b and type(a) is not type(b):
        raise OOD("tie between int and float")
    return max(a, b)


def at_most(a: Any, b: Any) -> Any:
    a, b = num(a), num(b)
    if a == b and type(a) is not type(b):
        raise OOD("tie between int and float")
    return min(a, b)


def ceil(a: Any) -> Any:
    import math

    return math.ceil(num(a))


def floor(a: Any) -> Any:
    import math

    return math.floor(num(a))


def round_(a: Any, digits: Any = None) -> Any:
    a = num(a)
    if digits is not None:
        raise OOD("round with digits")
    if isinstance(a, float) and abs(a * 2 - round(a * 2)) < 1e-12 and (a * 2) % 2 != 0:
        raise OOD("half-way rounding")
    return round(a)


def upcase(v: Any) -> str:
    return strarg(v).upper()


def downcase(v: Any) -> str:
    return strarg(v).lower()


def capitalize(v: Any) -> str:
    s = strarg(v)
    if not s.isascii():
        raise OOD("capitalize non-ascii")
    return s[:1].upper() + s[1:].lower()


def append(v: Any, a: Any) -> str:
    return strarg(v) + strarg(a)


def prepend(v: Any, a: Any) -> str:
    return strarg(a) + strarg(v)


def strip(v: Any) -> str:
    return strarg(v).strip()


def lstrip(v: Any) -> str:
    return strarg(v).lstrip()


def rstrip(v: Any) -> str:
    return strarg(v).rstrip()


def size(v: Any) -> int:
    if isinstance(v, (str, list, tuple, dict, range)):
        return len(v)
    raise OOD("size of scalar")


def replace(v: Any, a: Any, b: Any = "") -> str:
    a = strarg(a)
    if a == "":
        raise OOD("replace empty string")
    return strarg(v).replace(a, strarg(b))


def replace_first(v: Any, a: Any, b: Any = "") -> str:
    a = strarg(a)
    if a == "":
        raise OOD("replace empty string")
    return strarg(v).replace(a, strarg(b), 1)


def replace_last(v: Any, a: Any, b: Any) -> str:
    s, a, b = strarg(v), strarg(a), strarg(b)
    if a == "":
        raise OOD("replace empty string")
    i = s.rfind(a)
    return s if i < 0 else s[:i] + b + s[i + len(a) :]


def remove(v: Any, a: Any) -> str:
    return replace(v, a, "")


def remove_first(v: Any, a: Any) -> str:
    return replace_first(v, a, "")


def remove_last(v: Any, a: Any) -> str:
    return replace_last(v, a, "")


def split(v: Any, sep: Any) -> list[str]:
    s, sep = strarg(v), strarg(sep)
    if sep == "":
        return list(s)
    if s == "" or s == sep:
        return []
    parts = s.split(sep)
    if parts and parts[-1] == "":
        raise OOD("trailing separator")
    return parts


def join(v: Any, sep: Any = " ") -> str:
    items = arr(v)
    return strarg(sep).join(s_(x) for x in items)


def first(v: Any) -> Any:
    if isinstance(v, (list, tuple, range)):
        return v[0] if len(v) else None
    raise OOD("first of non-array")


def last(v: Any) -> Any:
    if isinstance(v, (list, tuple, range)):
        return v[-1] if len(v) else None
    raise OOD("last of non-array")


def _int(v: Any) -> int:
    if isinstance(v, bool) or not isinstance(v, int):
        raise OOD("non-integer argument")
    return v


def slice_(v: Any, start: Any, length: Any = 1) -> Any:
    start, length = _int(start), _int(length)
    if length < 0:
        raise OOD("negative slice length")
    if isinstance(v, str):
        seq: Any = v
    elif isinstance(v, (list, tuple)):
        seq = list(v)
    else:
        raise OOD("slice of scalar")
    n = len(seq)
    if start < 0:
        if -start > n:
            raise OOD("slice start before beginning")
        start = n + start
    return seq[start : start + length]


def truncate(v: Any, n: Any = 50, end: Any = "...") -> str:
    s, n, end = strarg(v), _int(n), strarg(end)
    if n < 0:
        raise OOD("negative truncate")
    if len(s) == n:
        raise OOD("truncate to exactly the input length (doc sentence is garbled, CTS silent)")
    if len(s) < n:
        return s
    if len(end) >= n:
        raise OOD("ellipsis longer than limit")
    return s[: n - len(end)] + end


def truncatewords(v: Any, n: Any = 15, end: Any = "...") -> str:
    s, n, end = strarg(v), _int(n), strarg(end)
    if n < 1:
        raise OOD("truncatewords < 1")
    if any(c.isspace() and c != " " for c in s) or "  " in s or s != s.strip():
        raise OOD("non-simple whitespace")
    words = s.split(" ")
    if len(words) == n:
        raise OOD("exactly n words (docs say 'fewer than'; CTS silent)")
    if len(words) < n:
        return s
    return " ".join(words[:n]) + end


def escape(v: Any) -> str:
    return html.escape(strarg(v))


def default(v: Any, d: Any = "", allow_false: Any = False) -> Any:
    if isinstance(allow_false, bool) is False:
        raise OOD("allow_false non-bool")
    if v is False:
        return v if allow_false else d
    if v is None or _undef(v):
        return d
    if isinstance(v, (str, list, tuple, dict)) and len(v) == 0:
        return d
    if isinstance(v, range):
        raise OOD("default on range")
    return v


def concat(v: Any, other: Any) -> list[Any]:
    if not isinstance(other, (list, tuple)):
        raise OOD("concat non-array argument")
    return arr(v) + list(other)


def reverse(v: Any) -> list[Any]:
    return list(reversed(arr(v)))


def _homog(items: list[Any]) -> str:
    if all(is_num(x) for x in items):
        return "num"
    if all(isinstance(x, str) for x in items):
        return "str"
    raise OOD("sort of mixed / non-scalar items")


def sort(v: Any, key: Any = None) -> list[Any]:
    if key is not None:
        raise OOD("sort with key")
    items = arr(v)
    _homog(items)
    if len({repr(x) for x in items}) != len(items) and any(isinstance(x, float) for x in items):
        raise OOD("ties between ints and floats")
    return sorted(items)


def sort_natural(v: Any, key: Any = None) -> list[Any]:
    if key is not None:
        raise OOD("sort_natural with key")
    items = arr(v)
    if _homog(items) != "str":
        raise OOD("sort_natural of non-strings")
    if len({x.lower() for x in items}) != len(items):
        raise OOD("case-insensitive ties")
    return sorted(items, key=str.lower)


def uniq(v: Any, key: Any = None) -> list[Any]:
    if key is not None:
        raise OOD("uniq with key")
    items = arr(v)
    out: list[Any] = []
    for x in items:
        if isinstance(x, (bool, float)) or x is None or isinstance(x, dict):
            raise OOD("uniq on bool/float/nil/hash")
        if not any(type(y) is type(x) and y == x for y in out):
            out.append(x)
    return out


def compact(v: Any, key: Any = None) -> list[Any]:
    items = arr(v)
    if key is None:
        return [x for x in items if x is not None and not _undef(x)]
    k = strarg(key)
    out = []
    for x in items:
        if not isinstance(x, dict):
            raise OOD("compact key on non-hash")
        if k not in x:
            raise OOD("compact: item lacks the key")
        if x[k] is not None:
            out.append(x)
    return out


def _prop(x: Any, k: str) -> Any:
    if isinstance(x, dict):
        return x.get(k, None)
    raise OOD("property of non-hash item")


def map_(v: Any, key: Any) -> list[Any]:
    items = arr(v)
    if isinstance(key, LambdaFn):
        return [_clean(key(x, i)) for i, x in enumerate(items)]
    k = strarg(key)
    for x in items:
        if not isinstance(x, dict) or k not in x:
            raise OOD("map: item lacks the key")
    return [x[k] for x in items]


def _clean(v: Any) -> Any:
    return None if _undef(v) else v


def _truthy(v: Any) -> bool:
    return not (v is None or v is False or _undef(v))


def _pred(key: Any, val: Any, has_val: bool) -> Callable[[Any, int], bool]:
    if isinstance(key, LambdaFn):
        if has_val:
            raise OOD("lambda with value")
        return lambda x, i: _truthy(key(x, i))
    k = strarg(key)

    def p(x: Any, i: int) -> bool:
        if not isinstance(x, dict):
            raise OOD("filtering non-hash items by key")
        pv = x.get(k, None)
        if has_val:
            return _eq_simple(pv, val)
        if is_num(pv) and pv == 0:
            raise OOD("truthiness of 0 by string key (known divergence, decided by C19)")
        return _truthy(pv)

    return p


def _eq_simple(a: Any, b: Any) -> bool:
    for x in (a, b):
        if isinstance(x, (bool, float, list, tuple, dict)) or _undef(x):
            raise OOD("equality on bool/float/compound in where/find")
    if a is None or b is None:
        raise OOD("equality with nil in where/find")
    if type(a) is not type(b):
        return False
    return a == b


def where(v: Any, key: Any, val: Any = None, *rest: Any) -> list[Any]:
    has_val = val is not None
    p = _pred(key, val, has_val)
    return [x for i, x in enumerate(arr(v)) if p(x, i)]


def reject(v: Any, key: Any, val: Any = None) -> list[Any]:
    has_val = val is not None
    p = _pred(key, val, has_val)
    return [x for i, x in enumerate(arr(v)) if not p(x, i)]


def find(v: Any, key: Any, val: Any = None) -> Any:
    has_val = val is not None
    p = _pred(key, val, has_val)
    for i, x in enumerate(arr(v)):
        if p(x, i):
            return x
    return None


def find_index(v: Any, key: Any, val: Any = None) -> Any:
    has_val = val is not None
    p = _pred(key, val, has_val)
    for i, x in enumerate(arr(v)):
        if p(x, i):
            return i
    return None


def has(v: Any, key: Any, val: Any = None) -> bool:
    has_val = val is not None
    p = _pred(key, val, has_val)
    return any(p(x, i) for i, x in enumerate(arr(v)))


def sum_(v: Any, key: Any = None) -> Any:
    items = arr(v)
    if isinstance(key, LambdaFn):
        items = [key(x, i) for i, x in enumerate(items)]
    elif key is not None:
        k = strarg(key)
        items = [_prop(x, k) for x in items]
    if not all(isinstance(x, int) and not isinstance(x, bool) for x in items):
        raise OOD("sum of non-integers")
    return sum(items)


FILTERS: dict[str, Callable[..., Any]] = {
    "plus": plus, "minus": minus, "times": times, "divided_by": divided_by, "modulo": modulo,
    "abs": abs_, "at_least": at_least, "at_most": at_most, "ceil": ceil, "floor": floor,
    "round": round_, "upcase": upcase, "downcase": downcase, "capitalize": capitalize,
    "append": append, "prepend": prepend, "strip": strip, "lstrip": lstrip, "rstrip": rstrip,
    "size": size, "replace": replace, "replace_first": replace_first, "replace_last": replace_last,
    "remove": remove, "remove_first": remove_first, "remove_last": remove_last, "split": split,
    "join": join, "first": first, "last": last, "slice": slice_, "truncate": truncate,
    "truncatewords": truncatewords, "escape": escape, "default": default, "concat": concat,
    "reverse": reverse, "sort": sort, "sort_natural": sort_natural, "uniq": uniq,
    "compact": compact, "map": map_, "where": where, "reject": reject, "find": find,
    "find_index": find_index, "has": has, "sum": sum_,
}
