"""Reference interpreter over gen.model — the documented Liquid semantics.

Never parses Liquid text.  Raises `OutOfDomain` for anything whose meaning the
documentation / compliance suite does not pin down (see DESIGN.md appendix A); such
cases are skipped by the caller, never reported.
"""

from __future__ import annotations

from typing import Any

from ..gen import model as M
from . import filters as F


class OutOfDomain(Exception):
    pass


class RefError(Exception):
    """The documented semantics prescribe an error (class name in args[0])."""


class _Break(Exception):
    pass


class _Continue(Exception):
    pass


class Undef:
    def __repr__(self) -> str:
        return "UNDEF"


UNDEF = Undef()


class ForLoopObj:
    __slots__ = ("name", "length", "index0", "parent")

    def __init__(self, name: str, length: int, parent: Any):
        self.name = name
        self.length = length
        self.index0 = -1
        self.parent = parent

    def get(self, key: str) -> Any:
        i = self.index0
        if key == "name":
            return self.name
        if key == "length":
            return self.length
        if key == "index":
            return i + 1
        if key == "index0":
            return i
        if key == "rindex":
            return self.length - i
        if key == "rindex0":
            return self.length - i - 1
        if key == "first":
            return i == 0
        if key == "last":
            return i == self.length - 1
        if key == "parentloop":
            return self.parent
        return UNDEF


def is_truthy(v: Any) -> bool:
    return not (v is None or v is False or v is UNDEF)


def to_str(v: Any) -> str:
    if v is None or v is UNDEF:
        return ""
    if v is True:
        return "true"
    if v is False:
        return "false"
    if isinstance(v, int):
        return str(v)
    if isinstance(v, float):
        try:
            return F.float_str(v)
        except F.OOD as e:
            raise OutOfDomain(str(e)) from None
    if isinstance(v, str):
        return v
    if isinstance(v, (list, tuple)):
        return "".join(to_str(x) for x in v)
    if isinstance(v, range):
        return f"{v.start}..{v.stop - 1}"
    if isinstance(v, (F.Empty, F.Blank)):
        return ""
    raise OutOfDomain(f"string form of {type(v).__name__}")


def _is_num(v: Any) -> bool:
    return isinstance(v, (int, float)) and not isinstance(v, bool)


def eq(a: Any, b: Any) -> bool:
    if a is UNDEF:
        a = None
    if b is UNDEF:
        b = None
    if isinstance(a, F.Empty) or isinstance(b, F.Empty):
        o = b if isinstance(a, F.Empty) else a
        if isinstance(o, F.Empty):
            return True
        return isinstance(o, (str, list, dict, tuple)) and len(o) == 0
    if isinstance(a, F.Blank) or isinstance(b, F.Blank):
        o = b if isinstance(a, F.Blank) else a
        if isinstance(o, F.Blank):
            return True
        if isinstance(o, str):
            return o.strip() == "" if not o or o.isspace() else False
        return isinstance(o, (list, dict, tuple)) and len(o) == 0
    if isinstance(a, bool) or isinstance(b, bool):
        return isinstance(a, bool) and isinstance(b, bool) and a == b
    if _is_num(a) and _is_num(b):
        return a == b
    if isinstance(a, str) and isinstance(b, str):
        return a == b
    if a is None or b is None:
        return a is None and b is None
    if isinstance(a, (list, tuple)) and isinstance(b, (list, tuple)):
        return len(a) == len(b) and all(eq(x, y) for x, y in zip(a, b))
    if isinstance(a, range) or isinstance(b, range):
        if isinstance(a, range) and isinstance(b, range):
            return a == b
        raise OutOfDomain("range equality with non-range")
    if isinstance(a, dict) and isinstance(b, dict):
        return a.keys() == b.keys() and all(eq(a[k], b[k]) for k in a)
    return False


def lt(a: Any, b: Any) -> bool:
    if _is_num(a) and _is_num(b):
        return a < b
    if isinstance(a, str) and isinstance(b, str):
        return a < b
    raise OutOfDomain("ordering of mixed / non-scalar types")


class Scope:
    """Lookup order: block scopes (innermost first), locals, globals, counters."""

    def __init__(self, globals_: dict[str, Any], extra_globals: list[dict[str, Any]] | None = None):
        self.blocks: list[dict[str, Any]] = []
        self.locals: dict[str, Any] = {}
        self.globals_chain: list[dict[str, Any]] = list(extra_globals or []) + [globals_]
        self.counters: dict[str, int] = {}

    def lookup(self, name: str) -> Any:
        for b in reversed(self.blocks):
            if name in b:
                return b[name]
        if name in self.locals:
            return self.locals[name]
        for g in self.globals_chain:
            if name in g:
                return g[name]
        if name in ("now", "today"):
            raise OutOfDomain("clock built-ins")
        if name in self.counters:
            return self.counters[name]
        return UNDEF


class Interp:
    def __init__(self, prog: M.Program, *, default_trim: str = "+", suppress: bool = True):
        self.prog = prog
        self.default_trim = default_trim
        self.suppress = suppress

    # ---------------------------------------------------------------- entry
    def run(self, data: dict[str, Any]) -> str:
        self.scope = Scope(data)
        self.root_globals = data
        self.loops: list[ForLoopObj] = []
        self.cycles: dict[Any, int] = {}
        self.stopindex: dict[Any, int] = {}
        self.macros: dict[str, M.Macro] = {}
        self.in_isolated = 0
        self.loop_depth_base = 0
        out: list[str] = []
        try:
            self.block(self.prog.body, out, root=True)
        except (_Break, _Continue):
            raise RefError("LiquidSyntaxError") from None
        return "".join(out)

    # ---------------------------------------------------------------- text
    def trim(self, t: M.Text) -> str:
        l, r = t.eff
        l = self.default_trim if l in ("default", "") else l
        r = self.default_trim if r in ("default", "") else r
        s = t.s
        if l == "-":
            s = s.lstrip()
        elif l == "~":
            s = s.lstrip("\r\n")
        if r == "-":
            s = s.rstrip()
        elif r == "~":
            s = s.rstrip("\r\n")
        return s

    # ------------------------------------------------------- blankness rule
    def is_blank_block(self, body: list[Any]) -> bool:
        for s in body:
            n = type(s).__name__
            if n == "Text":
                if s.s and not s.s.isspace():
                    return False
            elif n in ("Comment", "Assign", "Break", "Continue", "Macro"):
                continue
            elif n == "Capture":
                continue
            elif n in ("If", "Case", "For", "With", "LiquidTag"):
                if not all(self.is_blank_block(b) for b in M.child_blocks(s)):
                    return False
            elif n == "Raw":
                if not s.text.strip():
                    # is whitespace-only raw text "content"? the docs do not say
                    raise OutOfDomain("whitespace-only raw text in a control-flow block")
                return False
            else:
                return False  # Out, Incr, Decr, Cycle, Call, Partial
        return True

    def has_state(self, body: list[Any], seen: frozenset = frozenset()) -> bool:
        for st in M.walk(body):
            n = type(st).__name__
            if n in ("Assign", "Capture", "Incr", "Decr", "Cycle", "Macro"):
                return True
            if n == "For" and st.offset == "continue":
                return True
            if n == "For" and st.limit is not None:
                return True  # records a stop index
            if n == "For":
                return True
            if n == "Partial" and st.name not in seen:
                if self.has_state(self.prog.partials[st.name], seen | {st.name}):
                    return True
        return False

    @staticmethod
    def has_ws_text(body: list[Any]) -> bool:
        return any(type(s).__name__ == "Text" and s.s for s in M.walk(body))

    def cf_block(self, body: list[Any], out: list[str]) -> None:
        """A block of a control-flow tag (if/unless/case/for)."""
        if self.suppress and self.is_blank_block(body):
            sink: list[str] = []
            self.block(body, sink)
            return
        self.block(body, out)

    def plain_block(self, body: list[Any], out: list[str]) -> None:
        """Body of capture / with / macro / liquid: blank-suppression there is
        undocumented, so a blank body containing text is out of domain."""
        if self.suppress and self.is_blank_block(body) and self.has_ws_text(body):
            raise OutOfDomain("blank non-control-flow block with whitespace text")
        self.block(body, out)

    # ---------------------------------------------------------------- statements
    def block(self, body: list[Any], out: list[str], root: bool = False) -> None:
        for s in body:
            self.stmt(s, out)

    def stmt(self, s: Any, out: list[str]) -> None:  # noqa: PLR0912, PLR0915
        n = type(s).__name__
        sc = self.scope
        if n == "Text":
            out.append(self.trim(s))
        elif n == "Out":
            out.append(to_str(self.expr(s.e)))
        elif n == "Assign":
            sc.locals[s.name] = self.expr(s.e)
        elif n == "Capture":
            buf: list[str] = []
            self.plain_block(s.body, buf)
            sc.locals[s.name] = "".join(buf)
        elif n == "If":
            for i, (c, b) in enumerate(s.branches):
                v = is_truthy(self.cond(c))
                if i == 0 and s.unless:
                    v = not v
                if v:
                    self.cf_block(b, out)
                    return
            if s.orelse is not None:
                self.cf_block(s.orelse, out)
        elif n == "Case":
            matched = False
            for vals, b in s.whens:
                subject = self.expr(s.subject)
                if any(eq(subject, self.expr(v)) for v in vals):
                    matched = True
                    self.cf_block(b, out)
            if not matched and s.orelse is not None:
                self.cf_block(s.orelse, out)
        elif n == "For":
            self.for_(s, out)
        elif n == "Break":
            raise _Break()
        elif n == "Continue":
            raise _Continue()
        elif n == "Incr":
            v = sc.counters.get(s.name, 0)
            sc.counters[s.name] = v + 1
            out.append(str(v))
        elif n == "Decr":
            v = sc.counters.get(s.name, 0) - 1
            sc.counters[s.name] = v
            out.append(str(v))
        elif n == "Cycle":
            key = (s.group, tuple(repr(i) for i in s.items))
            i = self.cycles.get(key, 0)
            self.cycles[key] = i + 1
            out.append(to_str(self.expr(s.items[i % len(s.items)])))
        elif n == "Raw":
            t = s.text
            l, r = getattr(s, "inner", ("", ""))
            l = self.default_trim if l == "" else l
            r = self.default_trim if r == "" else r
            if l == "-":
                t = t.lstrip()
            elif l == "~":
                t = t.lstrip("\r\n")
            if r == "-":
                t = t.rstrip()
            elif r == "~":
                t = t.rstrip("\r\n")
            out.append(t)
        elif n == "Comment":
            pass
        elif n == "With":
            ns = {k: self.expr(v) for k, v in s.binds}
            sc.blocks.append(ns)
            try:
                self.plain_block(s.body, out)
            finally:
                sc.blocks.pop()
        elif n == "Macro":
            self.macros[s.name] = s
        elif n == "Call":
            self.call(s, out)
        elif n == "Partial":
            self.partial(s, out)
        elif n == "LiquidTag":
            self.plain_block(s.body, out)
        else:
            raise OutOfDomain(f"statement {n}")

    # ---------------------------------------------------------------- for
    def iterable(self, v: Any) -> list[Any]:
        if isinstance(v, (list, tuple)):
            return list(v)
        if isinstance(v, range):
            if len(v) > 100000:
                raise OutOfDomain("huge range")
            return list(v)
        if isinstance(v, dict):
            return [[k, x] for k, x in v.items()]
        if v is UNDEF:
            return []  # a missing variable behaves as nil/empty
        if v is None:
            raise OutOfDomain("loop over nil")
        raise OutOfDomain(f"loop over {type(v).__name__}")

    def int_arg(self, e: Any) -> int:
        v = self.expr(e)
        if isinstance(v, bool) or not isinstance(v, int):
            raise OutOfDomain("non-integer limit/offset")
        if v < 0:
            raise OutOfDomain("negative limit/offset")
        return v

    def for_(self, s: M.For, out: list[str]) -> None:
        itv = self.expr(s.it)
        items = self.iterable(itv)
        key = (s.var, repr(s.it))
        length = len(items)
        limit = self.int_arg(s.limit) if s.limit is not None else None
        if s.limit is None and s.offset is None:
            self.stopindex[key] = length
            sel = items
        else:
            if s.offset == "continue":
                off = self.stopindex.get(key, 0)
            elif s.offset is not None:
                off = self.int_arg(s.offset)
            else:
                off = 0
            n = max(length - off, 0)
            if limit is not None:
                n = min(n, limit)
            self.stopindex[key] = off + n
            sel = items[off : off + n]
        if s.reversed:
            sel = list(reversed(sel))
        if not sel:
            if s.orelse is not None:
                self.cf_block(s.orelse, out)
            return
        parent = self.loops[-1] if self.loops else UNDEF
        fl = ForLoopObj(f"{s.var}-{self.iter_text(s.it)}", len(sel), parent)
        ns: dict[str, Any] = {"forloop": fl, s.var: None}
        self.scope.blocks.append(ns)
        self.loops.append(fl)
        try:
            for item in sel:
                fl.index0 += 1
                ns[s.var] = item
                try:
                    self.cf_block(s.body, out)
                except _Continue:
                    continue
                except _Break:
                    break
        finally:
            self.loops.pop()
            self.scope.blocks.pop()

    def iter_text(self, it: Any) -> Any:
        if isinstance(it, M.Rng):
            def p(x: Any) -> str:
                return str(x.value) if isinstance(x, M.Lit) else self.var_text(x)
            return f"({p(it.start)}..{p(it.stop)})"
        if isinstance(it, M.Var):
            return self.var_text(it)
        return _NameUnknown()

    @staticmethod
    def var_text(v: M.Var) -> Any:
        if v.segs:
            return _NameUnknown()
        return v.root

    # ---------------------------------------------------------------- macro / partial
    def isolated(self, ns: dict[str, Any], body: list[Any], out: list[str], forloop_ok: bool = False) -> None:
        """Run body in a fresh scope that sees only globals + ns."""
        saved = (self.scope, self.loops, self.cycles, self.stopindex, self.macros)
        # only global data and the arguments passed: not the arguments of an enclosing
        # render / call
        self.scope = Scope({}, [ns, self.root_globals])
        self.loops = []
        self.cycles = {}
        self.stopindex = {}
        self.macros = {}
        self.in_isolated += 1
        try:
            try:
                self.block(body, out)
            except (_Break, _Continue):
                raise RefError("LiquidSyntaxError") from None
        finally:
            self.in_isolated -= 1
            self.scope, self.loops, self.cycles, self.stopindex, self.macros = saved

    def call(self, s: M.Call, out: list[str]) -> None:
        m = self.macros.get(s.name)
        if m is None:
            return  # calling an undefined macro renders nothing (default undefined)
        names = [p for p, _ in m.params]
        bound: dict[str, Any] = {}
        defaults = dict(m.params)
        exprs: dict[str, Any] = {p: d for p, d in m.params}
        excess_args = []
        for i, a in enumerate(s.args):
            if i < len(names):
                exprs[names[i]] = a
            else:
                excess_args.append(a)
        excess_kw = {}
        for k, v in s.kwargs:
            if k in defaults:
                exprs[k] = v
            else:
                excess_kw[k] = v
        ns: dict[str, Any] = {
            "args": [self.expr(a) for a in excess_args],
            "kwargs": {k: self.expr(v) for k, v in excess_kw.items()},
        }
        for p in names:
            e = exprs[p]
            bound[p] = UNDEF if e is None else self.expr(e)
        ns.update(bound)
        body = m.body
        if self.suppress and self.is_blank_block(body) and self.has_ws_text(body):
            raise OutOfDomain("blank macro body")
        self.isolated(ns, body, out)

    def partial(self, s: M.Partial, out: list[str]) -> None:
        body = self.prog.partials[s.name]
        kw = {k: self.expr(v) for k, v in s.kwargs}
        key = s.alias or s.name.split(".")[0]
        if s.tag == "include":
            if self.in_isolated:
                raise RefError("DisabledTagError")
            ns = dict(kw)
            # the bound value is an argument like the keyword arguments: all of them are
            # evaluated in the enclosing scope, none sees another (repo fix cc1f1fa)
            v = self.expr(s.arg) if s.mode in ("for", "with") else None
            self.scope.blocks.append(ns)
            try:
                if s.mode == "for":
                    if not isinstance(v, (list, tuple)):
                        raise OutOfDomain("include for non-array")
                    for item in v:
                        ns[key] = item
                        self.scope.blocks.append({})
                        try:
                            self.block(body, out)
                        finally:
                            self.scope.blocks.pop()
                elif s.mode == "with":
                    if isinstance(v, (list, tuple)):
                        raise OutOfDomain("include with array")
                    ns[key] = v
                    self.block(body, out)
                else:
                    self.block(body, out)
            finally:
                self.scope.blocks.pop()
            return
        # render: isolated
        ns = dict(kw)
        if s.mode == "for":
            v = self.expr(s.arg)
            if not isinstance(v, (list, tuple)):
                raise OutOfDomain("render for non-array")
            n = len(v)
            for i, item in enumerate(v):
                fl = ForLoopObj(key, n, UNDEF)
                fl.index0 = i
                ns2 = dict(ns)
                ns2["forloop"] = fl
                ns2[key] = item
                self.isolated(ns2, body, out)
        elif s.mode == "with":
            ns[key] = self.expr(s.arg)
            self.isolated(ns, body, out)
        else:
            self.isolated(ns, body, out)

    # ---------------------------------------------------------------- expressions
    def get_seg(self, obj: Any, seg: Any) -> Any:
        if isinstance(obj, ForLoopObj):
            return obj.get(seg) if isinstance(seg, str) else UNDEF
        if obj is UNDEF or obj is None:
            return UNDEF
        if isinstance(seg, bool):
            raise OutOfDomain("boolean segment")
        if isinstance(obj, dict):
            if isinstance(seg, str):
                if seg in obj:
                    return obj[seg]
                if seg == "size":
                    return len(obj)
                if seg == "first":
                    if obj:
                        raise OutOfDomain("first of hash")
                    return UNDEF
                return UNDEF
            raise OutOfDomain("non-string key into hash")
        if isinstance(obj, (list, tuple)):
            if isinstance(seg, int):
                if -len(obj) <= seg < len(obj):
                    return obj[seg]
                return UNDEF
            if seg == "size":
                return len(obj)
            if seg == "first":
                return obj[0] if obj else UNDEF
            if seg == "last":
                return obj[-1] if obj else UNDEF
            if isinstance(seg, str):
                return UNDEF
            raise OutOfDomain("odd segment type into array")
        if isinstance(obj, str):
            raise OutOfDomain("path segment on a string")
        if isinstance(obj, range):
            raise OutOfDomain("path segment on a range")
        if isinstance(seg, (str, int)):
            return UNDEF  # scalars have no properties
        raise OutOfDomain("segment on scalar")

    def var(self, v: M.Var) -> Any:
        obj = self.scope.lookup(v.root)
        for seg in v.segs:
            if isinstance(seg, M.Var):
                seg = self.var(seg)
                if seg is UNDEF or seg is None:
                    raise OutOfDomain("undefined nested segment")
                if isinstance(seg, float):
                    raise OutOfDomain("float segment")
                if not isinstance(seg, (str, int)):
                    raise OutOfDomain("non-scalar segment")
            obj = self.get_seg(obj, seg)
        return obj

    def expr(self, e: Any) -> Any:
        if isinstance(e, M.Lit):
            return e.value
        if isinstance(e, M.Var):
            return self.var(e)
        if isinstance(e, M.Rng):
            a, b = self.expr(e.start), self.expr(e.stop)
            for x in (a, b):
                if isinstance(x, bool) or not isinstance(x, int):
                    raise OutOfDomain("non-integer range operand")
            return range(a, b + 1) if a <= b else range(0)
        if isinstance(e, M.Arr):
            return [self.expr(i) for i in e.items]
        if isinstance(e, M.TStr):
            return "".join(p if isinstance(p, str) else to_str(self.expr(p)) for p in e.parts)
        if isinstance(e, M.Filt):
            v = self.expr(e.left)
            for f in e.filters:
                v = self.apply(f, v)
            return v
        if isinstance(e, M.Tern):
            if is_truthy(self.cond(e.cond)):
                v = self.expr(e.then)
            elif e.orelse is not None:
                v = self.expr(e.orelse)
            else:
                v = None
            for f in e.tail:
                v = self.apply(f, v)
            return v
        if isinstance(e, M.Lam):
            return e
        if isinstance(e, M.Kw):
            return F.Empty() if e.name == "empty" else F.Blank()
        raise OutOfDomain(f"expression {type(e).__name__}")

    def apply(self, f: M.FCall, left: Any) -> Any:
        args = []
        for a in f.args:
            if isinstance(a, M.Lam):
                args.append(self.lam(a))
            else:
                args.append(self.expr(a))
        kwargs = {k: self.expr(v) for k, v in f.kwargs}
        fn = F.FILTERS.get(f.name)
        if fn is None:
            raise OutOfDomain(f"filter {f.name} has no reference definition")
        try:
            return fn(left, *args, **kwargs)
        except F.OOD as err:
            raise OutOfDomain(f"{f.name}: {err}") from None

    def lam(self, lam: M.Lam) -> Any:
        def call(item: Any, index: int = 0) -> Any:
            ns = {lam.params[0]: item}
            if len(lam.params) > 1:
                ns[lam.params[1]] = index
            self.scope.blocks.append(ns)
            try:
                if isinstance(lam.body, (M.Truthy, M.Not, M.And, M.Or, M.Cmp, M.Contains, M.In)):
                    return self.cond(lam.body)
                return self.expr(lam.body)
            finally:
                self.scope.blocks.pop()

        return F.LambdaFn(call)

    # ---------------------------------------------------------------- conditions
    def cond(self, c: Any) -> Any:
        if isinstance(c, M.Truthy):
            return self.expr(c.e)
        if isinstance(c, M.Not):
            return not is_truthy(self.cond(c.c))
        if isinstance(c, M.And):
            return is_truthy(self.cond(c.a)) and is_truthy(self.cond(c.b))
        if isinstance(c, M.Or):
            return is_truthy(self.cond(c.a)) or is_truthy(self.cond(c.b))
        if isinstance(c, M.Cmp):
            a, b = self.expr(c.l), self.expr(c.r)
            if c.op == "==":
                return eq(a, b)
            if c.op in ("!=", "<>"):
                return not eq(a, b)
            if isinstance(a, bool) or isinstance(b, bool):
                raise OutOfDomain("ordering with boolean")
            if a is UNDEF or b is UNDEF or a is None or b is None:
                raise OutOfDomain("ordering with nil")
            if c.op == "<":
                return lt(a, b)
            if c.op == ">":
                return lt(b, a)
            if c.op == "<=":
                return eq(a, b) or lt(a, b)
            if c.op == ">=":
                return eq(a, b) or lt(b, a)
            raise OutOfDomain(c.op)
        if isinstance(c, (M.Contains, M.In)):
            hay, needle = (self.expr(c.l), self.expr(c.r)) if isinstance(c, M.Contains) else (
                self.expr(c.r), self.expr(c.l))
            if isinstance(hay, str):
                if isinstance(needle, (str, int)) and not isinstance(needle, bool):
                    return to_str(needle) in hay
                raise OutOfDomain("contains with odd needle")
            if isinstance(hay, (list, tuple)):
                if any(isinstance(x, bool) for x in hay) or isinstance(needle, bool):
                    raise OutOfDomain("contains with booleans")
                if needle is UNDEF or needle is None:
                    raise OutOfDomain("contains nil")
                return any(eq(x, needle) for x in hay)
            if isinstance(hay, dict):
                if isinstance(needle, str):
                    return needle in hay
                raise OutOfDomain("hash contains non-string")
            raise OutOfDomain("contains on scalar")
        raise OutOfDomain(f"condition {type(c).__name__}")


class _NameUnknown:
    """forloop.name of an iterable whose text form is not pinned down."""

    def __repr__(self) -> str:
        return "<forloop.name unknown>"
