"""C05 lookup sites: one small template per place where the engine turns a name into a lookup.

Placeholders: ``@N@`` the attribute name under test, ``@M@`` a second one.  Variables bound by
the harness: obj (the object under test), objs (three of them), box (Mapping drop whose key
``a`` is obj), k (the string NAME), kd (drop whose ``__liquid__()`` is NAME), arr, d, s, num,
translations (catalog).  ``rel`` says whether the site uses NAME purely as a *key* so that the
outcome with a hidden NAME must equal the outcome with a name that exists nowhere.
"""

from __future__ import annotations

from typing import Any

LAMBDA_FILTERS = ["map", "where", "reject", "find", "find_index", "has", "sort",
                  "sort_natural", "sort_numeric", "uniq", "compact", "sum"]
PREDICATE_FILTERS = ["where", "reject", "find", "find_index", "has"]

# filters whose string arguments are keys into the input items
KEY_FILTERS = set(LAMBDA_FILTERS)

PARTIALS = {
    "p_with": "[{{ p_with.@N@ }}|{{ p_with[k] }}|{{ p_with['@N@'] }}|{{ it.@N@ }}|{{ it[k] }}|{{ v }}|{{ v.@N@ }}]",
    "p_for": "[{{ forloop.@N@ }}{{ forloop.index }}|{{ it.@N@ }}|{{ p_for.@N@ }}|{{ it | map: '@N@' }}]",
    "p_plain": "[PUB_PARTIAL {{ v }}]",
    "base": "<{% block b %}PUB_BASE{{ block.@N@ }}{% endblock %}>",
    "PUBSTR_PLAIN_0": "named-by-str",
}


def S(id_: str, src: str, *, rel: bool = True, only: tuple[str, ...] | None = None,
      skip_wrapped: bool = False, tags: tuple[str, ...] = ()) -> dict[str, Any]:
    return {"id": id_, "src": src, "rel": rel, "only": only, "skip_wrapped": skip_wrapped,
            "tags": tags}


def path_sites() -> list[dict[str, Any]]:
    L = [
        S("path.dot", "{{ obj.@N@ }}"),
        S("path.bracket", "{{ obj['@N@'] }}"),
        S("path.bracket_dq", '{{ obj["@N@"] }}'),
        S("path.var", "{{ obj[k] }}"),
        S("path.assignvar", "{% assign kk = '@N@' %}{{ obj[kk] }}"),
        S("path.capturevar", "{% capture kk %}@N@{% endcapture %}{{ obj[kk] }}"),
        S("path.liquidkey", "{{ obj[kd] }}"),
        S("path.nested", "{{ box.a.@N@ }}|{{ box['a'][k] }}|{{ box.a['@N@'] }}"),
        S("path.nestedkey", "{{ obj[box.@N@] }}|{{ obj[obj.@N@] }}"),
        S("path.deeper", "{{ obj.@N@.x }}|{{ obj.@N@.@N@ }}|{{ obj.@N@[0] }}"),
        S("path.two", "{{ obj.@N@.@M@ }}|{{ obj['@N@']['@M@'] }}|{{ obj.@M@.@N@ }}"),
        S("path.three", "{{ obj.__class__.@N@.@M@ }}|{{ obj.__init__.__globals__.@N@ }}|{{ obj.__class__.__mro__[1].@N@ }}"),
        S("path.special", "{{ obj.first }}|{{ obj.last }}|{{ obj.size }}"),
        S("path.special_then", "{{ obj.first.@N@ }}|{{ obj.last.@N@ }}|{{ obj.size.@N@ }}"),
        S("path.then_special", "{{ obj.@N@.size }}|{{ obj.@N@.first }}|{{ obj.@N@.last }}"),
        S("path.index", "{{ obj[0] }}|{{ obj[-1] }}|{{ obj[0].@N@ }}|{{ obj[1][k] }}"),
        S("path.objs", "{{ objs[0].@N@ }}|{{ objs.first.@N@ }}|{{ objs.last[k] }}|{{ objs[1]['@N@'] }}"),
        S("path.child", "{{ obj.child.@N@ }}|{{ obj.child[k] }}|{{ obj.tags.@N@ }}|{{ obj.title.@N@ }}|{{ obj.n.@N@ }}"),
        S("path.plaindict", "{{ pd.a.@N@ }}|{{ pd['a'][k] }}|{{ pd.l[0].@N@ }}|{{ pd.l.first.@N@ }}|{{ pd.l.last[k] }}|{{ pd.l | map: '@N@' }}|{{ pd.l | map: x => x.@N@ }}"),
        S("path.field_then", "{{ obj[0].@N@ }}|{{ obj[2].@N@ }}|{{ obj[2][k] }}|{{ obj.last.@N@ }}|{{ obj.first.@N@ }}"),
        S("out.obj", "{{ obj }}|{% echo obj %}|{{ objs }}"),
        S("out.assign", "{% assign v = obj.@N@ %}{{ v }}|{% assign w = obj %}{{ w.@N@ }}|{{ w[k] }}"),
        S("out.capture", "{% capture c %}{{ obj.@N@ }}{{ obj[k] }}{% endcapture %}[{{ c }}]"),
        S("out.tstr", "{{ \"a${obj.@N@}b${obj[k]}c\" }}|{{ '${obj}' }}|{{ \"${obj['@N@']}\" }}"),
        S("out.array", "{{ obj, obj.@N@, obj[k] | join: ',' }}"),
        S("out.ternary", "{{ obj.@N@ if obj.@N@ else 'E' }}|{{ 'a' if obj[k] else 'b' }}|{{ obj[k] if obj else 'n' }}"),
        S("out.or", "{% if obj.@N@ or obj[k] %}T{% else %}F{% endif %}|{% if obj.@N@ and obj %}T{% else %}F{% endif %}|{% if not obj.@N@ %}N{% endif %}"),
        S("out.liquidtag", "{% liquid\nassign z = obj.@N@\necho z\necho obj[k]\n%}"),
        S("out.range", "{% for i in (1..obj.@N@) %}{{ i }}{% endfor %}|{{ (obj.@N@..2) | join: ',' }}"),
        S("out.cycle", "{% cycle obj.@N@, 'b' %}{% cycle obj.@N@, 'b' %}|{% cycle @N@: obj[k], 'y' %}{% cycle @N@: obj[k], 'y' %}"),
        S("cond.truthy", "{% if obj.@N@ %}T{% else %}F{% endif %}|{% unless obj[k] %}U{% endunless %}"),
        S("cond.eq", "{% if obj.@N@ == 'x' %}T{% else %}F{% endif %}|{% if obj[k] != nil %}NN{% endif %}|{% if obj.@N@ == obj.@M@ %}S{% endif %}"),
        S("cond.contains_key", "{% if obj contains '@N@' %}T{% else %}F{% endif %}|{% if '@N@' in obj %}T{% else %}F{% endif %}|{% if obj contains k %}T{% endif %}",
          rel=True),
        S("cond.contains_val", "{% if obj.@N@ contains 'CNRY' %}T{% else %}F{% endif %}|{% if obj[k] contains 'a' %}T{% endif %}"),
        S("cond.cmp", "{% if obj.@N@ < 3 %}T{% else %}F{% endif %}|{% if obj[k] >= 'a' %}T{% else %}F{% endif %}"),
        S("cond.objcmp", "{% if obj == '@N@' %}T{% else %}F{% endif %}|{% if obj < 3 %}L{% endif %}", rel=False),
        S("cond.case", "{% case obj.@N@ %}{% when 'x' %}X{% when nil %}N{% else %}E{% endcase %}|{% case '@N@' %}{% when obj %}O{% when obj[k] %}K{% else %}E{% endcase %}"),
        S("cond.empty", "{% if obj.@N@ == empty %}E{% endif %}{% if obj.@N@ == blank %}B{% endif %}{% if obj == empty %}OE{% endif %}"),
    ]
    return L


def tag_sites() -> list[dict[str, Any]]:
    return [
        S("tag.for", "{% for x in obj %}[{{ x }}|{{ x.@N@ }}|{{ x[k] }}]{% else %}EMPTY{% endfor %}"),
        S("tag.for_attr", "{% for x in obj.@N@ %}[{{ x }}]{% else %}EMPTY{% endfor %}|{% for x in obj[k] %}[{{ x }}]{% endfor %}"),
        S("tag.for_objs", "{% for x in objs %}[{{ x.@N@ }}|{{ x[k] }}|{{ x['@N@'] }}]{% endfor %}"),
        S("tag.for_args", "{% for x in objs limit: obj.@N@ offset: obj[k] %}[{{ forloop.index }}]{% endfor %}"),
        S("tag.for_reversed", "{% for x in obj reversed %}[{{ x }}{{ x.@N@ }}]{% endfor %}"),
        S("tag.for_forloop", "{% for x in objs %}{{ forloop.@N@ }}{{ forloop['@N@'] }}{{ forloop[k] }}{% endfor %}"),
        S("tag.tablerow", "{% tablerow x in objs cols: 2 %}{{ x.@N@ }}{{ x[k] }}{{ tablerowloop.@N@ }}{{ tablerowloop[k] }}{% endtablerow %}"),
        S("tag.tablerow_obj", "{% tablerow x in obj cols: obj.@N@ limit: obj[k] %}{{ x }}{{ x.@N@ }}{% endtablerow %}"),
        S("tag.tablerow_attr", "{% tablerow x in obj.@N@ %}{{ x }}{% endtablerow %}"),
        S("tag.include_with", "{% include 'p_with' with obj %}|{% include 'p_with' with obj as it %}|{% include 'p_with', v: obj.@N@ %}|{% include 'p_with', v: obj %}",
          skip_wrapped=True),
        S("tag.include_for", "{% include 'p_for' for objs as it %}|{% include 'p_for' for obj %}|{% include 'p_for' for obj.@N@ as it %}",
          skip_wrapped=True),
        S("tag.include_name", "{% include obj.@N@ %}|{% include obj[k] %}", skip_wrapped=True),
        S("tag.include_objname", "{% include obj %}", skip_wrapped=True, rel=False),
        S("tag.render_with", "{% render 'p_with' with obj %}|{% render 'p_with' with obj as it %}|{% render 'p_with', v: obj.@N@, k: k %}|{% render 'p_with', v: obj, k: k %}",
          skip_wrapped=True),
        S("tag.render_for", "{% render 'p_for' for objs as it %}|{% render 'p_for' for obj %}|{% render 'p_for' for obj.@N@ as it %}",
          skip_wrapped=True),
        S("tag.with", "{% with v: obj.@N@, w: obj, u: obj[k] %}[{{ v }}|{{ w.@N@ }}|{{ w[k] }}|{{ u }}]{% endwith %}"),
        S("tag.macro", "{% macro m a, b: obj.@N@ %}[{{ a.@N@ }}|{{ a[k] }}|{{ b }}|{{ args }}|{{ kwargs.@N@ }}|{{ kwargs['@N@'].@N@ }}|{{ args.@N@ }}]{% endmacro %}"
                       "{% call m obj, 1, @N@: obj, z: obj.@N@ %}|{% call m obj[k] %}"),
        S("tag.translate", "{% translate you: obj, x: obj.@N@, y: obj[k] %}Hi {{ you }} {{ x }} {{ y }} {you.@N@} {0.@N@} %(you)s{% endtranslate %}"),
        S("tag.translate_count", "{% translate count: obj, context: obj.@N@ %}One {{ count }}{% plural %}Many {{ count }} {count.@N@}{% endtranslate %}", rel=True),
        S("tag.translate_catalog", "{% translate obj: obj %}M0{% endtranslate %}|{% translate obj: obj, count: 2 %}M0{% plural %}M0s{% endtranslate %}"),
        S("tag.translate_namedvar", "{% translate @N@: obj %}A {{ @N@ }} B{% endtranslate %}", rel=False),
        S("tag.block", "{% extends 'base' %}{% block b %}{{ block.@N@ }}{{ block['@N@'] }}{{ block[k] }}{{ block.super }}{{ obj.@N@ }}{% endblock %}",
          skip_wrapped=True),
        S("tag.increment", "{% increment @N@ %}{% increment @N@ %}{{ @N@ }}|{% decrement @N@ %}", rel=True),
        S("tag.assign_named", "{% assign @N@ = obj %}{{ @N@ }}|{{ @N@.@N@ }}", rel=True),
    ]


def engine_sites() -> list[dict[str, Any]]:
    """Sites naming engine-provided objects directly (shape fixed)."""
    return [
        S("eng.forloop", "{% for zz in arr %}{{ forloop.@N@ }}|{{ forloop['@N@'] }}|{{ forloop[k] }}|{{ forloop.@N@.@M@ }}"
                         "{% for yy in arr %}{{ forloop.parentloop.@N@ }}|{{ forloop.parentloop[k] }}|{{ forloop.parentloop.parentloop.@N@ }}{% endfor %}{% endfor %}",
          only=("forloop",)),
        S("eng.forloop_filters", "{% for zz in arr %}{{ forloop | map: '@N@' }}|{{ forloop | where: '@N@' }}|{{ forloop | json }}|{{ forloop | map: x => x.@N@ }}{% endfor %}",
          only=("forloop",)),
        S("eng.tablerowloop", "{% tablerow zz in arr cols: 2 %}{{ tablerowloop.@N@ }}|{{ tablerowloop['@N@'] }}|{{ tablerowloop[k] }}|{{ tablerowloop | map: '@N@' }}{% endtablerow %}",
          only=("tablerowloop",)),
        S("eng.block", "{% extends 'base' %}{% block b %}{{ block.@N@ }}|{{ block['@N@'] }}|{{ block[k] }}|{{ block | map: '@N@' }}|{{ block.@N@.@M@ }}{% endblock %}",
          only=("block",)),
        S("eng.now", "{{ now.@N@ }}|{{ now['@N@'] }}|{{ now[k] }}|{{ today.@N@ }}|{{ today[k] }}|{{ now | map: '@N@' }}|{{ today | map: x => x.@N@ }}",
          only=("now",)),
        S("eng.now_year", "{{ now.year }}|{{ today.year }}|{{ now.month }}|{{ now.tzinfo }}|{{ today.day }}|{{ now.strftime }}|{{ now.size }}|{{ now.first }}",
          only=("now",), rel=False, tags=("must-be-empty",)),
        S("eng.literal", "{{ 'PUBLIT'.@N@ }}", only=("str",)),
        S("eng.literal_assign", "{% assign z = 'PUBLIT' %}{{ z.@N@ }}|{{ z[k] }}|{% assign y = 12 %}{{ y.@N@ }}|{{ y[k] }}|{% assign r = (1..3) %}{{ r.@N@ }}|{{ r[k] }}"
                                "|{% assign a2 = 1, 2 %}{{ a2.@N@ }}|{{ a2[k] }}|{{ nil.@N@ }}|{{ true.@N@ }}|{{ nosuch.@N@ }}|{{ nosuch[k].@N@ }}",
          only=("str",)),
        S("eng.translations_takeover", "{% assign translations = obj %}{{ 'x' | t }}|{{ 'x' | gettext }}", rel=False,
          tags=("takeover",)),
        S("eng.translations_takeover_tag", "{% assign translations = obj %}{% translate %}hello{% endtranslate %}", rel=False,
          tags=("takeover",)),
        S("eng.translations_takeover_plural", "{% assign translations = obj %}{{ 'x' | ngettext: 'xs', 2 }}|{{ 'x' | pgettext: 'c' }}|{{ 'x' | npgettext: 'c', 'xs', 2 }}"
                                              "|{{ 'x' | t: 'c', plural: 'xs', count: 2 }}", rel=False, tags=("takeover",)),
        S("eng.babel_vars", "{% assign locale = obj.@N@ %}{% assign timezone = obj[k] %}{% assign currency_code = obj.@N@ %}"
                            "{{ 1 | currency }}|{{ 1 | decimal }}|{{ 0 | datetime }}|{{ 1 | unit: 'length-kilometer' }}"),
        S("eng.babel_objvars", "{% assign locale = obj %}{{ 1 | decimal }}", rel=False),
        S("eng.babel_objvars2", "{% assign timezone = obj %}{{ 0 | datetime }}", rel=False),
        S("eng.babel_objvars3", "{% assign currency_code = obj %}{{ 1 | currency }}|{% assign currency_format = obj %}{{ 1 | currency }}", rel=False),
        S("eng.babel_objvars4", "{% assign datetime_format = obj %}{{ 0 | datetime }}|{% assign input_timezone = obj %}{{ '2001-01-01' | datetime }}", rel=False),
        S("eng.babel_objvars5", "{% assign input_locale = obj %}{{ '1' | decimal }}|{% assign decimal_quantization = obj %}{{ 1 | currency }}|{% assign unit_length = obj %}{{ 1 | unit: 'length-kilometer' }}", rel=False),
    ]


# printf-style messages (docs/babel.md): `%(name)s` is interpolated, everything else is text.
# Brace patterns are what str.format would evaluate.  One pattern per message so that a failing
# pattern cannot mask another.
MESSAGES = [
    "A %(obj)s {obj.@N@}",
    "B %(obj)s {obj.__class__}",
    "C %(obj)s {obj.__class__.__mro__} {obj.__init__}",
    "D {0.@N@}",
    "E %(@N@)s {@N@}",
    "F %(obj)s {obj!r}",
    "G %(k)s %(obj)s {obj.@N@.@M@}",
    # messages made ONLY of brace fields (what a python-brace-format branch would evaluate),
    # naming objects that resolve as globals and as filter keyword arguments
    "H {obj.@N@}",
    "I {obj[@N@]}",
    "J {obj.__class__.__name__}",
    "K {obj.__init__.__globals__}",
    "L {obj!r}",
    "M {obj!s:>40} {obj:>40}",
    "N {@N@} {k}",
    "O {obj}",
    "P {obj.@N@.@M@}",
    "Q {objs[0].@N@} {objs[1][@N@]}",
    "R {box[a].@N@} {box.@N@}",
    "S {0.@N@} {obj.@N@} {}",
    "T 100%% {obj.@N@}",
    "U {translations.@N@} {kd.@N@} {arr.@N@}",
    # %-style edge forms and string.Template-like text
    "V %(obj)r",
    "W %(obj).3s %(obj)5s",
    "X %(obj)s %(obj)r {obj.@N@}",
    "Y $obj ${obj.@N@} $@N@ ${obj}",
    "Z %(obj.@N@)s %(obj[@N@])s",
]


def i18n_sites() -> list[dict[str, Any]]:
    L = []
    for j, m in enumerate(MESSAGES):
        if "${" not in m:   # `${` inside a Liquid string literal is template-string interpolation
            # object reachable only as a global (no keyword argument), all five filters, and the
            # message held in an assigned variable
            L.append(S(f"i18n.literal_global.m{j}",
                       "{{ '" + m + "' | t }}|{{ '" + m + "' | gettext }}|{{ '" + m + "' | ngettext: '" + m + "', 2 }}"
                       "|{{ '" + m + "' | pgettext: 'ctx' }}|{{ '" + m + "' | npgettext: 'ctx', '" + m + "', 1 }}"))
            L.append(S(f"i18n.literal_plural.m{j}",
                       "{{ '" + m + "' | ngettext: '" + m + "', 2, obj: obj }}|{{ '" + m + "' | pgettext: 'ctx', obj: obj }}"
                       "|{{ '" + m + "' | npgettext: 'ctx', '" + m + "', 2, obj: obj }}"
                       "|{{ '" + m + "' | t: 'ctx', plural: '" + m + "', count: 2, obj: obj }}"))
            L.append(S(f"i18n.assigned.m{j}",
                       "{% assign mm = '" + m + "' %}{{ mm | t: obj: obj }}|{{ mm | t }}|{{ mm | gettext }}"
                       "|{% capture mc %}" + m + "{% endcapture %}{{ mc | t: obj: obj }}|{{ mc | ngettext: mc, 2 }}"))
        L.append(S(f"i18n.data_plural.m{j}",
                   "{{ msgs[%d] | gettext }}|{{ msgs[%d] | ngettext: msgs[%d], 2, obj: obj }}|{{ msgs[%d] | pgettext: 'ctx' }}"
                   "|{{ msgs[%d] | npgettext: 'ctx', msgs[%d], 2, obj: obj }}" % (j, j, j, j, j, j)))
        L.append(S(f"i18n.catalog_global.m{j}",
                   "{{ 'M%d' | t }}|{{ 'M%d' | gettext }}|{{ 'M%d' | ngettext: 'M%ds', 2 }}|{{ 'M%d' | pgettext: 'ctx' }}"
                   "|{{ 'M%d' | npgettext: 'ctx', 'M%ds', 2 }}" % (j, j, j, j, j, j, j)))
        if "${" in m:
            L.append(S(f"i18n.data.m{j}", "{{ msgs[" + str(j) + "] | t: obj: obj }}|{{ msgs[" + str(j) + "] | t }}"))
            L.append(S(f"i18n.catalog.m{j}", "{{ 'M" + str(j) + "' | t: obj: obj }}|{{ 'M" + str(j) + "' | gettext: obj: obj }}"))
            L.append(S(f"i18n.tag_catalog.m{j}", "{% translate obj: obj %}M" + str(j) + "{% endtranslate %}"))
            continue
        L.append(S(f"i18n.literal.m{j}", "{{ '" + m + "' | t: obj: obj }}|{{ '" + m + "' | gettext: obj: obj }}"))
        L.append(S(f"i18n.data.m{j}", "{{ msgs[" + str(j) + "] | t: obj: obj }}|{{ msgs[" + str(j) + "] | t }}"))
        L.append(S(f"i18n.catalog.m{j}", "{{ 'M" + str(j) + "' | t: obj: obj }}|{{ 'M" + str(j) + "' | gettext: obj: obj }}"))
        L.append(S(f"i18n.catalog_plural.m{j}",
                   "{{ 'M%d' | ngettext: 'M%ds', 2, obj: obj }}|{{ 'M%d' | pgettext: 'ctx', obj: obj }}"
                   "|{{ 'M%d' | npgettext: 'ctx', 'M%ds', 2, obj: obj }}|{{ 'M%d' | t: 'ctx', plural: 'M%ds', count: 2, obj: obj }}"
                   % (j, j, j, j, j, j, j)))
        tagtext = m.replace("%(obj)s", "{{ obj }}").replace("%(k)s", "{{ k }}").replace("%(@N@)s", "{{ @N@ }}")
        L.append(S(f"i18n.tag.m{j}", "{% translate obj: obj %}" + tagtext + "{% endtranslate %}"
                                     "|{% translate obj: obj, count: 2 %}" + tagtext + "{% plural %}P " + tagtext + "{% endtranslate %}"))
        L.append(S(f"i18n.tag_catalog.m{j}", "{% translate obj: obj %}M" + str(j) + "{% endtranslate %}"))
    L += [
        S("i18n.t_literal_kwname", "{{ 'A %(obj)s %(@N@)s' | t: @N@: obj, obj: obj }}", rel=False),
        S("i18n.t_plural", "{{ 'M0' | t: plural: 'M0s', count: obj, obj: obj }}|{{ 'M0' | t: obj.@N@, plural: obj, count: 2 }}|{{ 'M0' | t: obj }}"),
        S("i18n.t_objleft", "{{ obj | t }}|{{ obj.@N@ | t: obj: obj }}|{{ obj | ngettext: obj, obj }}|{{ obj | pgettext: obj }}|{{ obj | npgettext: obj, obj, obj }}"),
        S("i18n.t_count_attr", "{{ 'M0' | ngettext: 'M0s', obj.@N@ }}|{{ 'M0' | t: count: obj[k], plural: 'M0s' }}"),
        S("i18n.t_percent_obj", "{{ '%(obj)s %(objs)s %(box)s' | t }}|{{ '%(obj)s' | t: obj: obj.@N@ }}"),
    ]
    return L


GENERIC_FORMS = [
    ("g1", "{{ obj | @F@ }}", True),
    ("g2", "{{ obj | @F@: '@N@' }}", True),
    ("g3", "{{ obj | @F@: k }}", True),
    ("g4", "{{ objs | @F@: '@N@' }}", True),
    ("g5", "{{ objs | @F@: '@N@', 'PUB_TITLE_1' }}", True),
    ("g6", "{{ obj.@N@ | @F@ }}|{{ obj[k] | @F@: obj.@N@ }}", True),
    ("g7", "{{ '@N@' | @F@: obj }}", False),
    ("g8", "{{ arr | @F@: obj, obj }}", True),
    ("g9", "{{ objs | @F@ }}", True),
    ("g10", "{{ objs | @F@: kd }}|{{ obj | @F@: kd }}", True),
    ("g11", "{{ box | @F@: '@N@' }}|{{ box.a | @F@: k }}", True),
    ("g12", "{{ objs | @F@: '@N@' | map: '@N@' | join: ',' }}", True),
    # keyword arguments named like the engine's own injected ones
    ("g13", "{{ arr | @F@: context: obj }}", False),
    ("g14", "{{ 'M0' | @F@: 'PUB', context: obj }}", False),
    ("g15", "{{ arr | @F@: environment: obj }}", False),
    ("g16", "{{ 'now' | @F@: '%Y', environment: obj }}", False),
]

LAMBDA_FORMS = [
    ("l1", "{{ objs | @F@: x => x.@N@ }}"),
    ("l2", "{{ objs | @F@: x => x['@N@'] }}"),
    ("l3", "{{ objs | @F@: x => x[k] }}"),
    ("l4", "{{ objs | @F@: (x, i) => x.@N@ }}"),
    ("l5", "{{ obj | @F@: x => x.@N@.@M@ }}"),
    ("l6", "{{ objs | @F@: x => x.child.@N@ }}|{{ objs | @F@: x => x[kd] }}"),
]
PREDICATE_FORMS = [
    ("p1", "{{ objs | @F@: x => x.@N@ == 'q' }}"),
    ("p2", "{{ objs | @F@: x => x.@N@ contains 'CNRY' }}"),
    ("p3", "{{ objs | @F@: x => x[k] }}|{{ objs | @F@: x => x.@N@ != nil }}"),
]

KW_FORMS: dict[str, list[tuple[str, bool]]] = {
    # (form, NAME used purely as a key?)
    "default": [("{{ obj.@N@ | default: obj.@M@, allow_false: obj[k] }}", True),
                ("{{ obj | default: 'PUB_D', allow_false: true }}", True)],
    "json": [("{{ obj | json: indent: obj.@N@ }}", True), ("{{ objs | json: 2 }}", True), ("{{ box | json }}", True)],
    "join": [("{{ objs | join: obj.@N@ }}", True), ("{{ objs | join: obj }}", True)],
    "date": [("{{ obj | date: '@N@' }}", False), ("{{ obj.@N@ | date: '%Y' }}", True),
             ("{{ 'now' | date: obj }}", False), ("{{ today | date: '@N@' }}", False)],
    "currency": [("{{ obj | currency: group_separator: obj.@N@ }}", True), ("{{ 1 | currency: currency_code: obj }}", False),
                 ("{{ 1 | currency: group_separator: obj }}", False)],
    "datetime": [("{{ obj | datetime: format: '@N@' }}", False), ("{{ 0 | datetime: format: obj }}", False),
                 ("{{ 0 | datetime: format: obj.@N@ }}", True)],
    "unit": [("{{ obj | unit: '@N@', denominator: obj, denominator_unit: obj.@N@ }}", False),
             ("{{ 1 | unit: obj }}", False), ("{{ 1 | unit: 'length-meter', format: obj }}", False),
             ("{{ 1 | unit: 'length-meter', length: obj }}", False),
             ("{{ 1 | unit: 'length-meter', denominator: 2, denominator_unit: obj }}", False)],
    "decimal": [("{{ obj | decimal: group_separator: obj }}", False), ("{{ 1 | decimal: group_separator: obj.@N@ }}", True)],
    "slice": [("{{ objs | slice: 0, 2 }}", True), ("{{ obj | slice: obj.@N@ }}", True)],
    "concat": [("{{ objs | concat: objs | map: '@N@' }}", True), ("{{ arr | concat: objs }}", True)],
    "first": [("{{ objs | first | map: '@N@' }}", True)],
    "reverse": [("{{ objs | reverse | map: '@N@' }}", True)],
    "split": [("{{ s | split: obj.@N@ }}", True)],
}


def filter_sites(filter_names: list[str]) -> list[dict[str, Any]]:
    L: list[dict[str, Any]] = []
    for f in filter_names:
        for fid, form, rel in GENERIC_FORMS:
            # a non-key filter treats its string argument as a *value* (separator, unit,
            # format pattern ...): the hidden-name relation says nothing there
            rel2 = rel and (f in KEY_FILTERS or fid == "g6")
            L.append(S(f"filter.{f}.{fid}", form.replace("@F@", f), rel=rel2))
        for j, (form, rel) in enumerate(KW_FORMS.get(f, [])):
            L.append(S(f"filter.{f}.kw{j}", form, rel=rel))
    for f in LAMBDA_FILTERS:
        if f not in filter_names:
            continue
        for fid, form in LAMBDA_FORMS:
            L.append(S(f"lambda.{f}.{fid}", form.replace("@F@", f)))
        if f in PREDICATE_FILTERS:
            for fid, form in PREDICATE_FORMS:
                L.append(S(f"lambda.{f}.{fid}", form.replace("@F@", f)))
    return L


CARRIER_SHAPES = ("call_dict", "call_drop", "call_list", "call_top")


def callable_sites() -> list[dict[str, Any]]:
    """Paths that continue THROUGH an item whose value is callable.  ``@P@`` is the path to
    the callable (obj.<kind> / obj['<kind>'] / obj[i] / obj); ``@N@`` ranges over the keys of
    what a call WOULD return (token, list, nested, n) -- all hidden behind the call, so each
    must behave exactly like a name that exists nowhere.  ``objs`` is the list of all the
    callables.  The callable itself is never printed on purpose by these sites' key parts."""
    C = lambda i, src, rel=True: S(f"call.{i}", src, rel=rel, only=CARRIER_SHAPES)  # noqa: E731
    return [
        C("path_dot", "[{{ @P@.@N@ }}]"),
        C("path_bracket", "[{{ @P@['@N@'] }}]"),
        C("path_var", "[{{ @P@[k] }}]|[{{ @P@[kd] }}]"),
        C("path_deeper", "[{{ @P@.@N@.token }}]|[{{ @P@.nested.@N@ }}]|[{{ @P@.@N@[0] }}]"),
        C("path_size", "[{{ @P@.size }}]", rel=False),
        C("path_first", "[{{ @P@.first }}]", rel=False),
        C("path_last", "[{{ @P@.last }}]", rel=False),
        C("path_special_then", "[{{ @P@.first.@N@ }}]|[{{ @P@.size.@N@ }}]|[{{ @P@.@N@.size }}]|[{{ @P@.@N@.first }}]|[{{ @P@.@N@.last }}]"),
        C("path_index", "[{{ @P@[0] }}]|[{{ @P@[0].@N@ }}]|[{{ @P@[-1] }}]"),
        C("cond_if", "[{% if @P@.@N@ %}yes{% else %}no{% endif %}]|[{% unless @P@[k] %}U{% endunless %}]"),
        C("cond_eq", "[{% if @P@.@N@ == 'x' %}T{% else %}F{% endif %}]|[{% if @P@.@N@ != nil %}NN{% endif %}]|[{% if @P@.@N@ contains 'CNRY' %}C{% endif %}]"),
        C("cond_case", "[{% case @P@.@N@ %}{% when 'x' %}X{% when nil %}N{% else %}E{% endcase %}]"),
        C("cond_contains", "[{% if @P@ contains '@N@' %}T{% else %}F{% endif %}]|[{% if '@N@' in @P@ %}T{% else %}F{% endif %}]"),
        C("ternary", "[{{ @P@.@N@ if @P@.@N@ else 'E' }}]|[{{ 'a' if @P@[k] else 'b' }}]"),
        C("assign", "{% assign z = @P@.@N@ %}[{{ z }}]|{% assign w = @P@ %}[{{ w.@N@ }}]|[{{ w[k] }}]"),
        C("capture", "{% capture c %}{{ @P@.@N@ }}{% endcapture %}[{{ c }}]"),
        C("tstr", "[{{ \"a${@P@.@N@}b\" }}]"),
        C("for_through", "{% for x in @P@.@N@ %}[{{ x }}]{% else %}EMPTY{% endfor %}"),
        C("for_callable", "{% for x in @P@ %}[{{ x.@N@ }}|{{ x[1] }}]{% else %}EMPTY{% endfor %}"),
        C("for_objs", "{% for f in objs %}[{{ f.@N@ }}|{{ f[k] }}]{% endfor %}"),
        C("for_limit", "{% for x in arr limit: @P@.n offset: @P@.@N@ %}[{{ x }}]{% endfor %}"),
        C("tablerow", "{% tablerow x in @P@.@N@ %}{{ x }}{% endtablerow %}|{% tablerow f in objs %}{{ f.@N@ }}{% endtablerow %}"),
        C("with", "{% with w: @P@, v: @P@.@N@ %}[{{ w.@N@ }}|{{ w[k] }}|{{ v }}]{% endwith %}"),
        C("include", "{% include 'p_tok' with @P@ as it %}|{% include 'p_tok', it: @P@, v: @P@.@N@ %}"),
        C("render", "{% render 'p_tok' with @P@ as it, k: k %}|{% render 'p_tok', it: @P@, v: @P@.@N@, k: k %}"),
        C("render_for", "{% render 'p_tok' for objs as it, k: k %}|{% include 'p_tok' for objs as it %}"),
        C("macro", "{% macro m a, b: @P@.@N@ %}[{{ a.@N@ }}|{{ a[k] }}|{{ b }}]{% endmacro %}{% call m @P@ %}"),
        C("translate", "{% translate x: @P@.@N@ %}T {{ x }}{% endtranslate %}|{{ 'A %(x)s' | t: x: @P@.@N@ }}"),
        C("cycle", "[{% cycle @P@.@N@, 'b' %}]"),
        C("range", "[{% for i in (1..@P@.n) %}{{ i }}{% endfor %}]|[{{ (1..@P@.@N@) | join: ',' }}]"),
        C("liquidtag", "{% liquid\nassign z = @P@.@N@\necho z\n%}"),
        C("f_after", "[{{ @P@.@N@ | upcase }}]|[{{ @P@.@N@ | default: 'PUB_D' }}]|[{{ @P@.@N@ | join: ',' }}]|[{{ @P@.@N@ | size }}]|[{{ @P@.@N@ | json }}]"),
        C("f_map", "[{{ @P@ | map: '@N@' }}]|[{{ objs | map: '@N@' }}]"),
        C("f_map_lambda", "[{{ @P@ | map: x => x.@N@ }}]|[{{ objs | map: x => x.@N@ }}]|[{{ objs | map: x => x[k] }}]"),
        C("f_where", "[{{ objs | where: '@N@' | size }}]|[{{ objs | reject: '@N@' | size }}]|[{{ objs | find_index: '@N@' }}]|[{{ objs | has: '@N@' }}]"),
        C("f_where_lambda", "[{{ objs | where: x => x.@N@ | size }}]|[{{ objs | find_index: x => x.@N@ }}]|[{{ objs | has: x => x.@N@ == 41 }}]"),
        C("f_sum", "[{{ objs | sum: '@N@' }}]|[{{ @P@ | sum: '@N@' }}]|[{{ objs | sum: x => x.@N@ }}]"),
        C("f_sort", "[{{ objs | sort: '@N@' | size }}]|[{{ objs | sort_natural: '@N@' | size }}]|[{{ objs | sort_numeric: '@N@' | size }}]|[{{ objs | uniq: x => x.@N@ | size }}]"),
        C("f_compact", "[{{ objs | compact: x => x.@N@ | size }}]"),
        C("f_size", "[{{ @P@ | size }}]|[{{ @P@ | first }}]|[{{ @P@ | last }}]", rel=False),
        C("f_date", "[{{ @P@ | date: '%Y' }}]", rel=False),
        C("f_math", "[{{ @P@ | plus: 1 }}]|[{{ 1 | plus: @P@ }}]|[{{ @P@ | abs }}]", rel=False),
        C("f_default", "[{{ @P@.@N@ | default: @P@.nested.token }}]"),
        C("f_t", "[{{ 'M0' | t: obj: @P@.@N@ }}]"),
        # the callable itself is printed / stringified (its repr is what the host exposed; a CALL is not)
        C("print", "[{{ @P@ }}]|{% echo @P@ %}|[{{ \"${@P@}\" }}]", rel=False),
        C("print_objs", "[{{ objs }}]|[{{ objs | join: ',' }}]|[{{ obj }}]", rel=False),
        C("print_filters", "[{{ @P@ | append: 'x' }}]|[{{ @P@ | upcase }}]|[{{ 'x' | append: @P@ }}]|[{{ @P@ | default: 'PUB_D' }}]|[{{ @P@ | escape }}]", rel=False),
        C("print_json", "[{{ @P@ | json }}]", rel=False),
        C("print_t", "[{{ @P@ | t }}]|[{{ 'A %(x)s' | t: x: @P@ }}]|{% translate x: @P@ %}T {{ x }}{% endtranslate %}", rel=False),
        C("print_capture", "{% capture c %}{{ @P@ }}{% endcapture %}[{{ c | size }}]|{% assign z = @P@ %}[{{ z }}]", rel=False),
        C("truthy", "[{% if @P@ %}T{% else %}F{% endif %}]|[{% if @P@ == empty %}E{% endif %}]|[{% if @P@ == 'x' %}X{% endif %}]|[{% if @P@ < 3 %}L{% endif %}]", rel=False),
        C("truthy_case", "[{% case @P@ %}{% when 'x' %}X{% else %}E{% endcase %}]|[{{ 'a' if @P@ else 'b' }}]", rel=False),
    ]


PARTIALS["p_tok"] = "[{{ it.@N@ }}|{{ it[k] }}|{{ it['@N@'] }}|{{ v }}|{{ p_tok.@N@ }}]"


def all_sites(filter_names: list[str]) -> list[dict[str, Any]]:
    return (path_sites() + tag_sites() + engine_sites() + i18n_sites() + filter_sites(filter_names)
            + callable_sites())
