"""C19 units: uniq / compact / map / sum and first / last / slice / concat / size / join / split.

Documentation used (filter_reference.md): uniq ("duplicate elements removed", example
keeps the first of each; key form: one product from each company), compact ("Remove nil
values"; key form example drops the `{}` pages that lack the property), map ("Extract
properties ... into a new array"; CTS "missing property" -> nil, "nested arrays get
flattened"), sum ("sum of all numeric elements"; example sums numeric strings; key form;
CTS: missing property counts 0, nested ints, hashes without a key sum to 0), first, last
(nil for empty / string / number; CTS first of a hash is its first pair, last of a hash is
nil), slice (zero-based start, length default 1, negative start counts from the end; CTS
negative length -> empty, float arguments are errors), concat (input flattened, argument
not; argument must be an array), size, join (default separator one space; items
stringified), split (empty argument -> characters; CTS: empty input or input equal to
the separator -> empty array).
"""

from __future__ import annotations

import random
from fractions import Fraction
from typing import Any

from .c19_lib import MISSING
from .c19_lib import RE_FLOAT
from .c19_lib import RE_INT
from .c19_lib import effective
from .c19_lib import exact
from .c19_lib import flatten
from .c19_lib import float_close
from .c19_lib import g_float
from .c19_lib import g_hashes
from .c19_lib import g_int
from .c19_lib import g_list
from .c19_lib import g_numstr
from .c19_lib import g_text
from .c19_lib import g_word
from .c19_lib import hget
from .c19_lib import is_nested
from .c19_lib import is_num
from .c19_lib import jn
from .c19_lib import lam_path
from .c19_lib import leq
from .c19_lib import lstr
from .c19_lib import nest
from .c19_lib import numeric_string_in_domain
from .c19_lib import skey
from .c19_lib import to_number
from .c19_lib import value_class
from .c19_run import Runner
from .c19_run import unit

# values on which Liquid equality and Python equality coincide (no 1/true/1.0 mixtures)
UNIQ_SAFE = [None, "a", "b", "B", "", 2, 3, 10**20, 1.5, "2", [], [2], {}, {"z": 2}, "a", 2, None, False]
COLLECT_KEYS = ("k", "title", "a b")


def _shuffled(x: list[Any], seed: int) -> list[Any]:
    y = list(x)
    random.Random(seed).shuffle(y)
    return y


def gen_collect(rng: random.Random, i: int) -> dict[str, Any]:
    m = rng.random()
    ps = rng.randrange(10**6)
    if m < 0.015:
        # Liquid equality: a boolean equals only a boolean, so 1 and true are two values
        return {"mode": "scalars", "x": g_list(rng, [1, True, 0, False, "a"], 0, 6), "pseed": ps}
    if m < 0.05:
        # equal means the same code points: no case folding, no normalisation
        from .c19_lib import TRICKY_WORDS

        return {"mode": "scalars", "x": g_list(rng, rng.sample(TRICKY_WORDS, 5), 0, 8), "pseed": ps}
    if m < 0.2:
        pool = [v for v in UNIQ_SAFE if not isinstance(v, list)]
        return {"mode": "scalars", "x": nest(rng, g_list(rng, pool, 0, 8), 0.2), "pseed": ps}
    if m < 0.45:
        # numbers for sum
        c = rng.random()
        if c < 0.06:
            # cancellation: the exact sum is small although the terms are huge
            big = g_int(rng, big=1.0)
            xs = [big, -big + rng.randint(-200, 200), rng.choice((1.0, 0.5, 2.5, 1, 7))]
            rng.shuffle(xs)
            return {"mode": "numbers", "x": xs, "pseed": ps}
        if c < 0.4:
            pool = [g_int(rng) for _ in range(4)] + [0, 1, -1]
        elif c < 0.7:
            pool = [g_float(rng) for _ in range(3)] + [g_int(rng, big=0.1), 0.1, 0.2]
        else:
            pool = [g_numstr(rng) for _ in range(3)] + [g_int(rng, big=0.2), g_float(rng), None, {}, {"k": 1}]
            if rng.random() < 0.3:
                pool.append(g_word(rng))
        return {"mode": "numbers", "x": nest(rng, g_list(rng, pool, 0, 7), 0.3), "pseed": ps}
    k = rng.choice(COLLECT_KEYS)
    if m < 0.7:
        vals = [v for v in UNIQ_SAFE]
        return {"mode": "hashes", "x": g_hashes(rng, keys=COLLECT_KEYS, values=vals), "k": k, "pseed": ps}
    if rng.random() < 0.1:
        big = g_int(rng, big=1.0)
        xs = [{k: big}, {k: -big + rng.randint(-200, 200)}, {k: rng.choice((1.0, 0.5, "2.5", 1, 7))}, {}]
        rng.shuffle(xs)
        return {"mode": "numhashes", "x": xs, "k": k, "pseed": ps}
    vals = [g_int(rng) for _ in range(2)] + [g_float(rng), g_numstr(rng), 1, 2, None, 0]
    return {"mode": "numhashes", "x": g_hashes(rng, keys=COLLECT_KEYS, values=vals), "k": k, "pseed": ps}


def _classes(E: list[Any], getk: Any) -> list[Any]:
    """First element of every equality class of getk(e), in input order."""
    reps: list[Any] = []
    keys: list[Any] = []
    for e in E:
        kv = getk(e)
        if not any((kv is MISSING and o is MISSING) or (kv is not MISSING and o is not MISSING and leq(kv, o))
                   for o in keys):
            keys.append(kv)
            reps.append(e)
    return reps


def _sum_ref(vals: list[Any]) -> tuple[Fraction, bool]:
    """(exact sum, result-is-float).  Numeric elements and numeric strings count,
    everything else counts 0."""
    tot = Fraction(0)
    isf = False
    for v in vals:
        n = to_number(v) if not isinstance(v, bool) else 0
        if isinstance(n, float):
            isf = True
        tot += exact(n)
    return tot, isf


def _sum_domain_ok(vals: list[Any]) -> bool:
    if not all(numeric_string_in_domain(v) for v in vals):
        return False
    nums = [to_number(v) for v in vals if not isinstance(v, bool)]
    if any(isinstance(n, float) for n in nums):
        return all(abs(n) < 1e300 for n in nums) and abs(_sum_ref(vals)[0]) < Fraction(10) ** 300
    return True


def _sum_check(R: Runner, law: str, res: Any, vals: list[Any], q: str) -> None:
    if res.kind == "foreign":
        return
    want, isf = _sum_ref(vals)
    if isf:
        ok = res.ok and float_close(res.value, want)
    else:
        ok = res.ok and type(res.value) is int and res.value == want
    R.law("sum", law, ok, q, None if ok else {"want": str(want), "float": isf, "got": res.brief()})


def _sum_q(vals: list[Any]) -> str:
    cl = set()
    for v in vals:
        if isinstance(v, str):
            cl.add("numeric-string" if RE_INT.match(v) or RE_FLOAT.match(v) else "non-numeric-string")
        elif isinstance(v, float):
            cl.add("float")
        elif is_num(v):
            cl.add("bigint" if abs(v) > 2**53 else "int")
        else:
            cl.add("non-number")
    if "non-numeric-string" in cl:
        return "non-numeric-string"
    nums = [to_number(v) for v in vals if not isinstance(v, bool)]
    if any(isinstance(n, float) for n in nums) and any(isinstance(n, int) and abs(n) >= 10**27 for n in nums):
        # one mechanism whatever the spelling of the operands
        return "float-with-int-of-28-or-more-digits"
    if len(cl) > 1:
        cl.discard("int")
    return "+".join(sorted(cl))


@unit("collect", ("uniq", "compact", "map", "sum"), gen_collect)
def case_collect(R: Runner, inp: dict[str, Any]) -> None:
    mode, x, ps = inp["mode"], inp["x"], inp["pseed"]
    px = _shuffled(x, ps)
    if mode in ("scalars", "numbers"):
        Es = effective(x)
        # compact: removes exactly nil
        c = R.both("compact", x)
        R.expect_ok("compact", "total", c)
        if c.ok:
            ok = any(skey(c.value) == skey(jn([e for e in E if e is not None])) for E in Es)
            R.law("compact", "removes-exactly-nil", ok, "nested" if len(Es) > 1 else "",
                  {"input": jn(x), "got": c.value})
        cc = R.T("compact", "compact | compact", x=x)
        if c.ok and cc.ok:
            R.law("compact", "idempotent", skey(c.value) == skey(cc.value), "", None)
        cp = R.both("compact", px)
        if c.ok and cp.ok:
            R.law("compact", "order-independent",
                  sorted(map(repr, map(skey, c.value))) == sorted(map(repr, map(skey, cp.value))), "", None)
        # sum
        vals = flatten(x) if isinstance(x, list) else [x]
        if _sum_domain_ok(vals) and not any(isinstance(v, bool) for v in vals):
            q = _sum_q(vals)
            s = R.both("sum", x, cls=q)
            _sum_check(R, "exact-sum-of-numeric-elements", s, vals, q)
            sp = R.both("sum", px, cls=q)
            _sum_check(R, "exact-sum-of-numeric-elements", sp, vals, q)  # same sum whatever the order
        if mode == "scalars":
            u = R.both("uniq", x)
            R.expect_ok("uniq", "total", u)
            if u.ok:
                ok = any(skey(u.value) == skey(jn(_classes(E, lambda e: e))) for E in Es)
                R.law("uniq", "first-of-each-value-in-order", ok,
                      "bool-vs-number" if any(isinstance(e, bool) for e in Es[0]) and any(is_num(e) for e in Es[0])
                      else ("nested" if len(Es) > 1 else ""), {"input": jn(x), "got": u.value})
            uu = R.T("uniq", "uniq | uniq", x=x)
            if u.ok and uu.ok:
                R.law("uniq", "idempotent", skey(u.value) == skey(uu.value), "", {"once": u.value, "twice": uu.value})
            up = R.both("uniq", px)
            if u.ok and up.ok:
                R.law("uniq", "order-independent",
                      sorted(map(repr, map(skey, u.value))) == sorted(map(repr, map(skey, up.value))),
                      "", {"input": u.value, "permuted": up.value})
        return
    k = inp["k"]
    lam = lam_path(k)
    E = list(x)
    getk = lambda e: hget(e, k)  # noqa: E731
    nilk = lambda e: None if hget(e, k) is MISSING else hget(e, k)  # noqa: E731
    # map: extracts the property, nil where it is missing
    want_m = [nilk(e) for e in E]
    ms = R.both("map", x, k, decode="loop")
    ml = R.T("map", f"map: i => {lam}", decode="loop", x=x)
    R.expect("map", "extracts-property", ms, want_m,
             lambda: "missing-key" if any(getk(e) is MISSING for e in E) else "")
    R.expect("map", "extracts-property-lambda", ml, want_m,
             lambda: "missing-key" if any(getk(e) is MISSING for e in E) else "")
    if ms.ok and ml.ok:
        R.law("map", "form-equivalence", skey(ms.value) == skey(ml.value), "", {"stringkey": ms.value, "lambda": ml.value})
        if R.recording:
            R.ctx.count("lambda_form_comparisons")
    nx = [E[:1], E[1:]] if len(E) > 1 else [E]
    mn = R.both("map", nx, k, decode="loop")
    R.expect("map", "nested-input-flattened", mn, want_m, "")
    # compact with a property: drops items whose property is nil or missing (docs example)
    want_c = [e for e in E if nilk(e) is not None]
    cs = R.both("compact", x, k)
    cl = R.T("compact", f"compact: i => {lam}", x=x)
    R.locals_agree("compact", "compact: i => i[t]", cl, k, "lambda-sees-template-local-variable",
                   sites=("assign", "with"), x=x)
    qc = lambda: "missing-key" if any(getk(e) is MISSING for e in E) else "nil-value"  # noqa: E731
    R.expect("compact", "drops-items-with-nil-property", cs, want_c, qc)
    R.expect("compact", "drops-items-with-nil-property-lambda", cl, want_c, qc)
    if cs.ok and cl.ok:
        R.law("compact", "form-equivalence", skey(cs.value) == skey(cl.value), "", {"stringkey": cs.value, "lambda": cl.value})
        if R.recording:
            R.ctx.count("lambda_form_comparisons")
    elif cs.kind == "err" or cl.kind == "err":
        R.law("compact", "form-equivalence", cs.kind == cl.kind, "one-form-raises",
              {"stringkey": cs.brief(), "lambda": cl.brief()})
    if mode == "hashes":
        # uniq by property: first item of every property value; items lacking the property
        # form one class (CTS); whether nil joins that class is not documented -> both accepted
        us = R.both("uniq", x, k)
        ul = R.T("uniq", f"uniq: i => {lam}", x=x)
        R.locals_agree("uniq", "uniq: i => i[t]", ul, k, "lambda-sees-template-local-variable",
                       sites=("for", "macro"), x=x)
        wants = [_classes(E, getk), _classes(E, lambda e: MISSING if nilk(e) is None else getk(e))]
        for nm, res in (("one-item-per-property-value", us), ("one-item-per-property-value-lambda", ul)):
            R.expect_ok("uniq", "total-on-hashes", res)
            if res.ok:
                R.law("uniq", nm, any(skey(res.value) == skey(jn(w)) for w in wants), "",
                      {"want": jn(wants[0]), "got": res.value})
        if us.ok and ul.ok:
            R.law("uniq", "form-equivalence", skey(us.value) == skey(ul.value), "", {"stringkey": us.value, "lambda": ul.value})
            if R.recording:
                R.ctx.count("lambda_form_comparisons")
        uu = R.T("uniq", "uniq: k | uniq: k", x=x, k=k)
        if us.ok and uu.ok:
            R.law("uniq", "idempotent", skey(us.value) == skey(uu.value), "by-property", None)
        up = R.both("uniq", px, k)
        if us.ok and up.ok:
            R.law("uniq", "order-independent", len(us.value) == len(up.value), "by-property",
                  {"input": us.value, "permuted": up.value})
    else:
        vals = [nilk(e) for e in E]
        if _sum_domain_ok(vals) and not any(isinstance(v, bool) for v in vals):
            q = _sum_q(vals)
            ss = R.both("sum", x, k, cls=q)
            sl = R.T("sum", f"sum: i => {lam}", cls=q, x=x)
            R.locals_agree("sum", "sum: i => i[t]", sl, k, "lambda-sees-template-local-variable",
                           sites=("assign", "capture"), x=x)
            _sum_check(R, "exact-sum-of-property", ss, vals, q)
            _sum_check(R, "exact-sum-of-property-lambda", sl, vals, q)
            if ss.ok and sl.ok:
                R.law("sum", "form-equivalence", skey(ss.value) == skey(sl.value), q, {"stringkey": ss.value, "lambda": sl.value})
                if R.recording:
                    R.ctx.count("lambda_form_comparisons")
            sp = R.both("sum", px, k, cls=q)
            _sum_check(R, "exact-sum-of-property", sp, vals, q)  # same sum whatever the order


# ---------------------------------------------------------------------------
# first last slice concat size join split
# ---------------------------------------------------------------------------

SCALARS = [None, True, False, 0, 1, -7, 10**25, 1.5, "", "a", "b c", "é", "<b>"]


def gen_listalg(rng: random.Random, i: int) -> dict[str, Any]:
    m = rng.random()
    if m < 0.3:
        # split / join on strings
        alpha = rng.choice(("ab, ", "a,b,,c ", "xy1-é "))
        s = g_text(rng, 0, 10, alpha)
        c = rng.random()
        if c < 0.55:
            sep: Any = rng.choice((",", " ", ", ", "a", "-", "1"))
        elif c < 0.7:
            sep = s[rng.randrange(len(s) + 1):][: rng.randint(0, 3)] if s else ""
        elif c < 0.8:
            sep = s  # documented exception: input equals the separator
        elif c < 0.9:
            sep = ""
        else:
            sep = 1
        return {"mode": "split", "x": s, "sep": sep}
    if m < 0.5:
        pool = [v for v in SCALARS] + [g_word(rng), g_int(rng)]
        x = g_list(rng, pool, 0, 7)
        sep = rng.choice((",", " ", "#", ", ", "", "-", 5, "$default", None, True, 1.5))
        return {"mode": "join", "x": x, "sep": sep}
    if m < 0.75:
        c = rng.random()
        if c < 0.45:
            x: Any = g_text(rng, 0, 9)
        elif c < 0.9:
            x = nest(rng, g_list(rng, SCALARS + [{"a": 1}], 0, 8), 0.3)
        else:
            x = rng.choice((5, 12345, 0, 10**20))
        n = len(x) if isinstance(x, (str, list)) else len(str(x))
        start = rng.choice((rng.randint(-n, n + 2), rng.randint(-n, n + 2), 2**63, 10**30)) if n else rng.randint(0, 2)
        length: Any = rng.choice((rng.randint(-2, n + 3), rng.randint(0, n + 1), 10**30, 2**64, "$default", -1))
        if rng.random() < 0.1:
            start = str(start)
        if rng.random() < 0.1 and length != "$default":
            length = str(length)
        return {"mode": "slice", "x": x, "start": start, "length": length}
    c = rng.random()
    if c < 0.6:
        x = nest(rng, g_list(rng, SCALARS + [{"a": 1}, {}], 0, 7), 0.5)
    elif c < 0.75:
        x = g_text(rng, 0, 5)
    elif c < 0.9:
        x = {k: rng.choice(SCALARS) for k in rng.sample(["b", "c", "size", "first"], rng.randint(0, 3))}
    else:
        x = rng.choice((12, True, 1.5, 0, 10**30))
    y = nest(rng, g_list(rng, SCALARS + [[1]], 0, 4), 0.4)
    return {"mode": "ends", "x": x, "y": y}


def _int_arg(v: Any) -> int:
    return int(v)


def _slice_ref(E: Any, start: int, length: int) -> Any:
    n = len(E)
    s = start if start >= 0 else n + start
    if length <= 0 or s >= n:
        return E[:0]
    return E[s: s + length]


@unit("listalg", ("first", "last", "slice", "concat", "size", "join", "split"), gen_listalg)
def case_listalg(R: Runner, inp: dict[str, Any]) -> None:
    mode, x = inp["mode"], inp["x"]
    if mode == "split":
        sep = inp["sep"]
        ssep = lstr(sep)
        r = R.both("split", x, sep)
        if ssep == "":
            want: list[str] = list(x)
        elif x == "" or x == ssep:
            want = []  # documented exception
        else:
            want = _split_ref(x, ssep)
        R.expect("split", "pieces-between-separators", r, want,
                 lambda: "empty-separator" if ssep == "" else ("input-empty-or-separator" if x in ("", ssep) else ""))
        if ssep != "" and x not in ("", ssep):
            back = R.T("split", "split: sep | join: sep", x=x, sep=sep)
            R.expect("join", "join-undoes-split", back, x, "")
            R.expect("split", "join-undoes-split", back, x, "")
            n = R.T("split", "split: sep | size", x=x, sep=sep)
            R.expect("size", "split-count", n, x.count(ssep) + 1, "")
        else:
            n = R.T("split", "split: sep | size", x=x, sep=sep)
            R.expect("size", "split-count", n, len(want), "")
        R.expect("size", "length-of-string", R.both("size", x), len(x), "")
        R.expect("first", "nil-for-string", R.both("first", x), None, "")
        R.expect("last", "nil-for-string", R.both("last", x), None, "")
        return
    if mode == "join":
        sep = inp["sep"]
        flat = not is_nested(x)
        if sep == "$default":
            r = R.both("join", x)
            ssep = " "
        else:
            r = R.both("join", x, sep)
            ssep = lstr(sep)
        want_s = ssep.join(lstr(e) for e in x)
        R.expect("join", "items-stringified-and-separated", r, want_s,
                 lambda: "" if isinstance(sep, str) else
                 "separator-" + {"true": "bool", "false": "bool"}.get(value_class(sep), value_class(sep)))
        # split undoes join when no piece contains the separator (and outside the documented exception)
        pieces = [lstr(e) for e in x]
        if flat and ssep and isinstance(sep, str) and sep != "$default" and all(ssep not in p for p in pieces) and want_s not in ("", ssep) \
                and _split_ref(want_s, ssep) == pieces:
            back = R.T("join", "join: sep | split: sep", x=x, sep=sep)
            R.expect("split", "split-undoes-join", back, pieces, "")
        R.expect("size", "length-of-array", R.both("size", x), len(x), "")
        R.expect("first", "first-element", R.both("first", x), x[0] if x else None, "")
        R.expect("last", "last-element", R.both("last", x), x[-1] if x else None, "")
        return
    if mode == "slice":
        start, length = inp["start"], inp["length"]
        E = x if isinstance(x, (str, list)) else str(x)
        st = _int_arg(start)
        ln = 1 if length == "$default" else _int_arg(length)
        if st < -len(E):
            return  # start before the beginning: not documented
        r = R.both("slice", x, start) if length == "$default" else R.both("slice", x, start, length)
        cl = "negative-length" if ln < 0 else \
            ("array" if isinstance(x, list) else "string") + (":bigint" if max(abs(st), abs(ln)) > 2**53 else "")
        R.expect("slice", "subsequence-from-start-of-length", r, _slice_ref(E, st, ln), cl)
        if isinstance(x, (str, list)) and 0 <= st:
            # list algebra: slice(0, n) ++ slice(n, len) == x
            a = R.T("slice", "slice: 0, n", x=x, n=min(st, len(x)))
            b = R.T("slice", "slice: n, m", x=x, n=min(st, len(x)), m=len(x) + 1)
            if a.ok and b.ok:
                R.law("slice", "prefix-plus-suffix-is-input", skey(jn(a.value + b.value)) == skey(jn(x)), "",
                      {"prefix": a.value, "suffix": b.value})
        R.expect("size", "length", R.both("size", x), len(x) if isinstance(x, (str, list)) else 0, "")
        return
    # ends: first / last / size / concat
    y = inp["y"]
    if isinstance(x, list):
        R.expect("first", "first-element", R.both("first", x), x[0] if x else None, "")
        R.expect("last", "last-element", R.both("last", x), x[-1] if x else None, "")
        R.expect("size", "length-of-array", R.both("size", x), len(x), "")
        want_c = flatten(x) + list(y)
    elif isinstance(x, str):
        R.expect("first", "nil-for-string", R.both("first", x), None, "")
        R.expect("last", "nil-for-string", R.both("last", x), None, "")
        R.expect("size", "length-of-string", R.both("size", x), len(x), "")
        want_c = list(x) + list(y)
    elif isinstance(x, dict):
        R.expect("first", "first-pair-of-hash", R.both("first", x), list(next(iter(x.items()))) if x else None, "")
        R.expect("last", "nil-for-hash", R.both("last", x), None, "")
        R.expect("size", "length-of-hash", R.both("size", x), len(x), "")
        want_c = [x] + list(y)
    else:
        R.expect("first", "nil-for-number", R.both("first", x), None, "")
        R.expect("last", "nil-for-number", R.both("last", x), None, "")
        R.expect("size", "zero-for-number", R.both("size", x), 0, "")
        want_c = [x] + list(y)
    c = R.both("concat", x, y)
    R.expect("concat", "flattened-input-then-argument", c, want_c,
             lambda: "nested-input" if is_nested(x) else value_class(x))
    n = R.T("concat", "concat: y | size", x=x, y=y)
    R.expect("concat", "size-is-additive", n, len(want_c), "")
    if isinstance(x, list) and not is_nested(x):
        e = R.T("concat", "concat: e", x=x, e=[])
        R.expect("concat", "empty-array-is-neutral", e, x, "")
        cf = R.T("concat", "concat: y | first", x=x, y=y)
        R.expect("first", "first-of-concat", cf, (x + y)[0] if (x + y) else None, "")
        cl2 = R.T("concat", "concat: y | last", x=x, y=y)
        R.expect("last", "last-of-concat", cl2, (x + y)[-1] if (x + y) else None, "")
    # a non-array argument is an error (CTS), never a foreign exception
    bad = R.both("concat", x, 5, cls="non-array-argument")
    if bad.kind != "foreign":
        R.law("concat", "non-array-argument-is-an-error", bad.kind == "err", "", {"got": bad.brief()})


def _split_ref(s: str, sep: str) -> list[str]:
    out = []
    i = 0
    while True:
        j = s.find(sep, i)
        if j < 0:
            out.append(s[i:])
            return out
        out.append(s[i:j])
        i = j + len(sep)


# ---------------------------------------------------------------------------
# arrays that come out of other filters: the engine's nil-like values mixed
# ---------------------------------------------------------------------------
#
# map documents nil for a missing property (filter_reference.md map/compact; CTS "map,
# missing property"), an explicit null property is nil too, and an undefined variable in an
# array literal is nil as far as a template can tell (nil == undefined).  However such a nil
# is represented inside the engine, uniq / compact / sort / concat must treat them as one
# value: uniq leaves no two equal items, is idempotent, its size does not depend on the
# order of the input, and commutes with sorting as far as the set of values goes; compact
# removes all of them.

PIPE_VALUES = ["news", "sport", "a", "", 2, 3, 10**20, "2"]
LOOP = ("[{% for v in r %}{% if v == nil %}null{% else %}{{ v | json }}{% endif %}"
        "{% unless forloop.last %},{% endunless %}{% endfor %}]")


def gen_pipeline(rng: random.Random, i: int) -> dict[str, Any]:
    vals = rng.sample(PIPE_VALUES, rng.randint(1, 3))
    x = []
    for j in range(rng.randint(0, 7)):
        c = rng.random()
        h: dict[str, Any] = {"title": "p%d" % j}
        if c < 0.3:
            h["k"] = None  # explicit nil
        elif c < 0.6:
            pass  # missing
        else:
            h["k"] = rng.choice(vals)
        x.append(h)
    y = [rng.choice([None, None] + vals) for _ in range(rng.randint(0, 3))]
    lit = [rng.choice(("nosuch_a", "nosuch_b", "nv", "s0", "s1", "x[0].k", "x[1].k", "x[9].k")) for _ in range(rng.randint(1, 6))]
    return {"mode": "pipeline", "x": x, "y": y, "lit": lit, "s": [rng.choice(vals), rng.choice(vals)],
            "pseed": rng.randrange(10**6)}


def _render_loop(R: Runner, owner: str, assign_expr: str, data: dict[str, Any], cls: str = "") -> Any:
    """`{% assign r = <expr> %}` then the elements of r (nil-likes printed as null)."""
    import json as _json

    from .c19_lib import Res
    from .c19_lib import skey as _skey

    src = "{% assign r = " + assign_expr + " %}" + LOOP + "|{{ r | size }}"
    before = _skey(data)
    res = R.eng.render(src, data)
    if res.ok:
        try:
            body, _, size = res.value.rpartition("|")
            res = Res("ok", {"items": _json.loads(body), "size": int(size)})
        except ValueError:
            res = Res("foreign", None, "UndecodableOutput", res.value[:200])
    if R.recording:
        R.ctx.count("template_applications")
        R.ctx.count("filter_output_pipelines")
    return R._guard(owner, res, before, data, cls, "template:" + assign_expr)


def _no_two_equal(items: list[Any]) -> bool:
    return not any(leq(a, b) for i, a in enumerate(items) for b in items[i + 1:])


def _ms(items: list[Any]) -> list[str]:
    return sorted(repr(skey(e)) for e in items)


@unit("pipeline", (), gen_pipeline)
def case_pipeline(R: Runner, inp: dict[str, Any]) -> None:
    x, y, lit, s = inp["x"], inp["y"], inp["lit"], inp["s"]
    px = _shuffled(x, inp["pseed"])
    mapped = [h.get("k") for h in x]
    base = {"x": x, "y": y, "nv": None, "s0": s[0], "s1": s[1]}
    sources: list[tuple[str, str, list[Any], str | None]] = [
        ("map-stringkey", "x | map: 'k'", mapped, "px | map: 'k'"),
        ("map-lambda", "x | map: i => i.k", mapped, "px | map: i => i.k"),
        ("map-then-concat", "x | map: 'k' | concat: y", mapped + list(y), "px | map: 'k' | concat: y"),
        ("concat-of-two-maps", "y | concat: x | map: i => i.k", [None] * len(y) + mapped, None),
    ]
    # array literal mixing undefined variables, explicit nil and values
    env = {"nosuch_a": None, "nosuch_b": None, "nv": None, "s0": s[0], "s1": s[1],
           "x[0].k": x[0].get("k") if len(x) > 0 else None, "x[1].k": x[1].get("k") if len(x) > 1 else None,
           "x[9].k": None}
    if len(lit) >= 2:
        sources.append(("array-literal", ", ".join(lit), [env[n] for n in lit], ", ".join(reversed(lit))))
    for name, expr, ref, perm_expr in sources:
        data = dict(base, px=px)
        plain = _render_loop(R, "map" if name.startswith("map") else "concat", expr, data, cls=name)
        if plain.ok:
            R.law("map" if "map" in name else "concat", "nil-for-missing-explicit-nil-and-undefined",
                  skey(plain.value["items"]) == skey(jn(ref)), name, {"expr": expr, "want": jn(ref), "got": plain.value})
        u = _render_loop(R, "uniq", expr + " | uniq", data, cls=name)
        if not u.ok:
            if u.kind != "foreign":
                R.law("uniq", "total-on-filter-output", False, name, {"expr": expr, "got": u.brief()})
            continue
        items = u.value["items"]
        R.law("uniq", "no-two-equal-items", _no_two_equal(items), name, {"expr": expr + " | uniq", "got": items})
        R.law("uniq", "first-of-each-value-in-order", skey(items) == skey(jn(_classes(ref, lambda e: e))), name,
              {"expr": expr + " | uniq", "want": jn(_classes(ref, lambda e: e)), "got": items})
        R.law("uniq", "size-matches-items", u.value["size"] == len(items), name, {"got": u.value})
        uu = _render_loop(R, "uniq", expr + " | uniq | uniq", data, cls=name)
        if uu.ok:
            R.law("uniq", "idempotent", skey(uu.value) == skey(u.value), name,
                  {"expr": expr + " | uniq | uniq", "once": u.value, "twice": uu.value})
        if perm_expr:
            up = _render_loop(R, "uniq", perm_expr + " | uniq", data, cls=name)
            if up.ok:
                R.law("uniq", "size-independent-of-input-order", up.value["size"] == u.value["size"], name,
                      {"expr": expr + " | uniq | size", "input": u.value, "permuted": up.value})
        # uniq o sort == sort o uniq as sets (sort_natural is total on mixed values)
        a = _render_loop(R, "uniq", expr + " | sort_natural | uniq", data, cls=name)
        b = _render_loop(R, "uniq", expr + " | uniq | sort_natural", data, cls=name)
        if a.ok and b.ok:
            R.law("uniq", "commutes-with-sorting-as-sets", _ms(a.value["items"]) == _ms(b.value["items"]), name,
                  {"expr": expr, "sort_then_uniq": a.value["items"], "uniq_then_sort": b.value["items"]})
        # compact removes every nil-like value, before or after uniq
        c = _render_loop(R, "compact", expr + " | compact", data, cls=name)
        if c.ok:
            R.law("compact", "removes-every-nil-like-value", skey(c.value["items"]) == skey(jn([e for e in ref if e is not None])),
                  name, {"expr": expr + " | compact", "want": jn([e for e in ref if e is not None]), "got": c.value["items"]})
        cu = _render_loop(R, "compact", expr + " | compact | uniq", data, cls=name)
        uc = _render_loop(R, "compact", expr + " | uniq | compact", data, cls=name)
        if cu.ok and uc.ok:
            R.law("uniq", "commutes-with-compact", skey(cu.value) == skey(uc.value), name,
                  {"expr": expr, "compact_then_uniq": cu.value, "uniq_then_compact": uc.value})
        # selecting on the mapped values: nil-likes are never selected by truthiness
        if plain.ok:
            w = _render_loop(R, "where", expr + " | where: i => i", data, cls=name)
            if w.ok:
                R.law("where", "nil-like-values-are-falsy", skey(w.value["items"]) == skey(jn([e for e in ref if e is not None])),
                      name, {"expr": expr + " | where: i => i", "got": w.value["items"]})
