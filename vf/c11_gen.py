"""C11 purpose-built generator: template sets (root, partials in sub-directories, parents)
written through a position-recording writer, so that the place of every variable path,
filter name and tag markup is known independently of liquid2's lexer.

Nothing here imports liquid2.
"""

from __future__ import annotations

import random
from typing import Any

# ------------------------------------------------------------------ fragments with marks


class Frag:
    """Text plus marks relative to its start: paths (start, stop, segments, label) and
    filters (start, stop, name)."""

    __slots__ = ("s", "paths", "filters")

    def __init__(self, s: str = "", paths: list | None = None, filters: list | None = None):
        self.s = s
        self.paths = paths or []
        self.filters = filters or []

    def relabel(self, label: str) -> "Frag":
        self.paths = [(a, b, sg, label if lb == "plain" else lb) for a, b, sg, lb in self.paths]
        return self


def cat(*items: Any) -> Frag:
    buf: list[str] = []
    n = 0
    paths: list = []
    filters: list = []
    for it in items:
        if it is None:
            continue
        if isinstance(it, str):
            buf.append(it)
            n += len(it)
        else:
            paths += [(a + n, b + n, sg, lb) for a, b, sg, lb in it.paths]
            filters += [(a + n, b + n, nm) for a, b, nm in it.filters]
            buf.append(it.s)
            n += len(it.s)
    return Frag("".join(buf), paths, filters)


class Src:
    """One template under construction."""

    def __init__(self, name: str):
        self.name = name
        self.buf: list[str] = []
        self.n = 0
        self.paths: list = []
        self.filters: list = []
        self.tags: list = []
        self.after_comment = False

    def raw(self, s: str) -> None:
        self.buf.append(s)
        self.n += len(s)

    def frag(self, f: Frag | str | None) -> None:
        if f is None:
            return
        if isinstance(f, str):
            self.raw(f)
            return
        lab = "after-comment" if self.after_comment else None
        for a, b, sg, lb in f.paths:
            self.paths.append([a + self.n, b + self.n, sg, lab if (lab and lb == "plain") else lb])
        for a, b, nm in f.filters:
            self.filters.append([a + self.n, b + self.n, nm])
        self.raw(f.s)

    def text(self) -> str:
        return "".join(self.buf)

    def posmap(self) -> dict[str, Any]:
        return {"paths": self.paths, "filters": self.filters, "tags": self.tags}


# ----------------------------------------------------------------------------- data

GLOBALS = {
    "flag": "b", "ok": "b", "show": "b",
    "n": "i", "m": "i", "lim": "i",
    "s": "s", "title": "s", "who": "s",
    "xs": "a", "words": "a", "none": "a",
    "items": "o", "rows": "o",
    "h": "h", "page": "h", "user": "h",
}
WORDS = ["alpha", "Beta", "gamma", "x y", "Hello", "b", "a,b", ""]


def make_data(r: random.Random, variant: int) -> dict[str, Any]:
    """variant 0: everything rich/true; 1: everything empty/false; else random."""
    def flip(p: float = 0.5) -> bool:
        if variant == 0:
            return True
        if variant == 1:
            return False
        return r.random() < p

    def obj() -> dict[str, Any]:
        return {"k": r.choice([1, 2, 3]), "t": r.choice(WORDS), "ok": flip(),
                "tags": [r.choice(WORDS) for _ in range(r.randint(1, 2))] if flip(0.7) else []}

    def arr(gen: Any) -> list[Any]:
        if not flip(0.7):
            return []
        return [gen() for _ in range(r.randint(1, 3))]

    d: dict[str, Any] = {
        "flag": flip(), "ok": flip(), "show": flip(),
        "n": r.choice([0, 1, 2]), "m": r.choice([1, 2, 3]), "lim": r.choice([1, 2, 5]),
        "s": r.choice(WORDS), "title": r.choice(WORDS), "who": r.choice(["World", "you", ""]),
        "xs": arr(lambda: r.choice([0, 1, 2, 3, 7])),
        "words": arr(lambda: r.choice(WORDS)),
        "none": [],
        "items": arr(obj), "rows": arr(obj),
        "h": {"a": {"b": r.choice(WORDS), "c": r.choice([0, 1, 2])}, "list": arr(lambda: r.choice([1, 2, 3])),
              "idx": r.choice([0, 1]), "key": "a", "two words": "tw", "name": r.choice(WORDS),
              "tpl": None, "on": flip()},
        "page": {"title": r.choice(WORDS), "n": r.choice([0, 1, 4]), "items": arr(obj), "tpl": None,
                 "draft": flip()},
        "user": {"name": r.choice(WORDS), "admin": flip(), "langs": arr(lambda: r.choice(["en", "de"]))},
    }
    d.update({"f": r.choice([0.5, 2.25, -1.0]), "nothing": None, "grid": [[1, 2], [3]] if flip(0.7) else [[]],
              "pair": (r.choice([1, 2]), r.choice(WORDS))})
    if variant % 2 == 0:
        # user globals named like the names constructs may bind: a lookup that is NOT served by
        # the construct is then visible in the output as well as to the recording global layer
        d.update({"forloop": {"index": "G", "length": "G", "first": "G", "last": "G", "index0": "G",
                              "rindex": "G", "parentloop": {"index": "G"}},
                  "tablerowloop": {"col": "G", "row": "G", "index": "G", "col_first": "G", "last": "G"},
                  "args": ["G"], "kwargs": {"extra": "G"}, "block": {"super": "G"}, "count": 7})
    if variant >= 3:
        for k in r.sample(sorted(d), r.choice([0, 1, 2])):
            del d[k]
    return d


# ------------------------------------------------------------------------- generator

ASSIGN_NAMES = ["v1", "v2", "tmp", "acc"]
LOOP_VARS = ["i", "x", "it", "row", "el"]
LAMBDA_PARAMS = ["el", "it", "z", "e"]
COUNTERS = ["c1", "c2"]
PARTIAL_DIRS = ["", "", "snippets/", "snippets/sub/", "parts/"]
SHARED_BASES = ["item", "card", "row"]
SHARED_DIRS = ["", "a/", "b/", "a/b/", "cards/", "rows/", "snippets/"]
PARTIAL_EXT = ["", ".html", ".liquid"]


class Opts:
    def __init__(self, **kw: Any):
        self.max_depth = 3
        self.max_items = 6
        self.inherit = 0.3  # probability of an extends chain
        self.dynamic = False  # a dynamic partial name in the root
        self.known_implicit = 0.04  # `t` filter message variables etc. (implicit context.resolve lookups)
        self.comments = 0.18
        self.leak_reader = 0.45  # read a block-bound name again after its block
        self.no_for = False  # no `for` tag anywhere: nothing in the set binds forloop for certain
        self.__dict__.update(kw)


class G:
    def __init__(self, rng: random.Random, opts: Opts | None = None):
        self.r = rng
        self.o = opts or Opts()
        self.templates: dict[str, Src] = {}
        self.binders: set[str] = set()
        self.macros: list[tuple[str, list[str]]] = []
        self.n_partials = 0
        self.features: set[str] = set()
        self.dyn_names: list[tuple[str, str]] = []  # (data root, partial name) for dynamic includes
        self._ts_quote: str | None = None
        self.partial_names: list[str] = []
        self._building: set[str] = set()
        self._leak: str | None = None
        self.root_name = "index"

    # ------------------------------------------------------------------- paths
    def _name_seg(self, name: str) -> tuple[str, Any]:
        r = self.r
        ident = name.replace("_", "a").isalnum() and not name[0].isdigit()
        c = r.random()
        if ident and c < 0.68:
            return "." + name, name
        if ident and c < 0.71:
            return ". " + name, name
        q = "'" if r.random() < 0.6 else '"'
        if self._ts_quote is not None:
            q = '"' if self._ts_quote == "'" else "'"
        if c < 0.93:
            return f"[{q}{name}{q}]", name
        return f"[ {q}{name}{q} ]", name

    def path_frag(self, spec: tuple[str, list[Any]], label: str = "plain") -> Frag:
        """spec = (root, [("n", name) | ("i", int) | ("p", spec)])"""
        root, segs = spec
        parts: list[Any] = [root]
        exp: list[Any] = [root]
        for kind, v in segs:
            if kind == "n":
                txt, e = self._name_seg(v)
                parts.append(txt)
                exp.append(e)
            elif kind == "i":
                parts.append(f"[{v}]" if self.r.random() < 0.9 else f"[ {v} ]")
                exp.append(v)
            else:
                inner = self.path_frag(v, "nested")
                parts.append(cat("[", inner, "]"))
                exp.append(inner.paths[0][2])
        f = cat(*parts)
        f.paths.insert(0, (0, len(f.s), exp, label))
        return f

    def deep_index(self, k: int) -> tuple[str, list[Any]]:
        """An (integer-valued) path whose bracketed selectors nest k levels deep:
        xs[h.list[xs[h.idx]]] ..."""
        r = self.r
        if k <= 0:
            return r.choice([("h", [("n", "idx")]), ("n", []), ("h", [("n", "a"), ("n", "c")]), ("m", [])])
        inner = ("p", self.deep_index(k - 1))
        return r.choice([("xs", [inner]), ("h", [("n", "list"), inner]), ("page", [("n", "items"), inner, ("n", "k")]),
                         ("grid", [inner, ("i", 0)])])

    def scoped(self, scope: list[tuple[str, str]], ty: str) -> tuple[str, str] | None:
        c = [(n, t) for n, t in scope if t == ty or ty == "any"]
        return self.r.choice(c) if c else None

    def path_spec(self, ty: str, scope: list[tuple[str, str]], loop: str | None) -> tuple[str, list[Any]]:  # noqa: PLR0911, PLR0912
        r = self.r
        if r.random() < 0.04:
            return r.choice([("nosuch", []), ("h", [("n", "nosuch"), ("n", "deeper")]), ("ghost", [("i", 0)])])
        if ty == "any":
            ty = r.choice(["b", "i", "s", "s", "a", "o", "h", "x"])
        if r.random() < 0.4:
            sv = self.scoped(scope, ty)
            if sv:
                return (sv[0], [])
        if r.random() < 0.25:
            el = self.scoped(scope, "x")
            if el and ty in ("i", "s", "b", "a"):
                return (el[0], {"i": [("n", "k")], "s": [("n", "t")], "b": [("n", "ok")],
                                "a": [("n", "tags")]}[ty])
        idx = r.choice([("i", 0), ("i", 0), ("i", 1), ("i", -1), ("p", ("h", [("n", "idx")])), ("p", ("n", []))])
        if r.random() < 0.2:
            k = r.choice([1, 1, 2, 2, 3])
            idx = ("p", self.deep_index(k))  # selector nesting depth k + 1
            self.features.add("deep-selector")
            self.features.add(f"selector-depth:{k + 1}")
        if ty == "i":
            opts = [("n", []), ("m", []), ("lim", []), ("h", [("n", "a"), ("n", "c")]), ("h", [("n", "idx")]),
                    ("xs", [idx]), ("xs", [("n", "size")]), ("items", [idx, ("n", "k")]), ("page", [("n", "n")]),
                    ("h", [("n", "list"), idx]), ("xs", [("n", "first")]), ("items", [("n", "size")])]
            if loop == "for":
                opts += [("forloop", [("n", r.choice(["index", "index0", "rindex", "length"]))])] * 3
                opts += [("forloop", [("n", "parentloop"), ("n", "index")])]
            if loop == "tablerow":
                opts += [("tablerowloop", [("n", r.choice(["col", "row", "index"]))])] * 3
            return r.choice(opts)
        if ty == "s":
            return r.choice([
                ("s", []), ("title", []), ("who", []), ("h", [("n", "a"), ("n", "b")]), ("h", [("n", "two words")]),
                ("h", [("p", ("h", [("n", "key")])), ("n", "b")]), ("words", [idx]), ("words", [("n", "first")]),
                ("items", [idx, ("n", "t")]), ("user", [("n", "name")]), ("h", [("n", "name")]),
                ("page", [("n", "title")]), ("items", [("i", 0), ("n", "tags"), ("i", 0)]),
                ("words", [("n", "last")]), ("page", [("n", "items"), ("p", ("h", [("n", "idx")])), ("n", "t")]),
            ])
        if ty == "b":
            opts = [("flag", []), ("ok", []), ("show", []), ("items", [idx, ("n", "ok")]), ("user", [("n", "admin")]),
                    ("h", [("n", "on")]), ("page", [("n", "draft")])]
            if loop == "for":
                opts += [("forloop", [("n", r.choice(["first", "last"]))])] * 2
            if loop == "tablerow":
                opts += [("tablerowloop", [("n", r.choice(["col_first", "last"]))])]
            return r.choice(opts)
        if ty == "a":
            return r.choice([("xs", []), ("words", []), ("none", []), ("h", [("n", "list")]),
                             ("items", [idx, ("n", "tags")]), ("user", [("n", "langs")])])
        if ty == "o":
            return r.choice([("items", []), ("rows", []), ("page", [("n", "items")])])
        if ty == "h":
            return r.choice([("h", []), ("h", [("n", "a")]), ("page", []), ("user", []),
                             ("h", [("p", ("h", [("n", "key")]))])])
        return r.choice([("items", [idx]), ("items", [("n", "first")]), ("rows", [idx]), ("rows", [("n", "last")]),
                         ("page", [("n", "items"), idx])])

    WIDE = ["h", "page", "n", "f", "s", "flag", "nothing", "nosuch", "grid", "none", "pair", "xs", "items",
            "user"]

    def wide(self, scope: list, loop: str | None) -> Frag:
        """A value of any kind: mapping, int, float, string, bool, nil, undefined, nested
        list, empty list, tuple, list, range."""
        r = self.r
        self.features.add("wide-kind-operand")
        if r.random() < 0.12:
            return cat("(", self.lit("i"), "..", self.path("i", scope, loop, "range-stop"), ")")
        if r.random() < 0.15:
            return self.path_frag(("h", [("n", r.choice(["a", "list", "name", "idx", "nosuch"]))]))
        return self.path_frag((r.choice(self.WIDE), []))

    def path(self, ty: str, scope: list, loop: str | None, label: str = "plain") -> Frag:
        return self.path_frag(self.path_spec(ty, scope, loop), label)

    # -------------------------------------------------------------- expressions
    def strlit(self, s: str | None = None) -> str:
        s = self.r.choice(["a", "x y", "-", ", ", "Hello", "", "k", "t", "é"]) if s is None else s
        q = "'" if self.r.random() < 0.6 else '"'
        if self._ts_quote is not None:
            q = '"' if self._ts_quote == "'" else "'"
        return q + s + q

    def lit(self, ty: str) -> str:
        r = self.r
        if ty == "i":
            return str(r.choice([0, 1, 2, 3, 10, -1]))
        if ty == "s":
            return self.strlit()
        if ty == "b":
            return r.choice(["true", "false"])
        return r.choice(["nil", "1", "'lit'", "true", "2.5"])

    def prim(self, ty: str, scope: list, loop: str | None) -> Frag:
        r = self.r
        c = r.random()
        if ty in ("o", "h", "x") or c < 0.68:
            return self.path(ty, scope, loop)
        if ty == "a":
            self.features.add("range")
            a = self.path("i", scope, loop, "range-start") if r.random() < 0.5 else Frag(self.lit("i"))
            b = self.path("i", scope, loop, "range-stop") if r.random() < 0.6 else Frag(self.lit("i"))
            return cat("(", a, "..", b, ")")
        if ty == "s" and c < 0.82 and self._ts_quote is None:
            return self.tstring(scope, loop)
        if ty == "any":
            ty = r.choice(["i", "s", "b", "nil"])
        return Frag(self.lit(ty))

    def tstring(self, scope: list, loop: str | None) -> Frag:
        r = self.r
        self.features.add("template-string")
        q = "'" if r.random() < 0.5 else '"'
        parts: list[Any] = [q, r.choice(["", "a ", "[", "Hi "])]
        self._ts_quote = q
        try:
            for _ in range(r.randint(1, 2)):
                sp = " " if r.random() < 0.4 else ""
                inner = self.filtered(r.choice(["s", "i", "any"]), scope, loop, max_filters=1, allow_tstring=False)
                inner.relabel("template-string")
                parts += ["${", sp, inner, sp, "}", r.choice(["", " ", "-", "]"])]
        finally:
            self._ts_quote = None
        parts.append(q)
        return cat(*parts)

    def lam(self, scope: list, loop: str | None, want: str) -> Frag:
        """A lambda over object items; want = 'value' | 'cond'."""
        r = self.r
        self.features.add("lambda")
        p = r.choice(LAMBDA_PARAMS) if r.random() < 0.9 else r.choice(["n", "s", "who"])  # shadows a global
        params = [p]
        if r.random() < 0.25:
            params.append(r.choice(["idx", "j"]))
        self.binders.update(params)
        inner_scope = scope + [(p, "x")] + [(q, "i") for q in params[1:]]
        head = p if len(params) == 1 and r.random() < 0.8 else "(" + ", ".join(params) + ")"
        el = lambda segs: self.path_frag((p, segs), "lambda-body")  # noqa: E731
        if want == "value":
            c = r.random()
            if c < 0.5:
                body: Frag = el([("n", r.choice(["k", "t", "ok"]))])
            elif c < 0.7:
                body = el([("n", "tags"), ("i", 0)])
            elif c < 0.85:
                body = el([("p", ("h", [("n", "key")]))])  # el[h.key]: nested global inside the lambda
            else:
                body = el([])
        else:
            c = r.random()
            other = self.prim("i", inner_scope, loop).relabel("lambda-body")
            if c < 0.4:
                body = cat(el([("n", "k")]), " ", r.choice(["==", "!=", "=="]), " ", other)
            elif c < 0.6:
                body = el([("n", "ok")])
            elif c < 0.8:
                body = cat(el([("n", "t")]), " contains ", self.prim("s", inner_scope, loop).relabel("lambda-body"))
            else:
                body = cat(el([("n", "k")]), " != ", other, r.choice([" and ", " or "]), el([("n", "ok")]))
            if len(params) > 1 and r.random() < 0.5:
                body = cat(body, " and ", self.path_frag((params[1], []), "lambda-body"), " < 3")
        return cat(head, " => ", body)

    def filt(self, name: str, *args: Any, kwargs: list[tuple[str, Any]] | None = None) -> Frag:
        r = self.r
        pipe = r.choice([" | ", " | ", " | ", " |", "| ", " |  "])
        parts: list[Any] = [pipe, Frag(name, [], [(0, len(name), name)])]
        allargs: list[Any] = list(args)
        for k, v in kwargs or []:
            allargs.append(cat(k, ": " if r.random() < 0.8 else " = ", v))
        if allargs:
            parts.append(": " if r.random() < 0.9 else ":")
            for i, a in enumerate(allargs):
                if i:
                    parts.append(", " if r.random() < 0.9 else ",")
                parts.append(a)
        return cat(*parts)

    def chain(self, ty: str, scope: list, loop: str | None, k: int) -> tuple[list[Frag], str]:
        """k filters applicable to a value of type ty; returns (filter frags, result type)."""
        r = self.r
        out: list[Frag] = []
        P = lambda t: self.prim(t, scope, loop)  # noqa: E731, N806
        for _ in range(k):
            if ty == "s":
                f = r.choice(["upcase", "downcase", "capitalize", "strip", "append", "prepend", "replace",
                              "default", "escape", "truncate", "size", "split", "remove", "url_encode"])
                if f in ("append", "prepend", "remove"):
                    out.append(self.filt(f, P("s")))
                elif f == "replace":
                    out.append(self.filt(f, self.strlit("a"), P("s")))
                elif f == "default":
                    out.append(self.filt(f, P("any"), kwargs=[("allow_false", P("b"))] if r.random() < 0.4 else None))
                elif f == "truncate":
                    out.append(self.filt(f, P("i") if r.random() < 0.3 else "8"))
                elif f == "split":
                    out.append(self.filt(f, self.strlit(",")))
                    ty = "a"
                elif f == "size":
                    out.append(self.filt(f))
                    ty = "i"
                else:
                    out.append(self.filt(f))
            elif ty == "i":
                f = r.choice(["plus", "minus", "times", "abs", "at_least", "at_most", "modulo", "append", "default"])
                if f == "abs":
                    out.append(self.filt(f))
                elif f == "modulo":
                    out.append(self.filt(f, "3"))
                elif f == "append":
                    out.append(self.filt(f, P("s")))
                    ty = "s"
                elif f == "default":
                    out.append(self.filt(f, P("i")))
                else:
                    out.append(self.filt(f, P("i")))
            elif ty == "b":
                out.append(self.filt("default", P("any"), kwargs=[("allow_false", P("b"))]))
                ty = "any"
            elif ty == "a":
                f = r.choice(["join", "first", "last", "size", "reverse", "uniq", "compact", "concat", "sort", "sum",
                              "map", "where"])
                if f == "join":
                    out.append(self.filt(f, P("s")) if r.random() < 0.8 else self.filt(f))
                    ty = "s"
                elif f in ("first", "last"):
                    out.append(self.filt(f))
                    ty = "any"
                elif f in ("size", "sum"):
                    out.append(self.filt(f))
                    ty = "i"
                elif f == "concat":
                    out.append(self.filt(f, self.path("a", scope, loop)))
                elif f == "map":
                    out.append(self.filt(f, cat("e => ", self.path_frag(("e", []), "lambda-body"))))
                    self.binders.add("e")
                elif f == "where":
                    out.append(self.filt(f, cat("e => ", self.path_frag(("e", []), "lambda-body"), " != ", P("any").relabel("lambda-body"))))
                    self.binders.add("e")
                else:
                    out.append(self.filt(f))
            elif ty == "o":
                f = r.choice(["map", "map", "where", "where", "reject", "find", "has", "size", "sum", "first",
                              "reverse", "sort", "find_index", "compact", "uniq"])
                if f == "map":
                    if r.random() < 0.35:
                        out.append(self.filt(f, self.strlit(r.choice(["k", "t"]))))
                    else:
                        out.append(self.filt(f, self.lam(scope, loop, "value")))
                    ty = "a"
                elif f in ("where", "reject", "find", "has", "find_index"):
                    c = r.random()
                    if c < 0.25:
                        out.append(self.filt(f, self.strlit("k"), P("i")))
                    elif c < 0.4:
                        out.append(self.filt(f, self.strlit("ok")))
                    else:
                        out.append(self.filt(f, self.lam(scope, loop, "cond")))
                    ty = {"where": "o", "reject": "o", "find": "x", "has": "b", "find_index": "i"}[f]
                elif f == "sum":
                    out.append(self.filt(f, self.strlit("k")) if r.random() < 0.5 else self.filt(f, self.lam(scope, loop, "value")))
                    ty = "i"
                elif f == "size":
                    out.append(self.filt(f))
                    ty = "i"
                elif f == "first":
                    out.append(self.filt(f))
                    ty = "x"
                elif f == "sort":
                    out.append(self.filt(f, self.strlit("k")))
                elif f in ("compact", "uniq"):
                    out.append(self.filt(f, self.strlit("t")) if r.random() < 0.5 else self.filt(f, self.lam(scope, loop, "value")))
                else:
                    out.append(self.filt(f))
            elif ty in ("h", "x"):
                f = r.choice(["size", "default", "default", "json"])
                if f == "default":
                    out.append(self.filt(f, P("any")))
                else:
                    out.append(self.filt(f))
                    ty = "s" if f == "json" else "i"
            else:  # any
                f = r.choice(["default", "default", "size", "append", "upcase"])
                if f == "default":
                    out.append(self.filt(f, P("any")))
                elif f == "append":
                    out.append(self.filt(f, P("s")))
                    ty = "s"
                else:
                    out.append(self.filt(f))
                    ty = {"json": "s", "size": "i", "upcase": "s"}[f]
        return out, ty

    def filtered(self, ty: str, scope: list, loop: str | None, max_filters: int = 3,
                 allow_tstring: bool = True) -> Frag:
        """An expression (primitive + filters); ty is the type of the *left* value."""
        r = self.r
        if ty == "any":
            ty = r.choice(["s", "s", "i", "b", "a", "o", "h", "x"])
        left = self.prim(ty, scope, loop) if allow_tstring else (
            self.path(ty, scope, loop) if r.random() < 0.8 or ty in ("o", "h", "x", "a") else Frag(self.lit(ty)))
        k = r.choice([0, 0, 1, 1, 2, 3])
        fs, _ = self.chain(ty, scope, loop, min(k, max_filters))
        if fs:
            self.features.add("filter")
        return cat(left, *fs)

    def expr(self, scope: list, loop: str | None, ty: str = "any") -> Frag:
        """Output-position expression: filtered, ternary, array literal."""
        r = self.r
        c = r.random()
        if c < 0.16:
            self.features.add("ternary")
            parts: list[Any] = [self.filtered(ty, scope, loop, 2), " if ", self.cond(scope, loop, 1)]
            if r.random() < 0.7:
                parts += [" else ", self.filtered(ty, scope, loop, 2)]
            if r.random() < 0.45:
                tail, _ = self.chain("any", scope, loop, r.choice([1, 1, 2]))
                self.features.add("ternary-tail")
                # ` || f: x | g`
                first = tail[0]
                k = first.s.index("|")
                head = cat(" ||", Frag(first.s[k + 1:], [(a - k - 1, b - k - 1, sg, lb) for a, b, sg, lb in first.paths],
                                        [(a - k - 1, b - k - 1, nm) for a, b, nm in first.filters]))
                parts += [head, *tail[1:]]
            return cat(*parts)
        if c < 0.2:
            self.features.add("array-literal")
            items = [self.prim(r.choice(["i", "s", "any"]), scope, loop) for _ in range(r.randint(2, 3))]
            parts = [items[0]]
            for it in items[1:]:
                parts += [", ", it]
            if r.random() < 0.6:
                parts.append(self.filt("join", self.prim("s", scope, loop)))
            return cat(*parts)
        return self.filtered(ty, scope, loop)

    def cond(self, scope: list, loop: str | None, depth: int = 0) -> Frag:
        r = self.r
        c = r.random()
        P = lambda t: self.prim(t, scope, loop)  # noqa: E731, N806
        if depth < 2 and c < 0.3:
            k = r.random()
            a, b = self.cond(scope, loop, depth + 1), self.cond(scope, loop, depth + 1)
            if k < 0.4:
                return cat(a, " and ", b)
            if k < 0.75:
                return cat(a, " or ", b)
            if k < 0.88:
                return cat("not (", a, ")")
            return cat("(", a, " or ", b, ") and ", self.cond(scope, loop, 2))
        if c < 0.55:
            return self.path(r.choice(["b", "b", "any", "a", "o", "s"]), scope, loop)
        if c < 0.85:
            ty = r.choice(["i", "i", "s"])
            if ty == "i" and r.random() < 0.4:
                lhs = self.path_frag((r.choice(["n", "m", "lim"]), []))
                return cat(lhs, " ", r.choice(["<", ">", "<=", ">="]), " ", self.lit("i"))
            op = r.choice(["==", "!=", "<>"]) if ty == "i" else r.choice(["==", "!="])
            rhs: Any = P(ty)
            if r.random() < 0.15:
                op, rhs = r.choice(["==", "!="]), r.choice(["empty", "blank", "nil"])
            return cat(self.path(ty, scope, loop), " ", op, " ", rhs)
        if r.random() < 0.5:
            return cat(self.path(r.choice(["a", "s"]), scope, loop), " contains ", P(r.choice(["s", "i"])))
        return cat(P(r.choice(["s", "i"])), " in ", self.path("a", scope, loop))

    # --------------------------------------------------------------- statements
    # items: ("T", name, frag|None, reported) | ("O", frag) | ("X", text) | ("C", kind, text)
    #        | ("R", text) | ("L", [items], close_same_line)

    def items(self, depth: int, scope: list, fl: dict[str, Any], n: int | None = None) -> list[Any]:
        r = self.r
        n = n if n is not None else r.randint(1, max(1, self.o.max_items - 2 * depth))
        out: list[Any] = []
        scope = list(scope)
        for _ in range(n):
            if r.random() < self.o.comments:
                out.append(self.comment(fl))
            self._leak = None
            out += self.stmt(depth, scope, fl)
            leak = self._leak
            self._leak = None
            if leak and r.random() < self.o.leak_reader:
                # a later sibling reads, from the global namespace, a name that an earlier
                # sibling bound only inside its block / partial
                self.features.add("reader-after-binder")
                ref = self.path_frag((leak, []), "reader-after-binder")
                out.append(("T", "echo", ref, True) if fl.get("line") else ("O", ref))
        return out

    def comment(self, fl: dict[str, Any]) -> Any:
        r = self.r
        self.features.add("comment")
        if fl.get("line"):
            return ("C", "line", r.choice([" note", " {{ x }}", "", " a | b"]))
        k = r.choice(["hash", "hash", "inline", "block"])
        self.features.add("comment:" + k)
        if k == "hash":
            return ("C", "hash", r.choice([" note ", " {{ ghost }} ", " {% if %} ", " multi\nline ", " é·"]))
        if k == "inline":
            return ("C", "inline", r.choice([" note ", " {{ ghost }} ", " a\n# b ", " é "]))
        return ("C", "block", r.choice([" note ", "{{ ghost }}", "{% assign ghost = 1 %}", "\n x \n"]))

    def bind_name(self, pool: list[str], ty: str) -> str:
        r = self.r
        if r.random() < 0.08:
            cands = [n for n, t in GLOBALS.items() if t == ty] or list(GLOBALS)
            name = r.choice(cands)  # shadows a global
        else:
            name = r.choice(pool)
        self.binders.add(name)
        return name

    def stmt(self, depth: int, scope: list, fl: dict[str, Any]) -> list[Any]:  # noqa: PLR0911, PLR0912, PLR0915
        r = self.r
        loop = fl.get("loop")
        line = fl.get("line", False)
        deep = depth >= self.o.max_depth
        kinds = ["out"] * 7 + ["assign"] * 3 + ["incr", "cycle", "capture", "echo"]
        if not line:
            kinds += ["text"] * 4 + ["raw"]
        if not deep:
            kinds += ["if"] * 4 + ["for"] * 4 + ["case"] * 2 + ["with", "unless"]
            if not line:
                kinds += ["translate", "liquid", "liquid"]
                if not fl.get("in_tablerow"):
                    kinds += ["tablerow"]
            if self.n_partials < 4 and not fl.get("macro"):
                kinds += ["partial"] * 3
            if self.n_partials < 6 and not fl.get("macro") and depth <= 1:
                kinds += ["scoped-partial"] * 3
            if not fl.get("isolated") and not fl.get("macro") and depth <= 1 and not line:
                kinds += ["macro"]
        if loop and fl.get("can_break"):
            kinds += ["break"]
        if self.macros and not fl.get("macro"):
            kinds += ["call"] * 2
        if self.o.no_for:
            kinds = [x for x in kinds if x not in ("for", "break")]
            if not deep and self.n_partials < 6:
                kinds += ["partial"] * 4
        k = r.choice(kinds)
        self.features.add(k)
        E = lambda ty="any": self.expr(scope, loop, ty)  # noqa: E731, N806
        P = lambda ty: self.prim(ty, scope, loop)  # noqa: E731, N806
        if k == "text":
            return [("X", r.choice(["a", " ", "\n", "text ", "<p>", "é·", " - ", "\n  ", "}", "{ x }", "%"]))]
        if k == "raw":
            return [("R", r.choice(["{{ ghost }}", " {% if ghost %} ", "r", "{# x #}"]))]
        if k == "out":
            e = E()
            if r.random() < self.o.known_implicit:
                self.features.add("implicit-resolve")
                nm = r.choice(["who", "title"])
                e = cat(self.strlit(f"Hi %({nm})s"), self.filt(r.choice(["t", "gettext"])))
            elif r.random() < 0.03:
                self.features.add("t-filter")
                e = cat(self.strlit("Hi %(you)s"), self.filt("t", kwargs=[("you", P("s"))]))
            if line:
                return [("T", "echo", e, True)]
            return [("O", e)]
        if k == "echo":
            return [("T", "echo", E(), True)]
        if k == "assign":
            ty = r.choice(["i", "s", "s", "b", "a", "o", "any"])
            e = self.expr(scope, loop, ty)
            name = self.bind_name(ASSIGN_NAMES, ty)
            scope.append((name, "any"))
            return [("T", "assign", cat(name, " = ", e), True)]
        if k == "capture":
            name = self.bind_name(ASSIGN_NAMES, "s")
            body = self.items(depth + 1, scope, fl, n=r.randint(1, 2))
            scope.append((name, "s"))
            return [("T", "capture", Frag(name), True), *body, ("T", "endcapture", None, False)]
        if k == "incr":
            name = r.choice(COUNTERS) if r.random() < 0.9 else "n"
            self.binders.add(name)
            return [("T", r.choice(["increment", "decrement"]), Frag(name), True)]
        if k == "cycle":
            its: list[Any] = []
            for i in range(r.randint(1, 3)):
                if i:
                    its.append(", ")
                its.append(self.wide(scope, loop) if r.random() < 0.25 else P(r.choice(["s", "i", "any"])))
            g = cat(self.strlit(r.choice(["g1", "g2"])), ": ") if r.random() < 0.3 else None
            return [("T", "cycle", cat(g, *its), True)]
        if k in ("if", "unless"):
            out: list[Any] = [("T", k, self.cond(scope, loop), True)]
            out += self.items(depth + 1, scope, fl)
            for _ in range(r.choice([0, 0, 1, 2])):
                out.append(("T", "elsif", self.cond(scope, loop), False))
                out += self.items(depth + 1, scope, fl)
            if r.random() < 0.5:
                out.append(("T", "else", None, False))
                out += self.items(depth + 1, scope, fl)
            out.append(("T", "end" + k, None, False))
            return out
        if k == "case":
            ty = r.choice(["i", "s"])
            out = [("T", "case", P(ty), True)]
            for _ in range(r.randint(1, 3)):
                vals: list[Any] = []
                for i in range(r.choice([1, 1, 2, 3])):
                    if i:
                        vals.append(r.choice([", ", ", ", " or "]))
                    vals.append(P(ty) if r.random() < 0.6 else self.lit(ty))
                out.append(("T", "when", cat(*vals), False))
                out += self.items(depth + 1, scope, fl)
            if r.random() < 0.6:
                out.append(("T", "else", None, False))
                out += self.items(depth + 1, scope, fl)
            out.append(("T", "endcase", None, False))
            return out
        if k in ("for", "tablerow"):
            ity = r.choice(["a", "a", "o", "o", "h"])
            var = self.bind_name(LOOP_VARS, "i")
            self.binders.add("forloop" if k == "for" else "tablerowloop")
            head: list[Any] = [var, " in ", self.wide(scope, loop) if r.random() < 0.15 else P(ity)]
            optfr: list[Any] = []
            if r.random() < 0.4:
                optfr.append(cat("limit: ", P("i") if r.random() < 0.6 else self.lit("i").lstrip("-")))
            if r.random() < 0.3:
                optfr.append(cat("offset: ", "continue" if (k == "for" and r.random() < 0.3) else (P("i") if r.random() < 0.5 else "1")))
            if k == "tablerow" and r.random() < 0.7:
                optfr.append(cat("cols: ", P("i") if r.random() < 0.6 else "2"))
            if r.random() < 0.2:
                optfr.append("reversed")
            r.shuffle(optfr)
            for o in optfr:
                head += [r.choice([" ", " ", ", "]), o]
            vt = {"a": "any", "o": "x", "h": "any"}[ity]
            fl2 = dict(fl, loop=k, can_break=True)
            if k == "tablerow":
                fl2["in_tablerow"] = True
            body = self.items(depth + 1, scope + [(var, vt)], fl2)
            if r.random() < 0.7:
                ref = self.path_frag((var, [("n", r.choice(["k", "t"]))] if vt == "x" and r.random() < 0.7 else []))
                body.insert(0, ("T", "echo", ref, True) if line else ("O", ref))
            if r.random() < 0.35:
                lref = self.path_frag(("forloop" if k == "for" else "tablerowloop",
                                       [("n", "index" if k == "for" else "col")]))
                body.append(("T", "echo", lref, True) if line else ("O", lref))
            out = [("T", k, cat(*head), True), *body]
            if k == "for" and r.random() < 0.35:
                out.append(("T", "else", None, False))
                out += self.items(depth + 1, scope, fl)
            out.append(("T", "end" + k, None, False))
            self._leak = var
            return out
        if k == "break":
            return [("T", "if", self.cond(scope, loop, 1), True), ("T", r.choice(["break", "continue"]), None, True),
                    ("T", "endif", None, False)]
        if k == "with":
            binds: list[Any] = []
            sc2 = list(scope)
            for i in range(r.randint(1, 2)):
                nm = self.bind_name(["wa", "wb", "v1"], "s")
                if i:
                    binds.append(r.choice([", ", ", ", " "]))
                binds += [nm, ": " if r.random() < 0.85 else " = ", self.wide(scope, loop) if r.random() < 0.3 else P("any")]
                sc2.append((nm, "any"))
            body = self.items(depth + 1, sc2, fl, n=r.randint(1, 3))
            self._leak = sc2[-1][0]
            return [("T", "with", cat(*binds), True), *body, ("T", "endwith", None, False)]
        if k == "translate":
            args: list[Any] = []
            msgvars: list[str] = []
            for i in range(r.choice([0, 1, 1, 2])):
                nm = self.bind_name(["you", "thing"], "s")
                if nm in msgvars:
                    continue
                if args:
                    args.append(", ")
                args += [nm, ": ", P("s")]
                msgvars.append(nm)
            plural = r.random() < 0.5
            if plural or r.random() < 0.3:
                if args:
                    args.append(", ")
                args += ["count: ", P("i")]
                self.binders.add("count")
                msgvars.append("count")
            if r.random() < 0.25:
                if args:
                    args.append(", ")
                args += ["context: ", self.strlit("ctx") if r.random() < 0.6 else P("s")]
                self.binders.add("context")
            if r.random() < 0.5:
                msgvars.append(r.choice(["who", "title", "s"]))  # a global, single segment

            def msg() -> list[Any]:
                b: list[Any] = [("X", r.choice(["Hello ", "Item ", "x "]))]
                for v in msgvars:
                    if r.random() < 0.8:
                        b += [("O", self.path_frag((v, []), "translate-message")), ("X", r.choice([" ", ", ", "!"]))]
                return b

            out = [("T", "translate", cat(*args) if args else None, True), *msg()]
            if plural:
                out += [("T", "plural", None, False), *msg()]
            out.append(("T", "endtranslate", None, False))
            return out
        if k == "liquid":
            body = self.items(depth + 1, scope, dict(fl, line=True), n=r.randint(1, 4))
            if not body:
                return []
            return [("L", body, r.random() < 0.15)]
        if k == "macro":
            name = f"mac{len(self.macros)}"
            params: list[str] = []
            head2: list[Any] = [name if r.random() < 0.7 else self.strlit(name)]
            for i in range(r.randint(0, 3)):
                p = self.bind_name(["pa", "pb", "pc"], "s")
                if p in params:
                    continue
                head2.append(" " if not params else ", ")
                head2.append(p)
                if r.random() < 0.5:
                    head2 += [": ", P("any")]  # default evaluated at call time
                params.append(p)
            self.binders.update(["args", "kwargs"])
            sc2 = [(p, "any") for p in params]
            body = self.items(depth + 1, sc2, {"macro": True, "isolated": True}, n=r.randint(1, 3))
            if r.random() < 0.4:
                body.append(("O", cat(self.path_frag(("args", [])), self.filt("join", self.strlit("+")))))
            if r.random() < 0.2:
                body.append(("O", self.path_frag(("kwargs", [("n", "extra")]))))
            self.macros.append((name, params))
            return [("T", "macro", cat(*head2), True), *body, ("T", "endmacro", None, False)]
        if k == "call":
            name, params = r.choice(self.macros)
            head3: list[Any] = [name if r.random() < 0.7 else self.strlit(name)]
            first = True
            for _ in range(r.randint(0, len(params) + 1)):
                head3 += [" " if first else ", ", P("any")]
                first = False
            if params and r.random() < 0.5:
                head3 += [" " if first else ", ", r.choice(params), ": ", P("any")]
                first = False
            if r.random() < 0.2:
                head3 += [" " if first else ", ", "extra: ", P("s")]
            return [("T", "call", cat(*head3), True)]
        if k == "partial":
            return self.partial(depth, scope, fl)
        if k == "scoped-partial":
            # a partial loaded while a scope frame is pushed by the enclosing block
            form = r.choice(["for", "for", "with", "macro"] if not (line or fl.get("isolated")) else ["for", "with"])
            if self.o.no_for and form == "for":
                form = "with"
            if form == "for":
                var = self.bind_name(LOOP_VARS + ["item"], "i")
                self.binders.add("forloop")
                fl2 = dict(fl, loop="for", can_break=True)
                sc2 = scope + [(var, "any")]
                body = self.partial(depth + 1, sc2, fl2)
                if r.random() < 0.5:
                    body = self.items(depth + 1, sc2, fl2, n=1) + body
                out = [("T", "for", cat(var, " in ", P(r.choice(["a", "o"]))), True), *body, ("T", "endfor", None, False)]
                self._leak = var
                return out
            if form == "with":
                nm = self.bind_name(["wa", "wb", "label"], "s")
                sc2 = scope + [(nm, "any")]
                body = self.partial(depth + 1, sc2, fl)
                out = [("T", "with", cat(nm, ": ", P("any")), True), *body, ("T", "endwith", None, False)]
                self._leak = nm
                return out
            name = f"mac{len(self.macros)}"
            p = self.bind_name(["pa", "pb"], "s")
            self.binders.update(["args", "kwargs"])
            body = self.partial(depth + 1, [(p, "any")], {"macro": True, "isolated": True})
            body.append(("O", self.path_frag((p, []))))
            self.macros.append((name, [p]))
            self._leak = p
            return [("T", "macro", cat(name, " ", p), True), *body, ("T", "endmacro", None, False),
                    ("T", "call", cat(name, " ", P("any")), True)]
        return []

    def new_partial_name(self) -> str:
        """Distinct templates often share their last path component (`a/item`, `b/item`, `item`,
        `a/b/item.liquid`, `item.html`), also with the root template's file name."""
        r = self.r
        root = self.root_name
        root_base = root.rsplit("/", 1)[-1]
        for _ in range(6):
            if r.random() < 0.6:
                base = r.choice(SHARED_BASES + [root_base, root_base.split(".", 1)[0]])
                ext = "" if "." in base else r.choice(PARTIAL_EXT)
                name = f"{r.choice(SHARED_DIRS)}{base}{ext}"
            else:
                name = f"{r.choice(PARTIAL_DIRS)}p{len(self.templates)}{r.choice(PARTIAL_EXT)}"
            # never the root itself, nor a flat name equal to the root's file name (what
            # Template.name is for the root: a separate mechanism, probed by hand)
            if name in self.templates or name == root or name == root_base:
                continue
            if any(t.startswith(name + "/") or name.startswith(t + "/") for t in self.templates):
                continue  # a file and a directory of the same name
            shared = name.rsplit("/", 1)[-1].split(".", 1)[0] in SHARED_BASES + [root_base.split(".", 1)[0]]
            self.features.add("partial:shared-base-name" if shared else "partial:unique-base-name")
            return name
        return f"parts/u{len(self.templates)}.html"

    def partial(self, depth: int, scope: list, fl: dict[str, Any]) -> list[Any]:
        r = self.r
        loop = fl.get("loop")
        tag = "render" if (fl.get("isolated") or r.random() < 0.5) else "include"
        self.features.add(tag)
        existing = [n for n in self.partial_names if n not in self._building]
        reuse = existing and r.random() < 0.3
        if reuse:
            name = r.choice(existing)
            self.features.add("partial-reused")
        else:
            self.n_partials += 1
            name = self.new_partial_name()
        head: list[Any] = [self.strlit(name)]
        sc2: list[tuple[str, str]] = list(scope) if tag == "include" else []
        mode = r.choice([None, None, "with", "for"])
        if mode:
            ty = "any" if mode == "with" else r.choice(["a", "o"])
            if r.random() < (0.5 if mode == "for" else 0.3):
                ty = "any"
                head += [f" {mode} ", self.wide(scope, loop)]
            else:
                head += [f" {mode} ", self.prim(ty, scope, loop)]
            if r.random() < 0.6:
                alias = self.bind_name(["item", "al", "x"], "s")
                head += [" as ", alias]
            else:
                alias = name.split(".", 1)[0]
                # what the render binds is derived from the loaded template's name
                self.binders.update({alias, name.rsplit("/", 1)[-1].split(".", 1)[0]})
                alias = name.rsplit("/", 1)[-1].split(".", 1)[0]
            sc2.append((alias, "x" if ty == "o" else "any"))
            # `render ... for` binds forloop only when the value is a sequence: not a certain binder
        for i in range(r.choice([0, 0, 1, 2])):
            kw = self.bind_name(["ka", "kb", "v2"], "s")
            head += [", " if (mode or i or r.random() < 0.5) else " ", kw, ": ", self.prim("any", scope, loop)]
            sc2.append((kw, "any"))
        if not reuse:
            src = Src(name)
            self.templates[name] = src
            self.partial_names.append(name)
            self._building.add(name)
            fl2 = {"isolated": tag == "render" or fl.get("isolated"), "can_break": False,
                   "loop": "for" if (tag == "render" and mode == "for") else None}
            body = self.items(depth + 1, sc2, fl2, n=r.randint(1, 4))
            if mode and sc2:
                body.append(("O", self.path_frag((sc2[len(scope) if tag == "include" else 0][0], []))))
            if mode == "for" and r.random() < 0.75:
                body.append(("O", self.path_frag(("forloop", [("n", r.choice(["index", "length", "first"]))]))))
            body.append(("X", f"<{name}>"))  # makes every source text distinct
            self.write(src, body)
            self._building.discard(name)
        bound_here = [n for n, _t in sc2[(len(scope) if tag == "include" else 0):]]
        self._leak = r.choice(bound_here) if bound_here else None
        return [("T", tag, cat(*head), True)]

    # ------------------------------------------------------------------ writing
    def wc(self) -> str:
        return self.r.choice(["", "", "", "", "-", "~", "+"])

    def ws(self) -> str:
        return self.r.choice([" ", " ", " ", "  ", "\t", "\n", ""])

    def write(self, src: Src, items: list[Any]) -> None:
        r = self.r
        for it in items:
            k = it[0]
            if k == "X":
                src.raw(it[1])
                continue
            if k == "R":
                src.raw("{%" + self.wc() + " raw " + self.wc() + "%}" + it[1] + "{%" + self.wc() + " endraw " + self.wc() + "%}")
                src.after_comment = False
                continue
            if k == "C":
                kind, txt = it[1], it[2]
                l, rr = self.wc(), self.wc()
                if kind == "hash":
                    hashes = "#" * r.choice([1, 1, 2])
                    src.raw("{" + hashes + l + txt + rr + hashes + "}")
                elif kind == "inline":
                    src.raw("{%" + l + " #" + txt + rr + "%}")
                else:
                    src.raw("{%" + l + " comment " + self.wc() + "%}" + txt + "{%" + self.wc() + " endcomment " + rr + "%}")
                src.after_comment = True
                continue
            if k == "O":
                l, rr = self.wc(), self.wc()
                src.raw("{{" + l + (self.ws() or " "))
                src.frag(it[1])
                src.raw((self.ws() or " ") + rr + "}}")
                src.after_comment = False
                continue
            if k == "T":
                _, name, fr, reported = it
                start = src.n
                l, rr = self.wc(), self.wc()
                src.raw("{%" + l + self.ws() + name)
                if fr is not None:
                    src.raw(" ")
                    src.frag(fr)
                src.raw((self.ws() or " ") + rr + "%}")
                if reported:
                    src.tags.append([start, src.n, name, "after-comment" if src.after_comment else "block-form"])
                src.after_comment = False
                continue
            if k == "L":
                _, lines, same_line = it
                start = src.n
                l, rr = self.wc(), self.wc()
                src.raw("{%" + l + " liquid" + r.choice(["\n", " \n", "\n\n"]))
                was_comment = src.after_comment
                src.after_comment = False
                depth = 1
                last = len(lines) - 1
                for i, ln in enumerate(lines):
                    if ln[0] == "C":
                        src.raw("  " * depth + "#" + ln[2].replace("\n", " ") + "\n")
                        src.after_comment = True
                        continue
                    _, name, fr, reported = ln
                    if name.startswith("end") or name in ("else", "elsif", "when"):
                        depth = max(1, depth - 1)
                    src.raw(r.choice(["", "  " * depth, "\t"]))
                    s0 = src.n
                    src.raw(name)
                    if fr is not None:
                        src.raw(" ")
                        src.frag(fr)
                    if reported:
                        lab = "liquid-line-after-comment" if src.after_comment else "liquid-line"
                        if i == last and same_line:
                            lab = "liquid-last-line-before-closing-delimiter"
                        src.tags.append([s0, src.n, name, lab])
                    src.after_comment = False
                    if not (i == last and same_line):
                        src.raw(r.choice(["\n", "\n", " \n", "\n\n"]))
                    if not name.startswith("end") and name in ("if", "unless", "for", "case", "capture", "with", "elsif", "else", "when"):
                        depth += 1
                src.raw((" " if same_line else "") + rr + "%}")
                src.tags.append([start, src.n, "liquid", "after-comment" if was_comment else "block-form"])
                src.after_comment = False
                continue
            raise ValueError(k)

    # ------------------------------------------------------------------ program
    def program(self) -> dict[str, Any]:
        r = self.r
        self.templates = {}
        self.binders = set()
        self.macros = []
        self.n_partials = 0
        self.features = set()
        self._building: set[str] = set()
        self.partial_names: list[str] = []
        self.dyn_names = []
        self._ts_quote: str | None = None
        root_name = r.choice(["index", "index.html", "pages/index.html", "main.liquid", "t/root", "pages/item",
                              "t/card.liquid"])
        self.root_name = root_name
        root = Src(root_name)
        self.templates[root_name] = root
        self._building.add(root_name)
        if r.random() < self.o.inherit:
            self.features.add("extends")
            self.binders.add("block")
            chain = ["layouts/base.html"] + (
                [r.choice(["layouts/mid.html", "layouts/v2/base.html", "themes/base.html"])] if r.random() < 0.45 else [])
            blocks = ["head", "main", "foot"][: r.randint(1, 3)]
            # base
            base = Src(chain[0])
            self.templates[chain[0]] = base
            self._building.add(chain[0])
            body: list[Any] = self.items(1, [], {}, n=r.randint(0, 2))
            for b in blocks:
                body.append(("T", "block", Frag(b), True))
                body += self.items(1, [], {}, n=r.randint(1, 3))
                body.append(("T", "endblock", Frag(b) if r.random() < 0.3 else None, False))
                body += self.items(2, [], {}, n=r.randint(0, 1))
            body.append(("X", f"<{chain[0]}>"))
            self.write(base, body)
            self._building.discard(chain[0])
            parent = chain[0]
            for nm in chain[1:] + [root_name]:
                src = root if nm == root_name else Src(nm)
                self.templates[nm] = src
                self._building.add(nm)
                body = []
                if r.random() < 0.3:
                    body.append(self.comment({}))
                body.append(("T", "extends", Frag(self.strlit(parent)), True))
                body += self.items(2, [], {}, n=r.randint(0, 1))  # never rendered; analysed
                for b in blocks:
                    if r.random() < 0.65:
                        body.append(("T", "block", Frag(b), True))
                        body += self.items(1, [], {}, n=r.randint(1, 3))
                        if r.random() < 0.5:
                            body.append(("O", self.path_frag(("block", [("n", "super")]))))
                            self.features.add("block.super")
                        body.append(("T", "endblock", None, False))
                body.append(("X", f"<{nm}>"))
                self.write(src, body)
                self._building.discard(nm)
                parent = nm
        else:
            body = self.items(0, [], {}, n=r.randint(2, self.o.max_items))
            if self.o.dynamic:
                # a partial reached only through a dynamic name
                self.features.add("dynamic-partial-name")
                dn = f"dyn/d{len(self.templates)}.html"
                ds = Src(dn)
                self.templates[dn] = ds
                self.write(ds, self.items(2, [], {}, n=2) + [("X", f"<{dn}>")])
                holder = r.choice(["h", "page"])
                self.dyn_names = [(holder, dn)]
                pos = r.choice([0, len(body)])  # top level only (the item list is flat)
                body[pos:pos] = [("T", "include", self.path_frag((holder, [("n", "tpl")])), True)]
            body.append(("X", f"<{root_name}>"))
            self.write(root, body)
        return {
            "templates": {n: s.text() for n, s in self.templates.items()},
            "root": root_name,
            "dynamic": bool(self.o.dynamic),
            "binders": sorted(self.binders),
            "partials": sorted(set(self.partial_names) | {dn for _h, dn in self.dyn_names}),
            "posmap": {n: s.posmap() for n, s in self.templates.items()},
            "features": sorted(self.features),
        }

    def datasets(self, k: int) -> list[dict[str, Any]]:
        out = []
        for v in range(k):
            d = make_data(self.r, v)
            for holder, dn in self.dyn_names:
                if holder in d:
                    d[holder]["tpl"] = dn
            out.append(d)
        return out
