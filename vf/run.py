"""CLI: python -m vf.run <Cxx> --tier quick|thorough [--replay file] [--jobs N]

Exit 0: property held on everything explored (known findings are printed as
KNOWN-FINDING lines).  Exit 1: a violation that known_findings.json does not list
(`VIOLATION property=<id> replay=<path>`).  Exit 2: inconclusive (a shard crashed or
timed out, or a deciding monitor observed fewer events than its floor).
"""

from __future__ import annotations

import argparse
import importlib
import json
import os
import shutil
import subprocess
import sys
import tempfile
import time
from concurrent.futures import ThreadPoolExecutor
from typing import Any

from . import findings
from .core import VERIF_DIR
from .core import hhex

PY = sys.executable


def _run_one(prop: str, spec: dict[str, Any], workdir: str, idx: int, timeout: float):
    specf = os.path.join(workdir, f"spec{idx}.json")
    outf = os.path.join(workdir, f"out{idx}.json")
    with open(specf, "w") as f:
        json.dump(spec, f)
    env = dict(os.environ)
    env["PYTHONHASHSEED"] = env.get("VERIF_PYTHONHASHSEED", "0")
    env["PYTHONDONTWRITEBYTECODE"] = "1"
    env.setdefault("LIQUID2_VERIF", "1")
    t0 = time.time()
    try:
        p = subprocess.run(
            [PY, "-B", "-m", "vf.worker", prop, specf, outf],
            cwd=VERIF_DIR,
            env=env,
            timeout=timeout,
            capture_output=True,
            text=True,
        )
    except subprocess.TimeoutExpired:
        return {"failed": f"shard {idx} watchdog timeout after {timeout:.0f}s", "spec": spec}
    if p.returncode != 0 or not os.path.exists(outf):
        return {
            "failed": f"shard {idx} exit={p.returncode} stderr={p.stderr[-1500:]}",
            "spec": spec,
        }
    with open(outf) as f:
        r = json.load(f)
    if spec.get("kind") == "replay":
        # show the monitor's view of the replayed case
        sys.stdout.write(p.stdout)
        sys.stderr.write(p.stderr)
    r["shard_wall_s"] = time.time() - t0
    return r


def merge(results: list[dict[str, Any]]) -> dict[str, Any]:
    m: dict[str, Any] = {
        "evaluations": 0,
        "nontrivial": set(),
        "nontrivial_overflow": 0,
        "counters": {},
        "sets": {},
        "samples": [],
        "violations": {},
        "notes": [],
        "failed": [],
        "truncated": 0,
    }
    for r in results:
        if "failed" in r:
            m["failed"].append(r["failed"])
            continue
        m["evaluations"] += r["evaluations"]
        m["nontrivial"].update(r["nontrivial"])
        m["nontrivial_overflow"] += max(0, r["nontrivial_n"] - len(r["nontrivial"]))
        for k, v in r["counters"].items():
            if k.startswith("max:"):
                m["counters"][k] = max(m["counters"].get(k, v), v)
            else:
                m["counters"][k] = m["counters"].get(k, 0) + v
        for k, v in r["sets"].items():
            m["sets"].setdefault(k, set()).update(v)
        if len(m["samples"]) < 8:
            m["samples"].extend(r["samples"][: max(1, 8 - len(m["samples"]))][:2])
        for v in r["violations"]:
            cur = m["violations"].get(v["key"])
            if cur is None:
                m["violations"][v["key"]] = v
            else:
                cur["count"] += v["count"]
                cur["witnesses"].extend(v["witnesses"])
                cur["witnesses"].sort(key=lambda w: len(json.dumps(w, default=str)))
                del cur["witnesses"][3:]
        m["notes"].extend(r["notes"])
        m["truncated"] += 1 if r.get("truncated") else 0
    return m


def main(argv: list[str] | None = None) -> int:
    ap = argparse.ArgumentParser()
    ap.add_argument("prop")
    ap.add_argument("--tier", default=os.environ.get("VERIF_TIER") or "quick")
    ap.add_argument("--replay")
    ap.add_argument("--jobs", type=int, default=int(os.environ.get("VERIF_JOBS", "16")))
    ap.add_argument("--only", help="run only shards whose spec 'kind' matches")
    args = ap.parse_args(argv)
    prop = args.prop.upper()
    tier = args.tier if args.tier in ("quick", "thorough") else "quick"
    try:
        seed = int(os.environ.get("VERIF_SEED", "0") or 0)
    except ValueError:
        seed = 0

    mod = importlib.import_module(f"vf.props.{prop.lower()}")
    t0 = time.time()

    if args.replay:
        with open(args.replay) as f:
            wit = json.load(f)
        specs = [{"kind": "replay", "witness": wit, "tier": tier, "seed": seed}]
    else:
        specs = mod.shards(tier, seed)
        for s in specs:
            s.setdefault("tier", tier)
            s.setdefault("seed", seed)
        if args.only:
            specs = [s for s in specs if s.get("kind") == args.only]

    timeout = float(
        os.environ.get("VERIF_SHARD_TIMEOUT", "900" if tier == "quick" else "5400")
    )
    rdir = os.path.join(VERIF_DIR, "replay", prop)
    if not args.replay and os.path.isdir(rdir):
        for fn in os.listdir(rdir):
            if fn.endswith(".json"):
                os.unlink(os.path.join(rdir, fn))
    workdir = tempfile.mkdtemp(prefix=f"vf-{prop}-")
    try:
        with ThreadPoolExecutor(max_workers=max(1, args.jobs)) as ex:
            futs = [
                ex.submit(_run_one, prop, s, workdir, i, timeout)
                for i, s in enumerate(specs)
            ]
            results = [f.result() for f in futs]
    finally:
        shutil.rmtree(workdir, ignore_errors=True)

    m = merge(results)
    wall = time.time() - t0

    # ---- classify violations against the committed known-findings file ------------
    known = findings.load(prop)
    new_viol = []
    known_hits = []
    for key, v in sorted(m["violations"].items()):
        kf = findings.match(known, key)
        if kf is not None:
            known_hits.append((kf, v))
        else:
            new_viol.append(v)

    # ---- floors -----------------------------------------------------------------
    inconclusive: list[str] = list(m["failed"])
    if not args.replay and not args.only:
        for name, floor in mod.floors(tier).items():
            if name.startswith("set:"):
                got = len(m["sets"].get(name[4:], ()))
            elif name == "evaluations":
                got = m["evaluations"]
            elif name == "distinct_nontrivial":
                got = len(m["nontrivial"])
            else:
                got = m["counters"].get(name, 0)
            if got < floor:
                inconclusive.append(f"counter {name}={got} below floor {floor}")

    # ---- evidence ---------------------------------------------------------------
    if not args.replay:
        coverage: dict[str, Any] = {
            "evaluations": m["evaluations"],
            "distinct_nontrivial": len(m["nontrivial"]) + 0,
            "rule": mod.RULE,
            "samples": m["samples"] or ["<no sample recorded>"],
            "counters": dict(sorted(m["counters"].items())),
            "observed_sets": {
                k: {"n": len(v), "items": sorted(v)[:120]} for k, v in sorted(m["sets"].items())
            },
            "shards": len(specs),
            "shards_truncated_by_deadline": m["truncated"],
            "known_findings_hit": [
                {"key": kf["key"], "count": v["count"]} for kf, v in known_hits
            ],
            "unlisted_violation_keys": [v["key"] for v in new_viol],
            "inconclusive_reasons": inconclusive,
            "notes": m["notes"][:40],
        }
        if hasattr(mod, "exhaustive"):
            coverage["exhaustive"] = bool(mod.exhaustive(tier, m))
        ev = {
            "property_id": prop,
            "tier": tier,
            "seed": seed,
            "level": getattr(mod, "LEVEL", "exploration"),
            "coverage": coverage,
            "assumptions": list(getattr(mod, "ASSUMPTIONS", [])),
            "wall_s": round(wall, 2),
            "violations": len(new_viol),
        }
        os.makedirs(os.path.join(VERIF_DIR, "evidence"), exist_ok=True)
        evf = os.path.join(VERIF_DIR, "evidence", f"{prop}.json")
        tmp = evf + ".tmp"
        with open(tmp, "w") as f:
            json.dump(ev, f, indent=1, sort_keys=False, default=str)
            f.write("\n")
        os.replace(tmp, evf)

    # ---- report -----------------------------------------------------------------
    for kf, v in known_hits:
        at = "" if v["key"] == kf["key"] else f" [{v['key']}]"
        print(f"KNOWN-FINDING: property={prop} {kf['key']}{at} — {kf['what']} (hits={v['count']})")
    rc = 0
    for v in new_viol:
        rdir = os.path.join(VERIF_DIR, "replay", prop)
        os.makedirs(rdir, exist_ok=True)
        wit = v["witnesses"][0]
        path = os.path.join(rdir, hhex(v["key"], wit) + ".json")
        with open(path, "w") as f:
            json.dump(
                {"property": prop, "key": v["key"], "what": v["what"], "witness": wit,
                 "count": v["count"], "seed": seed, "tier": tier},
                f, indent=1, default=str,
            )
            f.write("\n")
        print(f"# {v['key']}: {v['what']} (hits={v['count']})")
        print(f"VIOLATION property={prop} replay={os.path.relpath(path, VERIF_DIR)}")
        rc = 1
    summary = (
        f"{prop} tier={tier} seed={seed} evaluations={m['evaluations']} "
        f"distinct_nontrivial={len(m['nontrivial'])} shards={len(specs)} wall={wall:.1f}s"
    )
    if rc == 0 and inconclusive:
        for r in inconclusive:
            print(f"INCONCLUSIVE property={prop} reason={r}")
        print(summary)
        return 2
    print(("HELD " if rc == 0 else "VIOLATED ") + summary)
    return rc


if __name__ == "__main__":
    sys.exit(main())
