"""C19 units: encoders / decoders / escaping and the remaining small filters.

Documentation used: filter_reference.md url_encode ("URL reserved characters %-escaped.
Also replaces ' ' with '+'"), url_decode ("%xx escapes replaced ... Also replaces '+' with
' '"), escape / escape_once ("converted to HTML-safe sequences [while preserving existing
HTML escape sequences]"), newline_to_br ("\\n and \\r\\n replaced with <br />\\n"),
strip_newlines ("\\n and \\r\\n removed"), strip_html ("all HTML tags removed"; CTS: comments,
script and style blocks go with their content, entities stay), safe, default, size, json;
optional_filters.md base64_encode / base64_decode / base64_url_safe_encode /
base64_url_safe_decode (UTF-8; url-safe alphabet uses - and _).
"""

from __future__ import annotations

import html
import random
import re
from typing import Any

from .c19_lib import ALL_CHARS
from .c19_lib import g_int
from .c19_lib import g_list
from .c19_lib import g_text
from .c19_lib import g_word
from .c19_lib import lstr
from .c19_lib import skey
from .c19_lib import value_class
from .c19_run import Runner
from .c19_run import unit

UNRESERVED = set("ABCDEFGHIJKLMNOPQRSTUVWXYZabcdefghijklmnopqrstuvwxyz0123456789_.-~")
B64 = "ABCDEFGHIJKLMNOPQRSTUVWXYZabcdefghijklmnopqrstuvwxyz0123456789+/"


def url_encode_ref(s: str) -> str:
    out = []
    for byte in s.encode("utf-8"):
        ch = chr(byte)
        if ch in UNRESERVED:
            out.append(ch)
        elif ch == " ":
            out.append("+")
        else:
            out.append(f"%{byte:02X}")
    return "".join(out)


def url_decode_ref(s: str) -> str | None:
    """Reference decoder for well-formed input (every % followed by two hex digits,
    decoded bytes valid UTF-8); None when the input is outside that domain."""
    out = bytearray()
    i = 0
    while i < len(s):
        ch = s[i]
        if ch == "+":
            out += b" "
            i += 1
        elif ch == "%":
            hx = s[i + 1: i + 3]
            if len(hx) != 2 or not re.match(r"[0-9A-Fa-f]{2}\Z", hx):
                return None
            out.append(int(hx, 16))
            i += 3
        else:
            out += ch.encode("utf-8")
            i += 1
    try:
        return out.decode("utf-8")
    except UnicodeDecodeError:
        return None


def b64_ref(data: bytes, alphabet: str = B64) -> str:
    out = []
    for i in range(0, len(data), 3):
        chunk = data[i: i + 3]
        n = int.from_bytes(chunk + b"\0" * (3 - len(chunk)), "big")
        quad = [alphabet[(n >> s) & 63] for s in (18, 12, 6, 0)]
        if len(chunk) < 3:
            quad[len(chunk) + 1:] = "=" * (3 - len(chunk))
        out.extend(quad)
    return "".join(out)


B64URL = B64[:-2] + "-_"
ENTITY = re.compile(r"&(?:#\d+|#[xX][0-9a-fA-F]+|[A-Za-z][A-Za-z0-9]*);")


def gen_codec(rng: random.Random, i: int) -> dict[str, Any]:
    c = rng.random()
    if c < 0.55:
        x: Any = g_text(rng, 0, 14)
    elif c < 0.75:
        x = g_text(rng, 0, 12, list("ab <>&'\"+%/=?#é测 ") + ["&amp;", "&lt;", "&gt;", "&#39;", "&quot;", "\n", "\r\n", "\r",
                                                        "&amp;lt;", "&amp;amp;", "&amp;#39;"])
    elif c < 0.9:
        x = g_text(rng, 0, 40, list("abcdefghij>?~\xff\xfe é测😀"))
    else:
        x = rng.choice((5, 0, -12, g_int(rng), None, 7.5, True))
    # html: text pieces interleaved with tags / comments / script blocks
    parts = []
    text = []
    for _ in range(rng.randint(0, 6)):
        k = rng.random()
        if k < 0.5:
            t = g_text(rng, 0, 5, list("abc é.&;#1\n") + ["&amp;", "&#20;"])
            parts.append(t)
            text.append(t)
        elif k < 0.8:
            parts.append(rng.choice(("<b>", "</b>", "<em>", "<br/>", "<br />", "<div id='x'>", "</div>",
                                     "<a href=\"u?a=1\">", "<p\nclass='m'>", "<img src=x>")))
        elif k < 0.9:
            parts.append("<!-- " + g_word(rng) + " \n -->")
        else:
            parts.append(rng.choice(("<script>var a = 1;</script>", "<style type='text/css'>p {}</style>",
                                     "<script type='text/javascript'>document.write('x');</script>")))
    return {"mode": "codec", "x": x, "parts": [parts, text]}


@unit("codec", ("url_encode", "url_decode", "base64_encode", "base64_decode", "base64_url_safe_encode",
                "base64_url_safe_decode", "escape", "escape_once", "newline_to_br", "strip_newlines",
                "strip_html", "safe"), gen_codec)
def case_codec(R: Runner, inp: dict[str, Any]) -> None:
    x = inp["x"]
    s = lstr(x)
    q = "" if isinstance(x, str) else value_class(x) + "-input"
    uq = q or ("non-ascii" if any(ord(c) > 127 for c in s) else "")
    # url
    enc = url_encode_ref(s)
    R.expect("url_encode", "reserved-characters-percent-escaped", R.both("url_encode", x), enc, uq)
    R.expect("url_decode", "decode-undoes-encode", R.T("url_decode", "url_encode | url_decode", x=x), s, uq)
    R.expect("url_encode", "decode-undoes-encode", R.T("url_encode", "url_encode | url_decode", x=x), s, uq)
    R.expect("url_decode", "percent-and-plus-decoded", R.both("url_decode", enc), s, uq)
    dref = url_decode_ref(s)
    if dref is not None:
        R.expect("url_decode", "percent-and-plus-decoded", R.both("url_decode", x), dref,
                 lambda: "plus-sign" if "+" in s else uq)
    # base64
    raw = s.encode("utf-8")
    for enc_f, dec_f, alpha in (("base64_encode", "base64_decode", B64),
                                ("base64_url_safe_encode", "base64_url_safe_decode", B64URL)):
        want = b64_ref(raw, alpha)
        R.expect(enc_f, "base64-of-utf8-bytes", R.both(enc_f, x), want, uq)
        R.expect(dec_f, "decode-undoes-encode", R.T(dec_f, f"{enc_f} | {dec_f}", x=x), s, uq)
        R.expect(enc_f, "decode-undoes-encode", R.T(enc_f, f"{enc_f} | {dec_f}", x=x), s, uq)
        R.expect(dec_f, "decodes-reference-encoding", R.both(dec_f, want), s, uq)
    # escape: HTML escaping (the exact spelling of the quote entities is not prescribed)
    e = R.both("escape", x)
    if e.kind != "foreign":
        ok = e.ok and isinstance(e.value, str) and html.unescape(e.value) == s \
            and not any(c in e.value for c in "<>\"'") and _amp_ok(e.value) \
            and len(e.value) >= len(s)
        R.law("escape", "html-escaping", ok, q, {"input": s, "got": e.brief()})
        ok2 = e.ok and isinstance(e.value, str) and _strip_entities(e.value) == _strip_specials(s)
        R.law("escape", "only-special-characters-change", ok2, q, {"input": s, "got": e.brief()})
    eo = R.both("escape_once", x)
    eo2 = R.T("escape_once", "escape_once | escape_once", x=x)
    ee = R.T("escape_once", "escape | escape_once", x=x)
    if eo.ok and isinstance(eo.value, str):
        R.law("escape_once", "no-raw-special-characters",
              not any(c in eo.value for c in "<>") and _amp_ok(eo.value), q, {"input": s, "got": eo.value})
        R.law("escape_once", "unescapes-to-input", html.unescape(eo.value) == html.unescape(s), q,
              {"input": s, "got": eo.value})
        if not ENTITY.search(s) and "&" not in s:
            R.law("escape_once", "equals-escape-without-entities", e.ok and eo.value == e.value, q,
                  {"escape": e.brief(), "escape_once": eo.value})
    else:
        R.expect_ok("escape_once", "total", eo, q)
    if eo.ok and eo2.ok:
        R.law("escape_once", "idempotent", eo.value == eo2.value, q, {"once": eo.value, "twice": eo2.value})
    if e.ok and ee.ok:
        R.law("escape_once", "never-double-escapes", e.value == ee.value, q, {"escape": e.value, "then_once": ee.value})
    # the same two laws on rendered output with auto-escape on (a documented Environment option)
    o1 = R.eng.render("{{ x | escape_once }}", {"x": x}, auto=True)
    o2 = R.eng.render("{{ x | escape_once | escape_once }}", {"x": x}, auto=True)
    o3 = R.eng.render("{{ x | escape | escape_once }}", {"x": x}, auto=True)
    o4 = R.eng.render("{{ x | escape }}", {"x": x}, auto=True)
    for o in (o1, o2, o3, o4):
        R.law("escape_once", "no-foreign-exception", o.kind != "foreign", o.exc + ":auto-escape", o.brief())
    if o1.ok and o2.ok:
        R.law("escape_once", "idempotent", o1.value == o2.value, "auto-escape",
              {"input": s, "once": o1.value, "twice": o2.value})
    if o3.ok and o4.ok:
        R.law("escape_once", "never-double-escapes", o3.value == o4.value, "auto-escape",
              {"input": s, "escape": o4.value, "then_once": o3.value})
    # newlines
    R.expect("newline_to_br", "lf-and-crlf-become-br", R.both("newline_to_br", x),
             re.sub(r"\r?\n", "<br />\n", s), q)
    R.expect("strip_newlines", "lf-and-crlf-removed", R.both("strip_newlines", x), re.sub(r"\r?\n", "", s), q)
    R.expect("strip_newlines", "idempotent", R.T("strip_newlines", "strip_newlines | strip_newlines", x=x),
             re.sub(r"\r?\n", "", s), q)
    R.expect("newline_to_br", "line-count-kept", R.T("newline_to_br", "newline_to_br | split: br | size", x=x, br="<br />"),
             _brcount(s), q)
    # strip_html
    h, text = "".join(inp["parts"][0]), "".join(inp["parts"][1])
    R.expect("strip_html", "tags-removed-text-kept", R.both("strip_html", h), text,
             lambda: "bare-ampersand" if any("&" in ENTITY.sub("", t) for t in inp["parts"][1]) else
             ("comment" if "<!--" in h else ("script-or-style" if "<s" in h else "")))
    if "<" not in s and ">" not in s:
        R.expect("strip_html", "text-without-markup-unchanged", R.both("strip_html", x), s, q)
    R.expect("strip_html", "idempotent", R.T("strip_html", "strip_html | strip_html", x=h), text, "")
    # safe: identity on the string when auto-escape is off; shields from auto-escape when on
    R.expect("safe", "string-unchanged", R.both("safe", x), s, q)
    a1 = R.eng.render("{{ x | safe }}", {"x": x}, auto=True)
    a2 = R.eng.render("{{ x }}", {"x": x}, auto=True)
    R.law("safe", "no-foreign-exception", a1.kind != "foreign", a1.exc, a1.brief())
    if a1.ok and a2.ok:
        R.law("safe", "output-not-escaped-under-auto-escape", a1.value == s, q, {"got": a1.value})
        R.law("escape", "auto-escape-output-unescapes-to-input", html.unescape(a2.value) == s
              and not any(c in a2.value for c in "<>"), q, {"got": a2.value})


def _amp_ok(v: str) -> bool:
    """every & starts an entity"""
    return all(ENTITY.match(v, m.start()) for m in re.finditer("&", v))


def _strip_entities(v: str) -> str:
    return ENTITY.sub("", v)


def _strip_specials(s: str) -> str:
    return re.sub(r"[&<>\"']", "", s)


def _brcount(s: str) -> int:
    out = re.sub(r"\r?\n", "<br />\n", s)
    if out == "" or out == "<br />":
        return 0
    return out.count("<br />") + 1


# ---------------------------------------------------------------------------

JSONABLE = [None, True, False, 0, 1, -1, 10**30, 2**64 + 1, 1.5, -0.25, 1e-7, 1e21, "", "a", "é\n\"\\", "<b>", "😀",
            [], [1, [2, None]], {}, {"a": 1, "b": [True, {"c": None}]}, {"k": "v"}]


def gen_misc(rng: random.Random, i: int) -> dict[str, Any]:
    c = rng.random()
    if c < 0.4:
        x: Any = rng.choice(JSONABLE)
    elif c < 0.6:
        x = g_list(rng, JSONABLE, 0, 5)
    elif c < 0.8:
        x = {g_word(rng): rng.choice(JSONABLE) for _ in range(rng.randint(0, 4))}
    else:
        x = rng.choice((g_text(rng, 0, 10), g_int(rng), round(rng.uniform(-1e6, 1e6), rng.randint(0, 6)), " ", "  \n"))
    return {"mode": "misc", "x": x, "d": rng.choice(JSONABLE), "indent": rng.choice((1, 2, 4, "2"))}


@unit("misc", ("default", "json", "size"), gen_misc)
def case_misc(R: Runner, inp: dict[str, Any]) -> None:
    x, d = inp["x"], inp["d"]
    # json: decoding gives the input back (strictly: 1 stays int, 1.0 float, true bool)
    import json as _json

    for law, src, data in (("decodes-to-input", "{{ x | json }}", {"x": x}),
                           ("indent-does-not-change-the-value", "{{ x | json: n }}", {"x": x, "n": inp["indent"]})):
        before = skey(data)
        r = R.eng.render(src, data)
        R.law("json", "no-foreign-exception", r.kind != "foreign", r.exc, r.brief())
        R.law("json", "input-not-mutated", skey(data) == before, "")
        if r.kind == "foreign":
            continue
        try:
            ok = r.ok and skey(_json.loads(r.value)) == skey(x)
        except ValueError:
            ok = False
        R.law("json", law, ok, lambda: value_class(x), {"got": r.brief()})
    dj = R.D("json", "json", x)
    if dj.kind != "foreign":
        try:
            ok = dj.ok and skey(_json.loads(dj.value)) == skey(x)
        except (ValueError, TypeError):
            ok = False
        R.law("json", "decodes-to-input-registry", ok, lambda: value_class(x), {"got": dj.brief()})
    # default: nil, false and empty string / array / hash give the default; 0 does not
    empty = x is None or x is False or (isinstance(x, (str, list, dict)) and len(x) == 0)
    R.expect("default", "default-iff-nil-false-or-empty", R.both("default", x, d), d if empty else x,
             lambda: value_class(x))
    R.expect("default", "allow-false-keeps-false",
             R.T("default", "default: d, allow_false: true", x=x, d=d), x if x is False else (d if empty else x),
             lambda: value_class(x))
    R.expect("default", "missing-argument-is-empty-string", R.T("default", "default", x=x), "" if empty else x, "")
    R.expect("default", "idempotent", R.T("default", "default: d | default: d", x=x, d=d),
             _dflt(_dflt(x, d), d), "")
    R.expect("size", "length-or-zero", R.both("size", x),
             len(x) if isinstance(x, (str, list, dict)) else 0, lambda: value_class(x))


def _dflt(x: Any, d: Any) -> Any:
    empty = x is None or x is False or (isinstance(x, (str, list, dict)) and len(x) == 0)
    return d if empty else x
