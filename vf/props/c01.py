"""C01 — rendering implements the documented Liquid semantics.

Oracle: reference interpreter over the abstract program model (vf/ref/interp.py),
layout invariance across emissions, evaluated on executions of the real engine.
"""

from __future__ import annotations

import copy
import random
from dataclasses import fields
from dataclasses import is_dataclass
from typing import Any

from ..core import Ctx
from ..gen import emit as E
from ..gen import model as M
from ..gen.programs import Gen
from ..gen.programs import Profile
from ..ref.interp import Interp
from ..ref.interp import OutOfDomain
from ..ref.interp import RefError

ID = "C01"
LEVEL = "exploration"
RULE = (
    "programs are drawn from a typed grammar over the built-in language (text, output, echo, "
    "assign, capture, if/elsif/else/unless, case/when, for with limit/offset/continue/reversed/"
    "else/break/continue, increment/decrement, cycle, raw, comments, with, macro/call, "
    "include/render, liquid tag, ternaries, lambdas, template strings, ranges, array literals, "
    "~48 filters with an independent definition), emitted in several layouts, rendered by the "
    "real engine under a configuration (default_trim x suppress_blank_control_flow_blocks x "
    "shorthand_indexes) and compared with the reference interpreter. distinct = hash of "
    "(source, partials, data, configuration); non-trivial = the reference is defined "
    "(inside the documented domain), the program has >= 3 statement kinds and the expected "
    "output is non-empty."
)
ASSUMPTIONS = [
    "the reference interpreter (vf/ref) encodes docs/*.md and the compliance suite; programs "
    "whose meaning those do not pin down are detected (OutOfDomain) and skipped, not judged",
    "agreement of two implementations is evidence, not proof",
]

CONFIGS = [(t, s, sh) for t in "+-~" for s in (True, False) for sh in (False, True)]


def make_env(cfg: tuple[str, bool, bool], partials: dict[str, str]):
    from liquid2 import DictLoader
    from liquid2 import Environment
    from liquid2 import WhitespaceControl

    trim, suppress, shorthand = cfg
    wc = {"+": WhitespaceControl.PLUS, "-": WhitespaceControl.MINUS, "~": WhitespaceControl.TILDE}[trim]

    class Env(Environment):
        suppress_blank_control_flow_blocks = suppress
        shorthand_indexes = shorthand

    return Env(loader=DictLoader(partials), default_trim=wc)


_PARSED: dict[Any, Any] = {}


def real_render(cfg, source: str, partials: dict[str, str], data: dict[str, Any]) -> tuple[str, Any]:
    from liquid2.exceptions import LiquidError

    try:
        # consecutive renders of one source (other data) reuse the parsed Template, as
        # callers do: what a render leaves behind on the Template must not change the next
        key = (tuple(cfg), source, tuple(sorted(partials.items())))
        tpl = _PARSED.get(key)
        if tpl is None:
            tpl = make_env(cfg, partials).from_string(source)
            _PARSED.clear()
            _PARSED[key] = tpl
        return "ok", tpl.render(**copy.deepcopy(data))
    except LiquidError as e:
        return "err", type(e).__name__
    except RecursionError:
        return "err", "RecursionError"
    except Exception as e:  # noqa: BLE001  (C02's subject; reported here as a diagnostic)
        return "exc", type(e).__name__


def ref_render(prog: M.Program, cfg, data: dict[str, Any]) -> tuple[str, Any]:
    try:
        return "ok", Interp(prog, default_trim=cfg[0], suppress=cfg[1]).run(copy.deepcopy(data))
    except OutOfDomain as e:
        return "ood", str(e)
    except RefError as e:
        return "err", e.args[0]
    except RecursionError:
        return "ood", "recursion"
    except MemoryError:
        # self-feeding growth inside loops (assign t = t | replace: ' ', t): the program
        # has no bounded meaning; not judged, and the engine is not asked either
        return "ood", "memory"


# ------------------------------------------------------------------ features / shrink


def features(prog: M.Program) -> set[str]:
    out: set[str] = set()

    def visit(o: Any) -> None:
        if is_dataclass(o) and not isinstance(o, type):
            n = type(o).__name__
            if n == "FCall":
                out.add("f:" + o.name)
            elif n == "Cmp":
                out.add("cmp")
            elif n not in ("Lit", "Var", "Filt", "Program"):
                out.add(n)
            if n == "If" and o.unless:
                out.add("unless")
            if n == "For":
                for a in ("limit", "offset", "reversed", "orelse"):
                    if getattr(o, a):
                        out.add("for-" + a)
                if o.offset == "continue":
                    out.add("for-offset-continue")
            if n == "Partial":
                out.add(f"{o.tag}{'-' + o.mode if o.mode else ''}")
            if n == "Var" and o.root == "forloop":
                out.add("forloop." + ".".join(str(s) for s in o.segs))
            for f in fields(o):
                visit(getattr(o, f.name))
        elif isinstance(o, (list, tuple)):
            for x in o:
                visit(x)
        elif isinstance(o, dict):
            for x in o.values():
                visit(x)

    visit(prog)
    return out


def stmt_lists(prog: M.Program) -> list[list[Any]]:
    lists = [prog.body] + list(prog.partials.values())
    out = []
    while lists:
        b = lists.pop()
        out.append(b)
        for s in b:
            lists.extend(M.child_blocks(s))
    return out


def shrink(prog: M.Program, failing, budget: int = 200) -> M.Program:
    """Greedy statement deletion / hoisting while failing(prog) holds."""
    prog = copy.deepcopy(prog)
    tries = 0
    changed = True
    while changed and tries < budget:
        changed = False
        for lst in stmt_lists(prog):
            i = 0
            while i < len(lst) and tries < budget:
                s = lst[i]
                # 1. delete
                cand = lst[:i] + lst[i + 1 :]
                if _ok_adjacent(cand):
                    saved = lst[:]
                    lst[:] = cand
                    tries += 1
                    if failing(prog):
                        changed = True
                        continue
                    lst[:] = saved
                # 2. hoist a child block in place of the statement
                hoisted = False
                for cb in M.child_blocks(s):
                    cand = lst[:i] + list(cb) + lst[i + 1 :]
                    if not _ok_adjacent(cand) or type(s).__name__ in ("Macro",):
                        continue
                    saved = lst[:]
                    lst[:] = cand
                    tries += 1
                    if failing(prog):
                        changed = hoisted = True
                        break
                    lst[:] = saved
                if hoisted:
                    continue
                i += 1
    return prog


def _ok_adjacent(lst: list[Any]) -> bool:
    return not any(isinstance(a, M.Text) and isinstance(b, M.Text) for a, b in zip(lst, lst[1:]))


# ------------------------------------------------------------------ one case


class Case:
    def __init__(self, seed: Any, j: int, tier: str, profile: Profile | None = None):
        self.rng = random.Random(f"{seed}:{j}")
        self.gen = Gen(self.rng, profile)
        self.prog = self.gen.program()
        self.datas = [self.gen.data(), self.gen.data()]
        if self.rng.random() < 0.15:
            self.datas.append({})


def layouts(rng: random.Random, cfg) -> list[E.Layout]:
    sh = cfg[2]
    return [
        E.Layout(random.Random(rng.random()), shorthand_indexes=sh),
        E.Layout(random.Random(rng.random()), p_marker=0.35, noisy_ws=True, alt_forms=True,
                 comments=rng.random() < 0.5, shorthand_indexes=sh),
    ]


def compare(prog: M.Program, cfg, lay: E.Layout, data: dict[str, Any]) -> dict[str, Any]:
    em = E.emit(prog, lay)  # stamps effective trims on Text nodes
    exp = ref_render(prog, cfg, data)
    got = ("skipped", None) if exp == ("ood", "memory") else real_render(cfg, em.source, em.partials, data)
    res = {"source": em.source, "partials": em.partials, "expected": exp, "actual": got, "verdict": "agree"}
    if exp[0] == "ood":
        res["verdict"] = "ood"
    elif exp[0] == "ok":
        if got != exp:
            res["verdict"] = "mismatch"
    elif exp[0] == "err":
        # the documentation names the error class for these cases
        if got[0] != "err" or got[1] != exp[1]:
            res["verdict"] = "mismatch"
        else:
            res["verdict"] = "agree-error"
    return res


def run_case(ctx: Ctx, seed: Any, j: int, tier: str, profile: Profile | None = None) -> None:
    case = Case(seed, j, tier, profile)
    rng = case.rng
    prog = case.prog
    feats = features(prog)
    cfgs = rng.sample(CONFIGS, 2 if tier == "quick" else 3)
    for cfg in cfgs:
        plain_outputs = {}
        for li, lay in enumerate(layouts(rng, cfg)):
            for di, data in enumerate(case.datas):
                res = compare(prog, cfg, lay, data)
                ctx.ev()
                ctx.count("verdict:" + res["verdict"])
                ctx.seen("configs", cfg)
                if res["actual"][0] == "exc":
                    ctx.count("non_liquid_error_escapes_c02")
                if res["verdict"] == "agree-error":
                    ctx.count("reference_error_comparisons")
                    ctx.seen("expected_error_classes", res["expected"][1])
                if res["verdict"] == "agree":
                    ctx.count("reference_comparisons")
                    for f in feats:
                        ctx.seen("features", f)
                    if len({f for f in feats if f[0].isupper()}) >= 3 and res["expected"][0] == "ok" and res["expected"][1]:
                        ctx.nt(res["source"], sorted(res["partials"].items()), repr(data), cfg)
                elif res["verdict"] == "mismatch":
                    report(ctx, prog, cfg, lay, data, res, (seed, j))
                # layout invariance among marker-free emissions (real vs real)
                if li == 0:
                    plain_outputs[di] = res["actual"]
        # second marker-free emission in a different layout
        lay2 = E.Layout(random.Random(rng.random()), noisy_ws=True, alt_forms=True,
                        shorthand_indexes=cfg[2])
        for di, data in enumerate(case.datas[:1]):
            if (plain_outputs.get(di) or ("",))[0] == "skipped":
                continue
            em = E.emit(prog, lay2)
            got = real_render(cfg, em.source, em.partials, data)
            ctx.ev()
            ctx.count("layout_invariance_checks")
            if got != plain_outputs.get(di) and plain_outputs.get(di) is not None:
                ctx.violation(
                    "layout-variance:" + ",".join(sorted(f for f in feats if f[0].isupper()))[:80],
                    "two marker-free layouts of the same program render differently",
                    {"source": em.source, "partials": em.partials, "data": data, "cfg": list(cfg),
                     "expected": list(plain_outputs[di]), "gen": [str(seed), j]},
                )
    if j % 97 == 0:
        ctx.sample({"source": res["source"], "partials": res["partials"], "data": data,
                    "config": {"default_trim": cfg[0], "suppress_blank": cfg[1], "shorthand_indexes": cfg[2]},
                    "expected": res["expected"], "actual": res["actual"]})


def report(ctx: Ctx, prog, cfg, lay: E.Layout, data, res, gen_id) -> None:
    def relay() -> E.Layout:
        # the markers stamped on the statements by the failing emission, plain otherwise
        return E.Layout(random.Random(0), reuse=True, shorthand_indexes=cfg[2])

    def failing(p: M.Program) -> bool:
        try:
            return compare(p, cfg, relay(), data)["verdict"] == "mismatch"
        except Exception:  # noqa: BLE001
            return False

    small = prog
    res2 = res
    try:
        if failing(prog):  # reproduces in the plain layout with the same markers: shrink
            small = shrink(prog, failing)
            res2 = compare(small, cfg, relay(), data)
    except Exception:  # noqa: BLE001
        small, res2 = prog, res
    feats = features(small)
    if any(getattr(st, "_wc", None) and any(st._wc.values()) for st in all_stmts(small)):
        feats.add("wc-markers")
    key = "semantics:" + ",".join(sorted(feats))[:160]
    ctx.violation(
        key,
        f"expected {res2['expected']!r} got {res2['actual']!r}",
        {"source": res2["source"], "partials": res2["partials"], "data": data, "cfg": list(cfg),
         "expected": list(res2["expected"]), "actual": list(res2["actual"]),
         "original_source": res["source"] if res2 is not res else None, "gen": [str(gen_id[0]), gen_id[1]]},
    )


def all_stmts(prog: M.Program):
    yield from M.walk(prog.body)
    for b in prog.partials.values():
        yield from M.walk(b)


# ------------------------------------------------------------------ framework hooks


def shards(tier: str, seed: int) -> list[dict[str, Any]]:
    n = 16
    per = 220 if tier == "quick" else 6000
    return [{"kind": "gen", "i": i, "n": n, "per": per} for i in range(n)]


def floors(tier: str) -> dict[str, int]:
    k = 1 if tier == "quick" else 20
    return {"reference_comparisons": 2000 * k, "set:features": 60, "set:configs": 12}


def run_shard(spec: dict[str, Any], ctx: Ctx) -> None:
    from ..core import CaseBudget
    from ..core import case_budget

    for j in range(spec["per"]):
        try:
            with case_budget(120):
                run_case(ctx, f"{spec['seed']}:{spec['i']}", j, spec["tier"])
        except CaseBudget:
            # a program whose loops feed on their own growing output: skipped, never judged
            ctx.count("cases_skipped:wall-clock-watchdog")


def replay(wit: dict[str, Any], ctx: Ctx) -> None:
    cfg = tuple(wit["cfg"])
    got = real_render(cfg, wit["source"], wit.get("partials") or {}, wit.get("data") or {})
    exp = tuple(wit["expected"])
    print("replay C01: source   =", repr(wit["source"]))
    print("            partials =", wit.get("partials"))
    print("            expected =", exp)
    print("            actual   =", got)
    bad = (got != exp) if exp[0] == "ok" else (got[0] != "err")
    if bad:
        ctx.violation("replayed", f"expected {exp!r} got {got!r}", wit)
