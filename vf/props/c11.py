"""C11 — static analysis over-approximates runtime usage and reports exact locations.

Monitors (vf/c11_mon.py): lookup trace on RenderContext.get/get_async/resolve, a
RecordingMapping as the global layer of the render, filter trace on RenderContext.filter
(the callable actually applied is wrapped), node trace on ast.Node.render/render_async,
binder trace on assign/extend/copy/increment/decrement.  Oracle: every runtime fact must be
covered by Template.analyze() *at the same location*; every reported location must cut the
reported path / filter name / tag markup out of the named template's source; the async
analysis and the helper methods must agree with analyze().
"""

from __future__ import annotations

import dataclasses
import random
import re
from typing import Any

from .. import c11_gen as G
from .. import c11_mon as MON
from ..core import Ctx
from ..minimize import ddmin

ID = "C11"
LEVEL = "exploration"
RULE = (
    "cases = template sets (root + literal-named partials in sub-directories + extends chains) "
    "from (a) a purpose-built generator that writes every path, filter name and tag markup through "
    "a position-recording writer (lambdas, macros, with, for, tablerow, translate, template strings, "
    "ranges, ternaries with branch/tail filters, {% liquid %} line statements, nested paths, comments "
    "of all three kinds before markup, whitespace-control markers), (b) the shared program generator "
    "of C01 emitted with comments/noisy layouts and partials under 'snippets/', (c) hand-written cases, "
    "(d) programs with a dynamic partial name analysed with include_partials=False, (e) every fifth generated "
    "program has no `for` tag; the values iterated/bound by for, tablerow, render/include for|with, with and "
    "cycle range over mapping, int, float, string, bool, nil, undefined, nested list, empty list, tuple, "
    "range; bodies/partials mention forloop, tablerowloop, args/kwargs, block, count, aliases; half of the data "
    "sets carry user globals of those names; each program is "
    "analysed (sync, and async under a real event loop, 16 helper calls) through a plain DictLoader (40 %), "
    "a DictLoader whose get_source_async suspends 1-3 times (42 %) or a FileSystemLoader over a scratch "
    "directory (18 %), and rendered sync/async with 6 data sets (all-true/rich, "
    "all-false/empty, random, names deleted) under the monitors.  distinct = hash(template set, data, "
    "mode); non-trivial = that render executed >= 1 located variable lookup, >= 1 filter application "
    "and >= 1 tag."
)
ASSUMPTIONS = [
    "elsif/else/when/plural/end* markers are parts of their tag (analyze() never lists them); "
    "comment and raw markup are not tags",
    "'the template never binds the name': a name is taken as bound when (a) an identifier written in some "
    "template of the set binds it in ANY scope (assign, capture, loop variable, with, macro parameter, "
    "include/render argument or alias incl. the default alias derived from the partial's name, lambda "
    "parameter, counter, translate argument), or a tag that binds it for certain is written in the set "
    "(`for` -> forloop, `tablerow` -> tablerowloop, `macro` -> args/kwargs, `block` -> block), or (b) the "
    "render under observation actually bound it (assign/extend/copy/counter trace); `render ... for` is NOT "
    "a certain binder of forloop (it binds it only for sequences), so forloop there is decided by (b)",
    "lookups of names that ARE bound somewhere but were served by the global namespace while analyze() "
    "treats the occurrence as in scope (for-else, capture inside its own block, isolated macro bodies, "
    "extends inside a rendered partial, translate's context argument, statements after extends, `seen` "
    "keyed by name) are outside the property's clause: they are counted (`diag:*`) and the nine hand probes' "
    "verdicts are in observed_sets.probe_results, not reported as violations (switches "
    "SCOPE_MISMATCH_IS_VIOLATION in vf/c11_mon.py, PROBE_CLAUSE_VIOLATIONS_REPORTED here)",
    "dynamic partial names and dynamic root segments (`{{ [a.b] }}`) are outside the workload, except "
    "for root-template facts under include_partials=False",
    "a runtime lookup is matched to the static report by (template named in the span, start, stop) "
    "with structural segment comparison; two loader names with identical source text are "
    "interchangeable for that match",
    "renders that end in an error still contribute the facts recorded before the error",
    "trailing blanks of a {% liquid %} line statement may belong to its reported span",
]

DATASETS = 6


# ------------------------------------------------------------------------- shards


def shards(tier: str, seed: int) -> list[dict[str, Any]]:
    q = tier == "quick"
    specs: list[dict[str, Any]] = []
    n_own = 11 if q else 14
    for i in range(n_own):
        specs.append({"kind": "own", "i": i, "n": n_own, "count": 90 if q else 2000})
    n_sh = 3 if q else 4
    for i in range(n_sh):
        specs.append({"kind": "shared", "i": i, "n": n_sh, "count": 60 if q else 1500})
    specs.append({"kind": "dyn", "i": 0, "n": 1, "count": 50 if q else 1200})
    specs.append({"kind": "hand", "i": 0, "n": 1})
    specs.append({"kind": "probes", "i": 0, "n": 1})
    return specs


def floors(tier: str) -> dict[str, int]:
    k = 1 if tier == "quick" else 20
    return {
        "runtime_facts_checked": 20_000 * k,
        "spans_relexed": 5_000 * k,
        "analysis_pairs": 500 * k,
        "analysis_pairs:suspend": 150 * k,  # loaders whose async path really suspends
        "analysis_pairs:fs": 60 * k,
        "analysis_pairs:route": 50 * k,  # loaders that route on the load context (tag=..., context)
        "analysis_pairs:route-suspend": 50 * k,
        "cases_with:deep-selector": 150 * k,
        "cases_with:loader-matter": 120 * k,  # loaders / from_string that pin matter to the root
        "hook:matter_layer_answers": 1_000 * k,  # global-namespace lookups answered by matter  # bracketed selectors nested 2-4 levels deep
        "cases_with:reader-after-binder": 150 * k,
        "cases_with:scoped-partial": 100 * k,
        "facts:lookups": 8_000 * k,
        "facts:filters": 2_000 * k,
        "facts:tags": 4_000 * k,
        "facts:global_names": 3_000 * k,
        "posmap_checks": 5_000 * k,
        "helper_calls": 8_000 * k,
        "hook:global_layer_hits": 10_000 * k,
        "set:tags_executed": 20,
        "set:filters_applied": 30,
        "set:features": 25,
        "distinct_nontrivial": 1_500 * k,
    }


# ------------------------------------------------------------------- minimisation

RE_MARKUP = re.compile(r"(\{%.*?%\}|\{\{.*?\}\}|\{#+.*?#+\})", re.S)


def _has(chk: MON.Checker, case: dict[str, Any], key: str) -> bool:
    try:
        res = MON.run_case(chk, case, only=key)
    except Exception:  # noqa: BLE001
        return False
    return res is not None and any(k == key for k, _, _ in res)


def minimise(case: dict[str, Any], key: str) -> dict[str, Any]:
    chk = MON.Checker(None, record=False)
    c = {k: v for k, v in case.items() if k not in ("posmap", "features")}
    if not _has(chk, c, key):
        return case  # needs the position map: text cannot be shrunk
    c0 = dict(c, datasets=[])
    if _has(chk, c0, key):
        c = c0
    else:
        for i, d in enumerate(c["datasets"]):
            c1 = dict(c, datasets=[d], modes=["async" if i % 3 == 2 else "sync"])
            if _has(chk, c1, key):
                c = c1
                break
    root = c["root"]
    for name in [root] + [n for n in c["templates"] if n != root]:
        if name not in c["templates"]:
            continue
        chunks = [x for x in RE_MARKUP.split(c["templates"][name]) if x]
        if len(chunks) < 2:
            continue

        def test(ch: list[str], name: str = name) -> bool:
            t2 = dict(c["templates"])
            t2[name] = "".join(ch)
            return _has(chk, dict(c, templates=t2), key)

        small = ddmin(chunks, test, max_calls=220)
        t2 = dict(c["templates"])
        t2[name] = "".join(small)
        c = dict(c, templates=t2)
    for name in [n for n in c["templates"] if n != root]:
        t2 = {k: v for k, v in c["templates"].items() if k != name}
        if _has(chk, dict(c, templates=t2), key):
            c = dict(c, templates=t2)
    for name in list(c["templates"]):
        src = c["templates"][name]
        if not 2 <= len(src) <= 400:
            continue

        def test2(ch: list[str], name: str = name) -> bool:
            t2 = dict(c["templates"])
            t2[name] = "".join(ch)
            return _has(chk, dict(c, templates=t2), key)

        small2 = ddmin(list(src), test2, max_calls=260)
        t2 = dict(c["templates"])
        t2[name] = "".join(small2)
        c = dict(c, templates=t2)
    if c["datasets"]:
        d = dict(c["datasets"][0])
        for k in list(d):
            d2 = {a: b for a, b in d.items() if a != k}
            if _has(chk, dict(c, datasets=[d2]), key):
                d = d2
        c = dict(c, datasets=[d])
    return c


def report(ctx: Ctx, case: dict[str, Any], res: list[tuple[str, str, dict[str, Any]]], origin: Any) -> None:
    for key, what, det in res:
        wit = {k: v for k, v in case.items() if k != "features"}
        if not det.get("posmap"):
            wit.pop("posmap", None)
        if key not in ctx.violations:
            try:
                small = minimise(wit, key)
                if small is not wit:
                    # describe the violation as it shows in the minimal witness
                    chk = MON.Checker(None, record=False)
                    again = MON.run_case(chk, small) or []
                    for k2, w2, d2 in again:
                        if k2 == key:
                            what, det = w2, d2
                            break
                    wit = small
            except Exception as e:  # noqa: BLE001
                ctx.note(f"minimise failed for {key}: {type(e).__name__}: {e}")
        wit = dict(wit)
        wit["detail"] = {k: v for k, v in det.items() if k != "posmap"}
        wit["origin"] = origin
        ctx.violation(key, what, wit)


# ------------------------------------------------------------------------ workloads


def pick_loader(*parts: Any) -> str:
    """suspending dict 30 % / file system 14 % / tag-routing 12 % / tag-routing + suspending 12 % /
    plain dict 32 %, a pure function of the case id."""
    x = random.Random(":".join(map(str, parts))).random()
    for lim, kind in ((0.26, "suspend"), (0.38, "fs"), (0.49, "route"), (0.60, "route-suspend"),
                      (0.66, "matter-dict"), (0.72, "matter-dict-async"), (0.76, "matter-fs"),
                      (0.82, "matter-fromstring")):
        if x < lim:
            return kind
    return "dict"


def add_matter(case: dict[str, Any], *seed: Any) -> None:
    """Loader matter for the root (and some partials): names from the SAME pool the templates
    read, values from the first data set.  Matter is global data: nothing binds these names."""
    if case.get("loader") not in MON.MATTER_KINDS:
        return
    r = random.Random(":".join(map(str, seed)))
    pool = sorted(G.GLOBALS)
    d0 = (case.get("datasets") or [{}])[0]

    def some(k: int) -> dict[str, Any]:
        out = {}
        for n in r.sample(pool, k):
            v = d0.get(n, "m")
            out[n] = list(v) if isinstance(v, tuple) else v
        return out

    matter = {case["root"]: some(r.randint(2, 6))}
    for n in sorted(case.get("partials") or ())[:2]:
        matter[n] = some(r.randint(1, 3))
    case["matter"] = matter
    case.setdefault("features", []).append("loader-matter")


def add_decoys(case: dict[str, Any]) -> None:
    """For a tag-routing loader: under the plain name of every other partial sits a DIFFERENT
    template; a caller that forgets the load context analyses that one (the rest are not found)."""
    if case.get("loader") in ("route", "route-suspend"):
        parts = sorted(case.get("partials") or ())
        case["decoys"] = {n: "{{ decoy_%d | upcase }}{%% assign decoy = %d %%}<decoy of %s>" % (i, i, n)
                          for i, n in enumerate(parts) if i % 2 == 0}


class _CaseBudget(BaseException):
    """Raised by the wall-clock watchdog around ONE generated case (never a verdict)."""


CASE_BUDGET_S = 90


def _on_alarm(*_a: Any) -> None:
    raise _CaseBudget()


def _run(ctx: Ctx, chk: MON.Checker, case: dict[str, Any], origin: Any) -> None:
    # A generated program can feed a loop its own growing output (an included partial that
    # re-assigns the list the caller iterates, inside nested loops): the render is correct but
    # takes hours.  Such a case is skipped and counted; it is neither held nor violated.
    import signal

    old = signal.signal(signal.SIGALRM, _on_alarm)
    signal.alarm(CASE_BUDGET_S)
    try:
        res = MON.run_case(chk, case)
    except _CaseBudget:
        ctx.count("cases_skipped:wall-clock-watchdog")
        return
    finally:
        signal.alarm(0)
        signal.signal(signal.SIGALRM, old)
    if res is None:
        ctx.count("cases_rejected")
        return
    ctx.count("cases")
    for f in case.get("features") or ():
        ctx.seen("features", f)
        if f in ("reader-after-binder", "scoped-partial", "deep-selector", "loader-matter"):
            ctx.count("cases_with:" + f)
    if res:
        report(ctx, case, res, origin)


def _own(spec: dict[str, Any], ctx: Ctx, dynamic: bool = False) -> None:
    chk = MON.Checker(ctx)
    last = None
    for j in range(spec["count"]):
        ctx.check_deadline()
        rng = random.Random(f"{spec['seed']}:{spec['kind']}:{spec['i']}:{j}")
        no_for = (not dynamic) and j % 5 == 4  # every fifth program has no `for` tag at all
        g = G.G(rng, G.Opts(dynamic=dynamic, inherit=0.0 if dynamic else (0.15 if no_for else 0.3), no_for=no_for))
        case = g.program()
        if no_for:
            case["features"].append("no-for-tag")
        case["datasets"] = g.datasets(DATASETS)
        case["loader"] = pick_loader(spec["seed"], "loader", spec["kind"], spec["i"], j)
        if dynamic and case["loader"].startswith("route"):
            case["loader"] = "suspend"
        add_decoys(case)
        add_matter(case, spec["seed"], "matter", spec["kind"], spec["i"], j)
        _run(ctx, chk, case, [spec["kind"], spec["seed"], spec["i"], j])
        last = case
        if j < 2 and spec["i"] == 0:
            ctx.sample({"kind": spec["kind"], "root": case["root"], "templates": case["templates"],
                        "features": case["features"]})
    if last is not None and spec["i"] == 1:
        ctx.sample({"kind": spec["kind"], "root": last["root"], "templates": last["templates"]})


def model_binders(prog: Any) -> set[str]:
    from ..gen import model as M

    out: set[str] = set()

    def walk(o: Any) -> None:
        if isinstance(o, (list, tuple)):
            for x in o:
                walk(x)
            return
        if isinstance(o, dict):
            for x in o.values():
                walk(x)
            return
        if not dataclasses.is_dataclass(o):
            return
        if isinstance(o, M.Lam):
            out.update(o.params)
        elif isinstance(o, (M.Assign, M.Capture, M.Incr, M.Decr)):
            out.add(o.name)
        elif isinstance(o, M.For):
            out.update([o.var, "forloop"])  # a `for` tag binds forloop whenever its body runs
        elif isinstance(o, M.With):
            out.update(k for k, _ in o.binds)
        elif isinstance(o, M.Macro):
            out.update(k for k, _ in o.params)
            out.update(["args", "kwargs"])
        elif isinstance(o, M.Call):
            out.update(k for k, _ in o.kwargs)
        elif isinstance(o, M.Partial):
            out.update(k for k, _ in o.kwargs)
            if o.alias:
                out.add(o.alias)
            elif o.mode:
                out.add(o.name.split(".", 1)[0])
                out.add(o.name.rsplit("/", 1)[-1].split(".", 1)[0])
        for f in dataclasses.fields(o):
            walk(getattr(o, f.name))

    walk(prog.body)
    walk(prog.partials)
    return out


def _shared(spec: dict[str, Any], ctx: Ctx) -> None:
    from ..gen import emit as E
    from ..gen.programs import Gen
    from ..gen.programs import Profile

    chk = MON.Checker(ctx)
    for j in range(spec["count"]):
        ctx.check_deadline()
        rng = random.Random(f"{spec['seed']}:shared:{spec['i']}:{j}")
        style = j % 3
        prof = Profile(partial_prefix=["", "snippets/", "parts/sub/"][style],
                       partial_suffix=["", ".html", ".liquid"][style], max_stmts=8)
        gen = Gen(rng, prof)
        prog = gen.program()
        lay = E.Layout(random.Random(rng.random()), p_marker=0.3, noisy_ws=rng.random() < 0.6,
                       alt_forms=rng.random() < 0.6, comments=True)
        try:
            em = E.emit(prog, lay)
        except (TypeError, ValueError):
            ctx.count("cases_rejected:emit")
            continue
        root = ["root", "pages/root.html", "root.liquid"][style]
        templates = {root: em.source, **em.partials}
        datas = [gen.data() for _ in range(DATASETS - 1)] + [{}]
        case = {"templates": templates, "root": root, "dynamic": False,
                "binders": sorted(model_binders(prog)), "datasets": datas,
                "loader": pick_loader(spec["seed"], "loader", "shared", spec["i"], j),
                "partials": sorted(em.partials),
                "features": ["shared-generator", "shared:comments-layout"]}
        add_decoys(case)
        add_matter(case, spec["seed"], "matter", "shared", spec["i"], j)
        _run(ctx, chk, case, ["shared", spec["seed"], spec["i"], j])
        if j == 0 and spec["i"] == 0:
            ctx.sample({"kind": "shared", "root": root, "templates": templates})


HAND: list[tuple[str, dict[str, str], str]] = [
    ("comments-before-markup", {"index": (
        "{# c #}{{ h.a.b | upcase }}{% # x %}{% assign v1 = s | append: title %}"
        "{% comment %}z{% endcomment %}{% for i in xs %}{{ i }}{{ forloop.index }}{% endfor %}"
        "{## y ##}{% if flag %}{{ v1 }}{% endif %}{%- # z -%}{{- who -}}"
        "{% comment %}{{ ghost }}{% endcomment %}{% echo n | plus: m %}")}, "index"),
    ("range-paths", {"index": (
        "{{ (h.idx..h.a.c) | join: ',' }}{% for i in (n..h.list.size) %}{{ i }}{% endfor %}"
        "{% assign v1 = (1..lim) %}{{ v1 | size }}{{ (h.a.c..3) }}")}, "index"),
    ("lambdas", {"index": (
        "{{ items | map: el => el.k | join: s }}{{ items | where: (it, idx) => it.k == n and idx < lim | size }}"
        "{{ rows | find: e => e.t contains who | json }}{{ items | map: el => el[h.key] }}{{ el }}{{ it.k }}")},
     "index"),
    ("macros", {"index": (
        "{% macro mm pa, pb: title %}{{ pa }}{{ pb }}{{ args | join: s }}{{ kwargs.extra }}{{ who }}{% endmacro %}"
        "{% call mm n, pb: h.a.b %}{% call mm %}{% call 'mm' xs[0], m, flag, extra: user.name %}{{ pa }}")},
     "index"),
    ("with-tablerow-translate", {"index": (
        "{% with wa: h.a, wb: s %}{{ wa.b }}{{ wb }}{% endwith %}{{ wa }}"
        "{% tablerow row in items cols: m limit: lim %}{{ row.t }}{{ tablerowloop.col }}{% endtablerow %}"
        "{% translate you: user.name, count: n %}Hi {{ you }} {{ who }}{% plural %}His {{ you }} {{ count }}{% endtranslate %}"
        "{% translate %}Plain {{ title }}{% endtranslate %}")}, "index"),
    ("template-strings-ternaries", {"index": (
        "{{ 'a ${h.a.b | upcase} b ${ n }' }}{{ \"x${ items[0].t }\" | append: s }}"
        "{{ s | upcase if flag else title | downcase || append: who | prepend: h.name }}"
        "{{ n if ok }}{{ xs | first | plus: m if show else words | join: s }}"
        "{% assign v2 = s | append: who if flag else title %}{{ v2 }}")}, "index"),
    ("liquid-tag", {"index": (
        "{% liquid\n  assign v1 = s | append: title\n  # note\n  echo v1 | default: who\n  if flag\n    echo n\n"
        "  elsif ok\n    echo m\n  else\n    echo lim\n  endif\n  for i in xs\n    echo i | plus: n\n  endfor\n"
        "  case n\n  when 0, m\n    echo s\n  else\n    echo title\n  endcase\n  increment c1\n%}"
        "{% liquid echo who\n echo s %}{% liquid\n cycle s, title\n render 'snippets/p.html', ka: n %}"),
        "snippets/p.html": "{{ ka }}{{ who }}"}, "index"),
    ("nested-paths", {"index": (
        "{{ h[h.key].b }}{{ xs[h.idx] }}{{ page.items[h.idx].t }}{{ h['two words'] }}{{ h[ 'a' ]. b }}"
        "{{ h.list[h.list[0]] }}{{ items[n].tags[h.idx] }}{{ words[xs[0]] | upcase }}")}, "index"),
    ("partials-subdirs", {"pages/index.html": (
        "{% include 'snippets/card.html' with items[0] %}{% include 'snippets/card.html' with items[0] as al, ka: s %}"
        "{% render 'snippets/sub/row.liquid' for rows as row, kb: title %}{% render 'snippets/sub/row.liquid' with h %}"
        "{% include 'plain' for xs %}{% assign v1 = 1 %}{% include 'snippets/uses_v1' %}"),
        "snippets/card.html": "{{ card.t }}{{ al.t }}{{ ka }}{{ who }}{% assign tmp = n %}",
        "snippets/sub/row.liquid": "{{ row.k }}{{ kb }}{{ forloop.index }}{{ flag }}{% render 'plain' %}",
        "plain": "{{ plain }}{{ m }}",
        "snippets/uses_v1": "{{ v1 }}{{ lim }}"}, "pages/index.html"),
    ("inheritance", {"index": (
        "{# child #}{% extends 'layouts/mid.html' %}{{ ghost }}{% block head %}{{ s }}{{ block.super }}{% endblock %}"
        "{% block foot %}{% for i in xs %}{{ i }}{% endfor %}{% endblock %}"),
        "layouts/mid.html": "{% extends 'layouts/base.html' %}{% block head %}{{ title }}|{{ block.super }}{% endblock %}",
        "layouts/base.html": (
            "{{ who }}{% block head %}{{ h.a.b | upcase }}{% endblock %}{% if flag %}{% block main %}{{ n }}"
            "{% endblock %}{% endif %}{% block foot %}{{ m }}{% endblock %}{{ user.name }}")}, "index"),
    ("case-cycle-counters", {"index": (
        "{% case n %}{% when 0, m %}{{ s }}{% when lim or h.idx %}{{ title }}{% else %}{{ who }}{% endcase %}"
        "{% cycle 'g': s, title, n %}{% cycle s, h.a.b %}{% increment c1 %}{% decrement c1 %}{{ c1 }}"
        "{% unless flag %}{{ ok }}{% elsif show %}{{ m }}{% else %}{{ lim }}{% endunless %}"
        "{% capture tmp %}{{ s }}{% endcapture %}{{ tmp | size }}"
        "{% for x in items limit: lim offset: h.idx reversed %}{{ x.k }}{% else %}{{ none }}{% endfor %}"
        "{% for x in items offset: continue %}{{ x.t }}{% break %}{% endfor %}")}, "index"),
    ("sibling-reads-block-bound-name", {"loop.liquid": (
        "{% for item in items %}{% include 'row.liquid' %}{% endfor %}[{{ item }}]"
        "{% include 'card.liquid', label: 'x' %}{{ label }}{{ title }}"
        "{% include 'card.liquid' with s as z %}{{ z }}"
        "{% with wa: n %}{% render 'row.liquid', item: wa %}{% endwith %}{{ wa }}"
        "{% macro mm pa %}{% render 'sub/deep.liquid' %}{{ pa }}{% endmacro %}{{ pa }}{% call mm m %}"
        "{% for row in rows %}{% render 'sub/deep.liquid' %}{% endfor %}{{ row.k }}{{ forloop.index }}"),
        "row.liquid": "<{{ item }}>", "card.liquid": "({{ label }}/{{ title }}/{{ z }})",
        "sub/deep.liquid": "{{ who }}{% render 'row.liquid', item: lim %}"}, "loop.liquid"),
    ("binders-over-non-sequences", {"index": (
        "{% render 'row.html' for h %}{% render 'row.html' for n as it2 %}{% render 'row.html' for nothing %}"
        "{% render 'row.html' for s %}{% render 'row.html' for pair.nosuch %}{% render 'row.html' for f %}"
        "{% include 'inc.html' for page %}{% include 'inc.html' for flag as z %}"
        "{% cycle h, nothing, grid %}{% with wa: grid, wb: pair %}{{ wa }}{{ wb }}{% endwith %}"),
        "row.html": "[{{ row }}{{ it2 }}{{ forloop.index }}/{{ forloop.length }}]",
        "inc.html": "({{ inc }}{{ z }}{{ forloop.index }})"}, "index"),
    ("binders-over-sequences", {"index": (
        "{% render 'row.html' for xs %}{% render 'row.html' for pair as it2 %}{% render 'row.html' for grid %}"
        "{% render 'row.html' for none %}{% include 'inc.html' for words %}{% include 'inc.html' for (1..n) as z %}"
        "{% tablerow r in grid cols: 2 %}{{ r }}{{ tablerowloop.col }}{% endtablerow %}{{ tablerowloop.col }}"
        "{% tablerow r in h %}{{ r }}{{ tablerowloop.row }}{% endtablerow %}"
        "{% macro mm pa %}{{ args }}{{ kwargs.extra }}{{ pa }}{% endmacro %}{% call mm 1, 2, extra: s %}{{ args }}"),
        "row.html": "[{{ row }}{{ it2 }}{{ forloop.index }}/{{ forloop.length }}]",
        "inc.html": "({{ inc }}{{ z }}{{ forloop.index }})"}, "index"),
    ("shared-base-names", {"pages/index": (
        "{% render 'cards/item' %}{% render 'rows/item' %}{% include 'item' %}{% render 'a/b/item.liquid' %}"
        "{% render 'item.liquid' %}{% include 'item.html' %}{% render 'snippets/index' %}{% include 'cards/item' %}"
        "{% render 'item' %}"),
        "cards/item": "{{ s | upcase }}{% assign v1 = n %}", "rows/item": "{{ title | downcase }}{% cycle m, lim %}",
        "item": "{{ who | append: s }}{% if flag %}{{ ok }}{% endif %}",
        "a/b/item.liquid": "{{ xs | join: title }}{% increment c1 %}",
        "item.liquid": "{{ words | first }}{% unless show %}{{ h.a.b }}{% endunless %}",
        "item.html": "{{ items | size }}{% capture tmp %}{{ page.title }}{% endcapture %}",
        "snippets/index": "{{ user.name | capitalize }}{% echo h.idx %}"}, "pages/index"),
    ("shared-base-names-parents", {"index.html": (
        "{% extends 'layouts/v2/base.html' %}{% block main %}{{ s }}{{ block.super }}{% endblock %}"),
        "layouts/v2/base.html": "{% extends 'layouts/base.html' %}{% block main %}{{ title | upcase }}{{ block.super }}{% endblock %}",
        "layouts/base.html": "{{ who }}{% block main %}{{ n | plus: m }}{% endblock %}{% render 'snippets/index.html' %}",
        "snippets/index.html": "{{ lim | minus: 1 }}"}, "index.html"),
    ("implicit-lookups", {"index": (
        "{{ 'Hello %(who)s' | t }}{{ 'Bye %(you)s' | t: you: s }}{{ 'x' | gettext }}")}, "index"),
]


RE_PARTIAL_LITERAL = re.compile(r"(?:include|render)\s*['\"]([^'\"]+)['\"]")
RE_FOR = re.compile(r"(?:\{%[-+~]?|\n)\s*for\s+[\w-]+\s+in\b")
RE_TABLEROW = re.compile(r"(?:\{%[-+~]?|\n)\s*tablerow\s")
RE_MACRO = re.compile(r"(?:\{%[-+~]?|\n)\s*macro\s")
RE_BLOCK = re.compile(r"(?:\{%[-+~]?|\n)\s*block\s")


def certain_implicit_binders(templates: dict[str, str]) -> set[str]:
    """Names bound for certain by a tag written in the set (`render ... for` is not one:
    it binds forloop only when its value is a sequence)."""
    out: set[str] = set()
    for src in templates.values():
        if RE_FOR.search(src):
            out.add("forloop")
        if RE_TABLEROW.search(src):
            out.add("tablerowloop")
        if RE_MACRO.search(src):
            out.update(["args", "kwargs"])
        if RE_BLOCK.search(src):
            out.add("block")
    return out


HAND_EXPLICIT = {"v1", "v2", "tmp", "i", "x", "row", "el", "it", "idx", "e", "pa", "pb", "wa", "wb", "you",
                 "count", "c1", "ka", "kb", "al", "card", "plain", "snippets/card", "snippets/sub/row", "item",
                 "label", "z", "it2", "inc", "r"}

# The probes' verdicts always go to the evidence; their clause violations (if any) become
# violations of the run only when this is True.
PROBE_CLAUSE_VIOLATIONS_REPORTED = True
# Probes whose (genuine) clause violations on the unchanged tree await the fix / known-finding
# decision: recorded in the evidence, not yet reported.  Empty this set once decided.
PROBES_PENDING_DECISION: set[str] = set()

# (n, what the seeding agent says, templates, root, data) -- checked on the unchanged tree; the
# verdicts go to the evidence (set `probe_results`, notes), see SCOPE_MISMATCH_IS_VIOLATION
PROBES: list[tuple] = [
    # -- round 6.  In (12) and (13) NOTHING binds the name in any execution of that render, so the
    # property's clause applies as it did for `render ... for` over a non-sequence (seed 4A).
    ("12", "for block scope covers the else block: forloop in `else` (empty iterable) is a global lookup",
     {"t": "{% for x in y %}{{ x }}{% else %}{{ forloop.length }}{% endfor %}"}, "t", {"y": [], "forloop": {"length": "G"}},
     {"x"}, {"mechanism": "for-scope-covers-the-else-block"}),
    ("13", "lambda parameters beyond the second are never bound at run time",
     {"t": "{{ items | map: (x, i, z) => z | join: ',' }}"}, "t", {"items": [1, 2], "z": "G"},
     {"x", "i"}, {"mechanism": "lambda-parameter-beyond-the-second"}),
    ("14", "assign inside a block tag is added to the template scope (blocks render in a copied context)",
     {"t": "{% block c %}{% assign q = 1 %}{% endblock %}{{ q }}"}, "t", {"q": "G"}, {"q", "block"}),
    ("16", "the static context always carries the ROOT template: a loader resolving names relative to "
           "context.template loads another partial for analysis than for the render",
     {"pages/index": "{% include 'a/one' %}", "a/one": "{% include 'two' %}", "a/two": "{{ x }}",
      "two": "{{ y | upcase }}"}, "pages/index", {"x": 1, "y": "s"}, set(),
     {"loader": "relative", "mechanism": "static-context-template-is-the-root"}),
    ("2", "for block scope covers the else branch",
     {"t": "{% for i in y %}{% else %}{{ i }}{% endfor %}"}, "t", {"y": [], "i": "G"}, {"i", "forloop"}),
    ("3", "capture name is in scope inside its own block",
     {"t": "{% capture x %}{{ x }}{% endcapture %}"}, "t", {"x": "G"}, {"x"}),
    ("4a", "macro body analysed in the enclosing scope (reads)",
     {"t": "{% assign x = 1 %}{% macro m %}{{ x }}{% endmacro %}{% call m %}"}, "t", {"x": "G"},
     {"x", "args", "kwargs"}),
    ("4b", "macro body analysed in the enclosing scope (assign inside leaks out)",
     {"t": "{% macro m %}{% assign q = 1 %}{% endmacro %}{% call m %}{{ q }}"}, "t", {"q": "G"},
     {"q", "args", "kwargs"}),
    ("5", "extends inside a rendered partial analysed on the root scope",
     {"t": "{% assign x = 1 %}{% render 'a' %}", "a": "{% extends 'b' %}", "b": "{{ x }}"}, "t", {"x": "G"}, {"x"}),
    ("6", "translate pops its context argument",
     {"t": "{% translate context: 'c' %}Hi {{ context }}{% endtranslate %}"}, "t", {"context": "G"}, {"context"}),
    ("7", "default alias derived from the literal name, not from the loaded template's name",
     {"t": "{% render 'sub/card.html' with p %}", "sub/card.html": "{{ card }}{{ sub }}"}, "t",
     {"p": 1, "card": "G", "sub": "G"}, {"card", "sub/card"}),
    ("8", "statements after extends, outside blocks, add to the static scope",
     {"t": "{% extends 'b' %}{% assign x = 1 %}{% block c %}{{ x }}{% endblock %}", "b": "{% block c %}{% endblock %}"},
     "t", {"x": "G"}, {"x", "block"}),
    ("7b", "default alias: literal name with a dotted directory ('sub.d/card.html' binds `card`, analysis binds `sub`)",
     {"t": "{% render 'sub.d/card.html' with p %}", "sub.d/card.html": "{{ card }}{{ sub }}"}, "t",
     {"p": 1, "card": "G", "sub": "G"}, {"card"}),
    ("10", "root loaded as 'pages/index' is named 'index': a different partial 'index' is skipped as already seen",
     {"pages/index": "{{ a }}{% render 'index' %}", "index": "{{ b | upcase }}{% assign c = 1 %}"}, "pages/index",
     {"a": 1, "b": "x"}, {"c"}),
    ("9", "seen keyed by name only: include then render of the same partial",
     {"t": "{% assign x = 1 %}{% include 'a' %}{% render 'a' %}", "a": "{{ x }}"}, "t", {"x": "G"}, {"x"}),
]


def _probe_nested_root(ctx: Ctx) -> None:
    """`{{ [a.b] }}`: under which key / string is a path whose root is itself a path filed?"""
    from liquid2.shopify import Environment

    src = "{{ [a.b] }}"
    t = Environment().from_string(src)
    a = t.analyze()
    rows = [(k, list(v.segments), str(v), src[v.span.start:v.span.end]) for k, vs in a.variables.items() for v in vs]
    bad = [(k, sv, text) for k, segs, sv, text in rows if isinstance(segs[0], list) and (k != text or sv != text)]
    verdict = (f"span text and segments are right, but the entry is filed under key {bad[0][0]!r} and str(Variable) "
               f"== {bad[0][1]!r} while its span covers {bad[0][2]!r}; variables() == {t.variables()!r}, "
               f"variable_paths() == {sorted(t.variable_paths())!r}") if bad else "key and string equal the span text"
    ctx.seen("probe_results", f"(11) root-level nested path {src}: {verdict}")
    ctx.note(f"probe (11) {src}: {verdict}")


def _probes(spec: dict[str, Any], ctx: Ctx) -> None:
    chk = MON.Checker(ctx)
    _probe_nested_root(ctx)
    for n, label, templates, root, data, binders, *extra in PROBES:
        opts = extra[0] if extra else {}
        case = {"templates": templates, "root": root, "dynamic": False, "binders": sorted(binders),
                "datasets": [data], "loader": opts.get("loader", "dict"), "features": ["probe:" + n]}
        if opts.get("mechanism"):
            case["mechanism"] = opts["mechanism"]
        res = MON.run_case(chk, case)
        ctx.count("cases")
        diag = [f"{d['name']!r} at {d['template'][0]}[{d['start']}:{d['stop']}] ({d['via']}, in {d['node']})"
                for d in chk.diag]
        viol = [k for k, _w, _d in (res or []) if not k.startswith(("span:", "analyze-async:", "helper:"))]
        verdict = ("served by the global namespace but not reported as a global: " + "; ".join(diag)) if diag \
            else "no scope mismatch observed"
        if viol:
            verdict += " | clause violations: " + ", ".join(sorted(set(viol)))
        ctx.seen("probe_results", f"({n}) {label}: {verdict}")
        ctx.note(f"probe ({n}) {label}: {templates} data={data}: {verdict}")
        if res and PROBE_CLAUSE_VIOLATIONS_REPORTED and n not in PROBES_PENDING_DECISION:
            report(ctx, case, res, ["probe", n])


def _hand(spec: dict[str, Any], ctx: Ctx) -> None:
    chk = MON.Checker(ctx)
    rng = random.Random(f"{spec['seed']}:hand")
    for label, templates, root in HAND:
        datas = [G.make_data(rng, v) for v in range(DATASETS)]
        binders = HAND_EXPLICIT | certain_implicit_binders(templates)
        parts = sorted({m for src in templates.values() for m in RE_PARTIAL_LITERAL.findall(src)})
        for lk in MON.LOADER_KINDS + MON.MATTER_KINDS:
            case = {"templates": templates, "root": root, "dynamic": False, "binders": sorted(binders),
                    "datasets": datas, "loader": lk, "partials": parts,
                    "features": ["hand:" + label, "loader:" + lk]}
            add_decoys(case)
            add_matter(case, spec["seed"], "matter", "hand", label, lk)
            _run(ctx, chk, case, ["hand", label, lk])
    ctx.sample({"kind": "hand", "templates": HAND[0][1]})


def run_shard(spec: dict[str, Any], ctx: Ctx) -> None:
    kind = spec["kind"]
    if kind == "own":
        _own(spec, ctx)
    elif kind == "dyn":
        _own(spec, ctx, dynamic=True)
    elif kind == "shared":
        _shared(spec, ctx)
    elif kind == "hand":
        _hand(spec, ctx)
    elif kind == "probes":
        _probes(spec, ctx)


def replay(wit: dict[str, Any], ctx: Ctx) -> None:
    case = {k: v for k, v in wit.items() if k not in ("detail", "origin", "minimised_from")}
    chk = MON.Checker(ctx)
    print("replay C11: templates")
    for n, s in case["templates"].items():
        print(f"  [{n}]{' (root)' if n == case['root'] else ''}: {s!r}")
    res = MON.run_case(chk, case)
    if res is None:
        print("replay C11: the witness is not a valid case (does not parse)")
        return
    cs = None
    try:
        cs = MON.Case(case)
        print(f"  loader: {cs.loader_kind}")
        a = cs.t.analyze(include_partials=not cs.dynamic)
        c = MON.canon(a)
        for field, rows in c.items():
            print(f"  analyze().{field}: {rows}")
        rec = chk.rec
        print(f"  last render: {len(rec.lookups)} located lookups, {len(rec.filters)} filters applied, "
              f"{len(rec.tags)} tags executed, global layer saw {sorted(rec.global_hits)}")
        for (src, a0, b0), (path, node, _n, _t) in list(rec.lookups.items())[:40]:
            print(f"    lookup {cs.names_of.get(src)}[{a0}:{b0}] {src[a0:b0]!r} in {node}")
        for (src, a0, b0, name) in list(rec.filters)[:40]:
            print(f"    filter {name!r} at {cs.names_of.get(src)}[{a0}:{b0}]")
        for (src, a0, b0, name) in list(rec.tags)[:40]:
            print(f"    tag {name!r} at {cs.names_of.get(src)}[{a0}:{b0}]")
    except Exception as e:  # noqa: BLE001
        print(f"  (view unavailable: {type(e).__name__}: {e})")
    finally:
        if cs is not None:
            cs.close()
    for key, what, det in res:
        print(f"replay C11: key={key}: {what}")
        w = dict(wit)
        w["detail"] = {k: v for k, v in det.items() if k != "posmap"}
        ctx.violation(key, what, w)
    if not res:
        print("replay C11: no violation reproduced")
