"""C18 — whitespace control changes nothing but whitespace.

Metamorphic runtime oracle on the real engine: the same abstract program is emitted
with many assignments of {none,-,~,+} to its marker positions and rendered under
default_trim x suppress_blank_control_flow_blocks; every output, with whitespace
deleted, must equal the marker-free default_trim='+' output with whitespace deleted.
With no trimming in force the output must equal the reference interpreter's text.
"""

from __future__ import annotations

import itertools
import copy
import random
from typing import Any

from ..core import Ctx
from ..gen import emit as E
from ..gen.programs import Gen
from ..gen.programs import Profile
from . import c01

ID = "C18"
LEVEL = "exploration"
RULE = (
    "programs from the shared typed grammar in a profile whose expressions never inspect "
    "captured text, literal text drawn from printable bits mixed with every kind of whitespace "
    "str.strip() recognises (ASCII and unicode); for each program all 4^N assignments of "
    "{none,-,~,+} to its N marker positions when N <= 5 (sampled beyond), x default_trim in "
    "{+,-,~} x suppress_blank_control_flow_blocks in {on,off}. distinct = hash of (source, "
    "configuration, data); non-trivial = >= 2 marker positions set and >= 1 whitespace "
    "character adjacent to markup in the emitted source."
)
ASSUMPTIONS = [
    "whitespace = characters for which str.isspace() is true (the set str.strip() removes)",
    "programs that compare, measure or filter captured text are outside the statement and are "
    "not generated (captured variables are only printed)",
]


def strip_ws(s: str) -> str:
    return "".join(ch for ch in s if not ch.isspace())


def has_adjacent_ws(src: str) -> bool:
    for i, ch in enumerate(src):
        if ch.isspace():
            if src[i + 1 : i + 3] in ("{{", "{%", "{#") or src[max(0, i - 2) : i] in ("}}", "%}", "#}"):
                return True
    return False


def run_program(ctx: Ctx, seed: str, j: int, tier: str) -> None:
    rng = random.Random(f"{seed}:{j}")
    tiny = j % 2 == 0
    prof = Profile(captures_inspected=False, unicode_ws=True, max_stmts=3 if tiny else 6,
                   max_depth=1 if tiny else 3, partials=not tiny, macros=not tiny)
    g = Gen(rng, prof)
    prog = g.program()
    data = g.data()
    # baseline: no markers, '+'
    lay0 = E.Layout(random.Random(1))
    em0 = E.emit(prog, lay0)
    n = em0.n_positions
    base = {}
    for sup in (True, False):
        got = c01.real_render(("+", sup, False), em0.source, em0.partials, data)
        base[sup] = got
    ctx.ev(2)
    if base[True][0] != "ok" or base[False][0] != "ok":
        ctx.count("skipped_error_programs")
        if base[True][0] != base[False][0]:
            ctx.violation("suppression-changes-success", f"{base[True]!r} vs {base[False]!r}",
                          {"source": em0.source, "partials": em0.partials, "data": data, "cfg": ["+", True, False],
                           "base": list(base[False])})
        return
    # (1) with no trimming in force the text is reproduced exactly (reference)
    exp = c01.ref_render(prog, ("+", False, False), data)
    if exp[0] == "ok":
        ctx.count("verbatim_checks")
        if exp[1] != base[False][1]:
            ctx.violation("verbatim-text-differs", f"expected {exp[1]!r} got {base[False][1]!r}",
                          {"source": em0.source, "partials": em0.partials, "data": data,
                           "cfg": ["+", False, False], "base": [exp[0], exp[1]], "exact": True})
    # (2) suppression removes only whitespace
    ctx.count("suppression_pairs")
    if strip_ws(base[True][1]) != strip_ws(base[False][1]):
        ctx.violation("suppression-removes-non-whitespace",
                      f"on={base[True][1]!r} off={base[False][1]!r}",
                      {"source": em0.source, "partials": em0.partials, "data": data, "cfg": ["+", True, False],
                       "base": list(base[False])})
        return
    want = strip_ws(base[False][1])
    # (3) marker assignments
    exhaustive = n <= 6
    if exhaustive:
        assigns: Any = itertools.product(E.MARKERS, repeat=n)
        ctx.count("programs_exhaustive")
    else:
        k = 40 if tier == "quick" else 300
        assigns = [tuple(rng.choice(E.MARKERS) for _ in range(n)) for _ in range(k)]
        # always include the uniform assignments
        assigns += [tuple([m] * n) for m in E.MARKERS[1:]]
    for A in assigns:
        trims = "+-~" if (exhaustive and n <= 4) or rng.random() < 0.2 else rng.choice("+-~")
        for trim in trims:
            sup = rng.random() < 0.5
            lay = E.Layout(random.Random(1), markers=list(A))
            em = E.emit(prog, lay)
            got = c01.real_render((trim, sup, False), em.source, em.partials, data)
            ctx.ev()
            ctx.count("marker_assignments")
            nset = sum(1 for m in A if m)
            if nset >= 2 and has_adjacent_ws(em.source):
                ctx.nt(em.source, sorted(em.partials.items()), trim, sup)
            # (4) a marker trims exactly the whitespace adjacent to its own markup: the
            # reference applies each (left, right) pair to the neighbouring text only
            if got[0] == "ok" and (exhaustive or rng.random() < 0.25):
                exp2 = c01.ref_render(prog, (trim, sup, False), data)
                if exp2[0] == "ok":
                    ctx.count("exact_trim_checks")
                    if exp2[1] != got[1]:
                        ctx.violation(
                            f"ws-control:exact-text-differs:trim={trim}:suppress={'on' if sup else 'off'}",
                            f"expected {exp2[1]!r} got {got[1]!r}",
                            {"source": em.source, "partials": em.partials, "data": data,
                             "cfg": [trim, sup, False], "base": ["ok", exp2[1]], "exact": True,
                             "markers": list(A), "gen": [seed, j]})
                        return
            if got[0] != "ok" or strip_ws(got[1]) != want:
                key = _key(ctx, prog, data, A, trim, sup, want)
                ctx.violation(key, f"expected (modulo whitespace) {want!r} got {got!r}",
                              {"source": em.source, "partials": em.partials, "data": data,
                               "cfg": [trim, sup, False], "base": ["ok", base[False][1]],
                               "markers": list(A), "gen": [seed, j]})
                return
    if j % 50 == 0:
        ctx.sample({"source": em.source, "partials": em.partials, "config": [trim, sup], "positions": n,
                    "exhaustive": exhaustive, "output": got[1], "baseline": base[False][1]})


def _key(ctx: Ctx, prog, data, A, trim, sup, want) -> str:
    """Mechanism: statement kinds left after shrinking the program while it still fails
    (markers are stamped on the statements, so they survive deletion of neighbours)."""
    import copy

    lay = E.Layout(random.Random(1), markers=list(A))
    E.emit(prog, lay)  # stamps _wc on statements

    def failing(p) -> bool:
        try:
            em0 = E.emit(p, E.Layout(random.Random(1)))
            b = c01.real_render(("+", False, False), em0.source, em0.partials, data)
            if b[0] != "ok":
                return False
            em = E.emit(p, E.Layout(random.Random(1), reuse=True))
            g = c01.real_render((trim, sup, False), em.source, em.partials, data)
            return g[0] != "ok" or strip_ws(g[1]) != strip_ws(b[1])
        except Exception:  # noqa: BLE001
            return False

    p2 = copy.deepcopy(prog)
    # deepcopy loses nothing: _wc lives in instance __dict__
    small = c01.shrink(p2, failing, budget=150) if failing(p2) else p2
    feats = sorted(f for f in c01.features(small) if f[0].isupper() or f.startswith(("include", "render", "for-")))
    return f"ws-control:{','.join(feats)[:120]}:trim={trim}:suppress={'on' if sup else 'off'}"


# --------------------------------------------------------------- suppression family


def _bodies() -> list[list[Any]]:
    from ..gen import model as M

    return [
        [M.Text(" \n ")],
        [M.Assign("z", M.Filt(M.Lit(1)))],
        [M.Text("\n  "), M.Assign("z", M.Filt(M.Lit(1))), M.Text(" ")],
        [M.Out(M.Filt(M.Var("v")))],
        [M.Text(" x ")],
        [M.Comment("hash", " c ")],
        [M.Raw("r")],
        [M.Incr("c1")],
        [M.Text(" "), M.Capture("cap1", [M.Text("q")]), M.Text("\n")],
        [M.Text(" "), M.LiquidTag([M.Assign("z", M.Filt(M.Lit(3)))]), M.Text(" ")],
        # outputs that start from a blank string literal but print text
        [M.Text(" "), M.Out(M.Filt(M.Lit(""), [M.FCall("append", [M.Var("v")])])), M.Text(" ")],
        [M.Out(M.Filt(M.Lit(" "), [M.FCall("append", [M.Var("v")]), M.FCall("upcase")]))],
        [M.Text("\n"), M.Out(M.Filt(M.Lit(""), [M.FCall("default", [M.Lit("dflt")])])), M.Text("\t")],
        [M.Out(M.Filt(M.Lit(""), [M.FCall("prepend", [M.Var("v")])]), form="echo")],
        # captured text that is whitespace only (printed after the nest, compared exactly)
        [M.Capture("cap1", [M.Text(" \n ")])],
        [M.Text("\t"), M.Capture("cap1", [M.Text("  "), M.Assign("z", M.Filt(M.Lit(4))), M.Text("\u00a0\n")]), M.Text(" ")],
    ]


def suppression_family(ctx: Ctx, spec: dict[str, Any]) -> None:
    """Bounded-exhaustive nests of control-flow tags whose blocks are blank / non-blank in
    every combination: with suppression on and off the outputs may differ in whitespace
    only, and must equal the reference exactly."""
    import copy as _copy

    from ..gen import model as M

    B = _bodies()
    elses: list[Any] = [None, *B]
    inners: list[Any] = []
    for items in (M.Var("none"), M.Var("two")):
        for b in B:
            for e in elses:
                inners.append(M.For("i", items, b, orelse=e))
    # loops whose bodies write nothing but DO something in every iteration, left early or skipped
    # in part by break / continue: what later iterations assign, capture and count still happens
    for stop in (1, 2, 4):
        for intr in (M.Continue(), M.Break()):
            for tail in ([M.Assign("z", M.Filt(M.Var("i")))], [M.Incr("c1")],
                         [M.Capture("cap1", [M.Out(M.Filt(M.Var("i")))])],
                         [M.Text(" "), M.Assign("z", M.Filt(M.Var("i"))), M.Text("\n")]):
                guard = M.If([(M.Cmp("==", M.Var("i"), M.Lit(stop)), [intr])], None)
                inners.append(M.For("i", M.Var("four"), [guard, *tail]))
                inners.append(M.For("i", M.Var("four"), [*tail, guard]))
                inners.append(M.For("i", M.Var("four"), [M.For("j", M.Var("two"), [guard, *tail])]))
    for cond in (True, False):
        for b in B:
            for e in elses:
                inners.append(M.If([(M.Truthy(M.Lit(cond)), b)], e))
                inners.append(M.Case(M.Lit(1), [([M.Lit(1 if cond else 2)], b)], e))
    # alternatives: an `if` / `unless` whose first block is blank and whose text sits in an elsif (or the
    # reverse), a `case` with several whens (seed c18-10A: `unless` forgot its elsif blocks when deciding
    # whether it is blank, so an enclosing blank block swallowed the elsif's text)
    for unless in (False, True):
        for first_taken in (True, False):
            c1 = M.Truthy(M.Lit(first_taken != unless))
            for bi, b in enumerate(B):
                for b2i, b2 in enumerate(B):
                    for e in (None, B[(bi + b2i) % len(B)], B[(bi + 2 * b2i + 1) % len(B)]):
                        inners.append(M.If([(c1, b), (M.Truthy(M.Lit(True)), b2)], e, unless=unless))
                for e in (None, B[bi]):
                    inners.append(M.If([(c1, b), (M.Truthy(M.Lit(False)), B[(bi + 1) % len(B)]),
                                        (M.Truthy(M.Lit(True)), B[(bi + 3) % len(B)])], e, unless=unless))
    for bi, b in enumerate(B):
        for b2 in B:
            inners.append(M.Case(M.Lit(2), [([M.Lit(1)], b), ([M.Lit(2)], b2)], B[(bi + 1) % len(B)]))
    def outers(inner: Any) -> list[list[Any]]:
        return [
            [inner],
            [M.If([(M.Truthy(M.Lit(True)), [inner])], None)],
            [M.For("o", M.Var("one"), [inner])],
            [M.If([(M.Truthy(M.Lit(False)), [M.Text("n")])], [M.Text(" "), inner, M.Text("\n")], unless=False)],
            [M.Case(M.Lit("k"), [([M.Lit("k")], [inner])], None)],
            [M.If([(M.Truthy(M.Lit(True)), [M.If([(M.Truthy(M.Lit(True)), [inner])], None)])], None)],
        ]
    data = {"none": [], "one": [1], "two": [1, 2], "four": [1, 2, 3, 4], "v": "V"}
    n = 0
    for inner in inners:
        for body in outers(inner):
            n += 1
            if n % spec["n"] != spec["i"]:
                continue
            # what the (possibly blank) blocks assigned, captured and counted is printed
            # after the nest: suppression must not lose side effects either
            prog = M.Program([M.Text("<"), *_copy.deepcopy(body), M.Text(">"),
                              M.Out(M.Filt(M.Var("cap1"))), M.Text("|"), M.Out(M.Filt(M.Var("z"))),
                              M.Text("|"), M.Incr("c1")])
            em = E.emit(prog, E.Layout(random.Random(1)))
            outs = {}
            for sup in (True, False):
                exp = c01.ref_render(prog, ("+", sup, False), data)
                got = c01.real_render(("+", sup, False), em.source, em.partials, data)
                outs[sup] = got
                ctx.ev()
                ctx.count("suppression_family_renders")
                if exp[0] == "ok" and got != exp:
                    ctx.violation(
                        "suppression-family:differs-from-reference:" + ",".join(sorted(c01.features(prog)))[:80],
                        f"suppress={'on' if sup else 'off'} expected {exp[1]!r} got {got!r}",
                        {"source": em.source, "partials": {}, "data": data, "cfg": ["+", sup, False],
                         "base": [exp[0], exp[1]], "exact": True})
            ctx.nt(em.source)
            if outs[True][0] == "ok" and outs[False][0] == "ok" and strip_ws(outs[True][1]) != strip_ws(outs[False][1]):
                ctx.violation(
                    "suppression-removes-non-whitespace:" + ",".join(sorted(c01.features(prog)))[:80],
                    f"on={outs[True][1]!r} off={outs[False][1]!r}",
                    {"source": em.source, "partials": {}, "data": data, "cfg": ["+", True, False],
                     "base": list(outs[False])})
    ctx.count("suppression_family_programs", n // spec["n"])
    ctx.sample({"kind": "suppression-family", "source": em.source, "on": outs[True], "off": outs[False]})


# --------------------------------------------------------------- delimiter look-alikes


def lookalike_family(ctx: Ctx, spec: dict[str, Any]) -> None:
    """Literal text containing delimiter look-alikes that are not markup (`{#` never
    closed, `{`, `{-`, or `#}`, `}}`, `%}` never opened): the text is one piece, so no
    marker or default trim mode may touch whitespace inside it. Exact comparison with the
    reference, which treats each text as opaque."""
    from ..gen import model as M

    rng = random.Random(f"{spec['seed']}:lookalike:{spec['i']}")
    ws = [" ", "  ", "\n", "\t", "\r\n", " \n ", "\u00a0", "\u2003", "\x0b"]
    opening = ["{#", "{##", "{", "{ {", "{-", "{~", "{ #", "{#-"]
    closing = ["#}", "}}", "%}", "}", "-%}", "-}}", "##}"]
    em = got = None
    for j in range(spec["per"]):
        looks = opening if j % 2 == 0 else closing

        def text() -> Any:
            while True:
                bits = []
                for _ in range(rng.randint(1, 5)):
                    bits.append(rng.choice([rng.choice(ws), rng.choice(ws), rng.choice(looks), rng.choice("abxyz.")]))
                if not any(b in looks for b in bits):
                    bits.insert(rng.randrange(len(bits) + 1), rng.choice(looks))
                t = "".join(bits)
                # look-alikes only: nothing that really opens markup, alone or together
                # with the markup that follows the text
                if "{{" not in t and "{%" not in t and not t.endswith("{"):
                    return M.Text(t)

        def markup(depth: int = 0) -> Any:
            k = rng.randrange(9 if depth == 0 else 7)
            if k == 0:
                return M.Out(M.Filt(M.Var("v")))
            if k == 1:
                return M.Assign("z", M.Filt(M.Lit(1)))
            if k == 2:
                return M.Comment("inline", " note ")
            if k == 3:
                # a block comment whose text holds commented-out tags with markers of their own
                return M.Comment("block", rng.choice([
                    "{% comment -%}x{% endcomment %}", " {% comment %} y {% endcomment -%} ",
                    "{%- comment ~%}{%+ endcomment +%}", "{% raw -%} r {% endraw ~%}",
                    " a {% raw %}{% endcomment -%}{% endraw -%} b ", "{% comment -%}{% comment ~%}z{% endcomment %}{% endcomment +%}",
                ]))
            if k == 4:
                # a case without branches, or whose branches are not taken
                return M.Case(M.Var("v"), [] if rng.random() < 0.6 else [([M.Lit("nope")], [text()])], None)
            if k == 5:
                return M.LiquidTag([M.Assign("z", M.Filt(M.Lit(2)))])
            if k == 6:
                return M.Out(M.Filt(M.Var("z")))
            if k == 7:
                return M.If([(M.Truthy(M.Lit(True)), [text(), markup(1), text()])], None)
            return M.For("i", M.Var("two"), [text(), markup(1)])

        body: list[Any] = []
        for _ in range(rng.randint(1, 3)):
            if rng.random() < 0.85:
                body.append(text())
            body.append(markup())
        if rng.random() < 0.85:
            body.append(text())
        prog = M.Program(body)
        data = {"v": "V", "two": [1, 2]}
        lay0 = E.Layout(random.Random(1))
        n = E.emit(prog, lay0).n_positions
        for _ in range(6):
            A = [rng.choice(E.MARKERS) if rng.random() < 0.5 else "" for _ in range(n)]
            trim = rng.choice("+-~")
            sup = rng.random() < 0.5
            em = E.emit(prog, E.Layout(random.Random(1), markers=list(A)))
            exp = c01.ref_render(prog, (trim, sup, False), data)
            got = c01.real_render((trim, sup, False), em.source, em.partials, data)
            ctx.ev()
            ctx.count("lookalike_renders")
            ctx.nt("lookalike", em.source, trim, sup)
            if exp[0] == "ok" and got != exp:
                kind = "opening" if looks is opening else "closing"
                ctx.violation(
                    f"ws-control:text-with-{kind}-lookalike:trim={trim}",
                    f"expected {exp[1]!r} got {got!r}",
                    {"source": em.source, "partials": {}, "data": data, "cfg": [trim, sup, False],
                     "base": [exp[0], exp[1]], "exact": True, "markers": A})
                break
    if em is not None:
        ctx.sample({"kind": "lookalike-family", "source": em.source, "output": got})


class Catalog:
    """A message catalog keyed by the EXACT message ids (and contexts) it was built from;
    anything else comes back untranslated, as gettext does."""

    def __init__(self, table: dict[str, str]):
        self.table = dict(table)
        self.asked: list[str] = []

    def _get(self, key: str, default: str) -> str:
        self.asked.append(key)
        return self.table.get(key, default)

    def gettext(self, message: str) -> str:
        return self._get(message, message)

    def ngettext(self, singular: str, plural: str, n: int) -> str:
        return self._get(singular if n == 1 else plural, singular if n == 1 else plural)

    def pgettext(self, context: str, message: str) -> str:
        return self._get(f"{context}\x04{message}", message)

    def npgettext(self, context: str, singular: str, plural: str, n: int) -> str:
        m = singular if n == 1 else plural
        return self._get(f"{context}\x04{m}", m)


def _translated(msgid: str) -> str:
    """A 'translation' that keeps placeholders and white space, and changes every other letter."""
    out, i = [], 0
    while i < len(msgid):
        if msgid.startswith("%(", i):
            j = msgid.index(")s", i) + 2
            out.append(msgid[i:j])
            i = j
        else:
            out.append(msgid[i].upper() if msgid[i].islower() else ("_" + msgid[i] if msgid[i].isupper() else msgid[i]))
            i += 1
    return "".join(out)


# text of translate blocks: {mK} are marker slots ("" | - | ~ | +), W is white space of the case
TRANSLATE_SKELETONS = [
    "a{%{m0} translate you: who {m1}%}WHello,W{{{m2} you {m3}}}!W{%{m4} endtranslate {m5}%}b",
    "a{%{m0} translate you: who, count: n {m1}%}WHello,W{{{m2} you {m3}}}!W{%{m4} plural {m5}%}WHellos,W{{{m6} you {m7}}}W({{{m8} count {m9}}})W"
    "{%{m10} endtranslate {m11}%}b",
    "{%{m0} translate context: 'greeting', you: who {m1}%}HiW{{{m2} you {m3}}}W,WwelcomeWbackW{%{m4} endtranslate {m5}%}",
    "x{%{m0} translate count: n, context: 'cart' {m1}%}{{{m2} count {m3}}}WitemW{%{m4} plural {m5}%}W{{{m6} count {m7}}}WitemsW{%{m8} endtranslate {m9}%}y",
    "{%{m0} translate {m1}%}WjustWtextW{%{m2} endtranslate {m3}%}{%{m4} translate you: who {m5}%}{{{m6} you {m7}}}{%{m8} endtranslate {m9}%}",
]


def translate_family(ctx: Ctx, spec: dict[str, Any]) -> None:
    """The literal text of a translate block is the key into the message catalog: markers on
    the placeholders / plural tag inside the block, and the default trim mode, may change white
    space of the OUTPUT only, never which message is looked up.  The catalog is built from the
    ids asked for with no marker and no trimming; every other assignment must produce the same
    translated text once white space is removed."""
    import re as _re

    rng = random.Random(f"{spec['seed']}:translate:{spec['i']}")
    ws_pool = [" ", "  ", "\n", "\n  ", "\t", " \r\n ", "\u00a0", "\u2003 "]
    src = out = None
    for j in range(spec["per"]):
        skel = TRANSLATE_SKELETONS[j % len(TRANSLATE_SKELETONS)]
        w = rng.choice(ws_pool)
        skel = skel.replace("W", w)
        nslots = len(set(_re.findall(r"\{m(\d+)\}", skel)))

        def source(A: list[str]) -> str:
            t = skel
            for k in range(nslots - 1, -1, -1):
                t = t.replace("{m%d}" % k, A[k])
            return t

        for n in (1, 3):
            probe = Catalog({})
            data = {"who": "World", "n": n, "translations": probe}
            base_src = source([""] * nslots)
            try:
                env = c01.make_env(("+", False, False), {})
                env.from_string(base_src).render(**data)
            except Exception as e:  # noqa: BLE001
                ctx.count("translate_baseline_failed")
                ctx.note(f"translate skeleton does not render: {type(e).__name__}: {base_src[:80]!r}")
                continue
            table = {k: _translated(k) for k in probe.asked}
            if not table:
                ctx.count("translate_baseline_without_lookup")
                continue
            base = c01.real_render(("+", False, False), base_src, {}, {"who": "World", "n": n, "translations": Catalog(table)})
            if base[0] != "ok" or strip_ws(_translated("x")) == strip_ws("x"):
                continue
            for _ in range(10):
                A = [rng.choice(E.MARKERS) if rng.random() < 0.6 else "" for _ in range(nslots)]
                trim = rng.choice("+-~")
                sup = rng.random() < 0.5
                src = source(A)
                cat = Catalog(table)
                out = c01.real_render((trim, sup, False), src, {}, {"who": "World", "n": n, "translations": cat})
                ctx.ev()
                ctx.count("translate_marker_assignments")
                ctx.nt("translate", src, trim, sup, n)
                if out[0] != "ok" or strip_ws(out[1]) != strip_ws(base[1]):
                    ctx.violation(
                        f"ws-control:translate-block:message-changes-with-markers:trim={trim}",
                        f"no markers, no trimming: {base[1]!r}; with markers {A} and default trim {trim}: {out!r}",
                        {"source": src, "partials": {}, "data": {"who": "World", "n": n}, "cfg": [trim, sup, False],
                         "base": [base[0], base[1]], "catalog": table, "markers": A})
                    break
    if src is not None:
        ctx.sample({"kind": "translate-family", "source": src, "output": out})


def hooks_family(ctx: Ctx, spec: dict[str, Any]) -> None:
    """(a) The documented `Environment.trim()` hook is the ONE place whitespace control is
    applied to template text: an override that only observes (and delegates) sees every piece of
    literal text that is rendered, and the output equals the stock environment's.  (b) Optional
    block tags that write markup of their own (tablerow) inside blank control-flow blocks:
    suppression may remove whitespace only."""
    from liquid2 import DictLoader
    from liquid2 import Environment
    from liquid2 import WhitespaceControl
    from liquid2.builtin.content import ContentNode
    from liquid2.shopify import Environment as ShopifyEnvironment

    from ..gen.programs import Gen
    from ..gen.programs import Profile

    rng = random.Random(f"{spec['seed']}:hooks:{spec['i']}")
    WC = {"+": WhitespaceControl.PLUS, "-": WhitespaceControl.MINUS, "~": WhitespaceControl.TILDE}
    seen: list[str] = []
    rendered = [0]
    orig = ContentNode.render_to_output

    missed = [0]

    def counting(self, context, buffer):  # noqa: ANN001, ANN202
        # (the hook is also used when raw tags are parsed: count what happens per text render)
        rendered[0] += 1
        before = len(seen)
        try:
            return orig(self, context, buffer)
        finally:
            if isinstance(context.env, ObservingEnv) and len(seen) == before:
                missed[0] += 1

    class ObservingEnv(Environment):
        def trim(self, text, left_trim, right_trim):  # noqa: ANN001, ANN201
            seen.append(text)
            return super().trim(text, left_trim, right_trim)

    src = None
    ContentNode.render_to_output = counting  # type: ignore[method-assign]
    try:
        for j in range(spec["per"]):
            g = Gen(random.Random(f"{spec['seed']}:hooks:{spec['i']}:{j}"), Profile(partials=False, text_ws=True, unicode_ws=True))
            prog = g.program()
            n = E.emit(prog, E.Layout(random.Random(1))).n_positions
            A = [rng.choice(E.MARKERS) if rng.random() < 0.35 else "" for _ in range(n)]
            em = E.emit(prog, E.Layout(random.Random(1), markers=A))
            src = em.source
            data = g.data()
            trim = rng.choice("+-~")
            try:
                stock = Environment(loader=DictLoader(em.partials), default_trim=WC[trim]).from_string(src).render(**copy.deepcopy(data))
            except Exception:  # noqa: BLE001
                ctx.count("hooks_programs_skipped")
                continue
            del seen[:]
            rendered[0] = 0
            missed[0] = 0
            try:
                out = ObservingEnv(loader=DictLoader(em.partials), default_trim=WC[trim]).from_string(src).render(**copy.deepcopy(data))
            except Exception as e:  # noqa: BLE001
                out = f"<{type(e).__name__}>"
            ctx.ev()
            ctx.count("trim_hook_programs")
            ctx.count("trim_hook_text_renders", rendered[0])
            ctx.nt("trimhook", src, trim)
            if out != stock or missed[0]:
                ctx.violation(
                    "ws-control:trim-hook-not-consulted-for-every-text",
                    f"{rendered[0]} pieces of literal text were rendered, {missed[0]} of them without a call to the Environment.trim() override"
                    + ("" if out == stock else f"; output {out!r} != stock {stock!r}"),
                    {"source": src, "partials": em.partials, "data": data, "cfg": [trim, True, False], "base": ["ok", stock],
                     "exact": True, "hook": "observing-trim"})
                break
    finally:
        ContentNode.render_to_output = orig  # type: ignore[method-assign]

    # (b) tablerow inside blank control-flow blocks, suppression on vs off
    bodies = ["", " ", "\n  ", "{% assign z = x %}", "{# c #}", " {% capture q %}{{ x }}{% endcapture %} ", "{% if false %}a{% endif %}",
              "{{ x }}", " t "]
    wrappers = ["{% if true %}W{% endif %}", "{% unless false %}\n W \n{% endunless %}", "{% for i in (1..2) %}W{% endfor %}",
                "{% case 1 %}{% when 1 %} W {% endcase %}", "{% if true %}{% if true %}W{% endif %}{% endif %}", "W"]
    for wrap in wrappers:
        for body in bodies:
            for cols in ("", " cols: 2"):
                tpl = "[" + wrap.replace("W", "{% tablerow x in rows" + cols + " %}" + body + "{% endtablerow %}") + "]"
                outs = []
                for sup in (True, False):
                    class Env(ShopifyEnvironment):
                        suppress_blank_control_flow_blocks = sup

                    try:
                        outs.append(("ok", Env().from_string(tpl).render(rows=[1, 2, 3])))
                    except Exception as e:  # noqa: BLE001
                        outs.append(("exc", type(e).__name__))
                ctx.ev(2)
                ctx.count("tablerow_suppression_pairs")
                ctx.nt("tablerow-suppress", tpl)
                if outs[0][0] != outs[1][0] or (outs[0][0] == "ok" and strip_ws(outs[0][1]) != strip_ws(outs[1][1])):
                    ctx.violation("suppression:removes-output-of-optional-block-tag:tablerow",
                                  f"suppression on: {outs[0]!r}; off: {outs[1]!r}",
                                  {"source": tpl, "partials": {}, "data": {"rows": [1, 2, 3]}, "cfg": ["+", True, False],
                                   "base": list(outs[1]), "shopify": True})
    if src is not None:
        ctx.sample({"kind": "hooks-family", "source": src})


def shards(tier: str, seed: int) -> list[dict[str, Any]]:
    n = 16
    per = 60 if tier == "quick" else 350
    return [{"kind": "gen", "i": i, "n": n, "per": per} for i in range(n)] + [
        {"kind": "suppress", "i": i, "n": 2} for i in range(2)] + [
        {"kind": "lookalike", "i": i, "n": 2, "per": 400 if tier == "quick" else 8000} for i in range(2)] + [
        {"kind": "translate", "i": i, "n": 2, "per": 60 if tier == "quick" else 1200} for i in range(2)] + [
        {"kind": "hooks", "i": i, "n": 2, "per": 150 if tier == "quick" else 3000} for i in range(2)]


def floors(tier: str) -> dict[str, int]:
    k = 1 if tier == "quick" else 20
    # (the thorough tier generates 5.8 times the programs of the quick tier, not 20 times)
    kp = 1 if tier == "quick" else 5
    return {"marker_assignments": 20000 * k, "programs_exhaustive": 100 * kp, "suppression_pairs": 300 * kp,
            "verbatim_checks": 100 * k, "suppression_family_renders": 5000, "exact_trim_checks": 5000 * k,
            "lookalike_renders": 3000 * k, "translate_marker_assignments": 1500 * k, "trim_hook_programs": 200 * kp, "trim_hook_text_renders": 1000 * kp,
            "tablerow_suppression_pairs": 200}


def run_shard(spec: dict[str, Any], ctx: Ctx) -> None:
    if spec["kind"] == "suppress":
        suppression_family(ctx, spec)
        return
    if spec["kind"] == "lookalike":
        lookalike_family(ctx, spec)
        return
    if spec["kind"] == "translate":
        translate_family(ctx, spec)
        return
    if spec["kind"] == "hooks":
        hooks_family(ctx, spec)
        return
    from ..core import CaseBudget
    from ..core import case_budget

    for j in range(spec["per"]):
        try:
            with case_budget(180):
                run_program(ctx, f"{spec['seed']}:{spec['i']}", j, spec["tier"])
        except CaseBudget:
            ctx.count("cases_skipped:wall-clock-watchdog")


def replay(wit: dict[str, Any], ctx: Ctx) -> None:
    cfg = tuple(wit["cfg"])
    data = dict(wit.get("data") or {})
    if wit.get("shopify"):
        from liquid2.shopify import Environment as ShopifyEnvironment

        class Env(ShopifyEnvironment):
            suppress_blank_control_flow_blocks = True

        got = ("ok", Env().from_string(wit["source"]).render(**data))
        print("replay C18: suppression on:", got, " off:", wit["base"])
        if strip_ws(got[1]) != strip_ws(wit["base"][1]):
            ctx.violation("replayed", f"off {wit['base']!r} on {got!r}", wit)
        return
    if "catalog" in wit:
        data["translations"] = Catalog(wit["catalog"])
    got = c01.real_render(cfg, wit["source"], wit.get("partials") or {}, data)
    base = wit["base"]
    print("replay C18: source =", repr(wit["source"]))
    print("            partials =", wit.get("partials"))
    print("            baseline =", repr(base[1]))
    print("            actual   =", got)
    if wit.get("exact"):
        bad = got != tuple(base)
    else:
        bad = got[0] != "ok" or strip_ws(got[1]) != strip_ws(base[1])
    if bad:
        ctx.violation("replayed", f"baseline {base!r} got {got!r}", wit)
