"""C05 — templates cannot reach Python attributes of context objects.

Three monitors run on every render of the real engine:

(a) attribute-read log: spy objects (vf/c05_objects.py) log every attribute NAME read on the
    instance and on its class; a read made by engine / library code of a name outside the
    committed allow-list is a violation ``attr-read:<name-class>@<innermost liquid2 frame>``.
(b) canary scan: strings that exist only in Python attributes / properties / method results /
    __dict__ / __doc__ / class name / module name / module globals must not occur in the output,
    nor in any argument or return value of any filter (every entry of env.filters is wrapped).
    Python-internal objects (methods, functions, classes, modules, mappingproxy, dict views ...)
    reaching a filter, or their repr reaching the output, are reported the same way.
(c) hidden-name relation: at a site that uses NAME purely as a key, a NAME that the object does
    not expose must be indistinguishable from a name that exists nowhere
    (outcome(NAME) == outcome(zq_nonexistent_zq) after masking the two names).  This is what
    decides engine-owned objects (forloop, tablerowloop, block, now/today, str/int/list/dict
    values), which cannot carry a spy hook.
(d) call monitor: data whose ITEMS (values of dicts / Mapping drops / lists, or top-level render
    arguments) are callables -- bound method of a spy, function, lambda, functools.partial, class,
    coroutine function, bound builtin, callable object, static/class method.  Every callable
    records being called; any call made by engine code is a violation
    ``callable-item-called:<kind>@<innermost liquid2 frame>``; what a call would return carries
    ``callresult`` canaries (monitor b) and its keys are hidden names for the relation (c).  Sites
    continue the path THROUGH the callable (.NAME, [NAME], .size/.first/.last, conditions, for,
    filters, partials, macros, translate) and also print / compare the callable itself; every
    (kind, site) runs in sync AND async mode in both tiers.
"""

from __future__ import annotations

import datetime as _dt
import decimal
import html
import random
import re
import types
from typing import Any

from .. import c05_objects as O
from .. import c05_sites as SITES
from ..core import REPO_DIR
from ..core import Ctx
from ..instr.sched import drive

O.HARNESS_FILES.add(__file__)
O.HARNESS_FILES.add(SITES.__file__)

ID = "C05"
LEVEL = "exploration"
RULE = (
    "case = (object shape, lookup site, NAME, sync|async, auto_escape) where the site is one "
    "small template per place a name becomes a lookup (every path shape, .first/.last/.size, "
    "every registered filter in 12 argument forms + lambda/predicate forms, for/tablerow/include/"
    "render/with/macro/call/translate/block/cycle/case arguments, t/gettext printf messages from "
    "literal, data and catalog, template strings, babel context variables, `translations` "
    "rebinding) and NAME is drawn from dir() of the object plus a fixed list of dunder / "
    "introspection names. distinct = hash of the tuple; non-trivial = during the render at "
    "least one spy object was read through the logging hook (spy shapes) or the hidden-name "
    "relation was evaluated on a successful parse (engine/builtin shapes)."
)
ASSUMPTIONS = [
    "implicit special-method lookups by CPython (len(), iter(), str(), obj[key]) go through the "
    "type slots and are not logged; they are the documented protocol, not the subject",
    "a read is attributed to the immediate Python caller; C helpers (getattr, hasattr, isinstance, "
    "operator.attrgetter, str.format) create no frame so the engine function is blamed",
    "allow-list (vf/c05_objects.py INSTANCE_ALLOW / CLASS_ALLOW_LIQUID2 / STDLIB_ALLOW) is data; "
    "`__name__` of a class is tolerated for LiquidTypeError diagnostics only, the class-name "
    "canary must still never reach output or a filter",
    "error messages of raised exceptions are not 'output' and are not scanned",
    "spies define __str__ (string conversion is protocol) and keep the default __repr__, whose "
    "text contains the class-name canary; plain dicts containing spies are never stringified by "
    "the workload (str(dict) calls repr on values, which is Python's own string conversion)",
    "for the callable-item shapes the repr of an exposed callable (which names its class) and the "
    "callable object itself reaching filters are NOT reported: the host exposed that value; only "
    "calls, call-result canaries and the hidden-name relation decide there. The call of a bound "
    "builtin (dict.copy) cannot be recorded, only its result canary can be seen",
    "environment: liquid2.shopify.Environment (superset: tablerow + base64 filters) with "
    "DictLoader, default Undefined, auto_escape on and off",
]

CTRL = "zq_nonexistent_zq"
CTRL2 = "zq_alsomissing_zq"

HOT_NAMES = [
    "secret", "_private", "password", "prop", "delete", "class_secret", "idx", "smeth", "cmeth",
    "__class__", "__dict__", "__init__", "__globals__", "__mro__", "__subclasses__",
    "__module__", "__doc__", "mro", "format", "keys", "items", "values", "get", "index", "count",
    "__getitem__", "__call__", "__getattribute__", "__reduce__", "__reduce_ex__", "__str__",
    "__repr__", "__len__", "__iter__", "__weakref__", "__slots__", "__name__", "__qualname__",
    "__bases__", "__base__", "__code__", "__func__", "__self__", "__wrapped__", "__builtins__",
    "__import__", "__closure__", "__defaults__", "__annotations__", "__sizeof__", "__dir__",
    "__new__", "__setattr__", "__delattr__", "__hash__", "__eq__", "__subclasshook__",
    "__init_subclass__", "__format__", "__liquid__", "__html__", "__getitem_async__",
    "gettext", "ngettext", "force_liquid_default", "poke", "with_context", "with_environment",
    "_exposed", "_items", "_setup", "_abc_impl", "upper", "lower", "encode", "join", "real", "imag",
    "bit_length", "to_bytes", "numerator", "append", "pop", "clear", "copy", "update", "sort",
    "start", "stop", "step", "year", "month", "strftime", "tzinfo", "isoformat", "timestamp",
    "it", "item", "_index", "_keys", "ncols", "_row", "_col", "token", "buffer", "context",
    "parent", "env", "hint", "path", "obj", "func", "args", "keywords", "template", "globals",
    "scope", "locals", "loader", "filters", "tags", "striptags", "unescape",
]
# the dict-subclass drop keeps a canary in its underlying storage under every name tried
O.STORAGE_NAMES[:] = sorted(set(HOT_NAMES) | {n for n in dir(dict) if not n.startswith("__")})
SECOND_NAMES = ["__mro__", "__globals__", "__name__", "__dict__", "__subclasses__", "__bases__",
                "__class__", "__init__", "__self__", "__func__", "__code__", "secret", "__doc__"]
CORE_NAMES = ["secret", "__class__", "__dict__", "__init__", "prop", "delete", "keys", "format"]

ENGINE_SHAPES = ["forloop", "tablerowloop", "block", "now", "today", "str", "int", "float",
                 "list", "dict", "tuple", "bool", "nil", "undef", "range", "markup", "decimal",
                 "listofdict",
                 # remaining common value kinds that cannot carry a spy hook
                 "set", "frozenset", "bytes", "datetime", "date", "time", "timedelta", "complex",
                 "fraction", "generator", "iterator", "mapobj", "dictkeys", "ntplain", "ntsubplain",
                 "dcplain_nospy", "simplens_nospy"]

# shapes whose VALUE is itself a Python-internal object the host chose to expose: that object
# reaching a filter / being stringified is not the subject (only what lies behind it is)
# variants of a kind already swept in full: the quick tier thins their plain string/math filter sites
SECONDARY_SHAPES = {"proxylist", "proxyrecord", "sized0", "sized1", "sizedmax", "sizedneg", "seqmax", "mapneg", "seqover", "raiser_type", "raiser_index", "raiser_attr", "raiser_value", "typednt", "ntuplesub",
                    "dc_frozen", "dc_slots", "userstring", "simplens", "dictget", "tuplesub", "userlist",
                    "time", "timedelta", "complex", "fraction", "frozenset", "mapobj", "iterator",
                    "ntplain", "dcplain_nospy", "simplens_nospy", "date"}
# the configuration axis.  False / True are the two base configurations.
CONFIGS: dict[Any, dict[str, Any]] = {
    False: {},
    True: {"auto_escape": True},
    "lim_generous": {"local_namespace_limit": 10**7, "loop_iteration_limit": 10**5, "output_stream_limit": 10**6},
    "lim_local_tight": {"local_namespace_limit": 2000},
    "lim_tight": {"local_namespace_limit": 2000, "loop_iteration_limit": 6, "output_stream_limit": 60},
    "ae_lim_generous": {"auto_escape": True, "local_namespace_limit": 10**7, "loop_iteration_limit": 10**5,
                        "output_stream_limit": 10**6},
    "strict": {"undefined": "StrictUndefined"},
    "falsystrict": {"undefined": "FalsyStrictUndefined"},
    "debug": {"undefined": "DebugUndefined"},
    "shorthand": {"shorthand_indexes": True},
    "strict_lim_tight": {"undefined": "StrictUndefined", "local_namespace_limit": 2000, "loop_iteration_limit": 6},
}
# with a tight output limit the outcome depends on how long the NAME itself is wherever it is
# echoed as text, so the hidden-name relation says nothing there (the other monitors still run)
REL_OFF_CFGS = {"lim_tight"}
EXTRA_CFGS = [k for k in CONFIGS if k not in (False, True)]
LOCAL_LIMIT_CFGS = {k for k, v in CONFIGS.items() if "local_namespace_limit" in v}
WRITES_LOCALS_RE = re.compile(r"\{%-?\s*(assign|capture|increment|decrement|liquid)\b")
LOOP_SITES = ("tag.for", "tag.tablerow", "tag.include_for", "tag.render_for", "path.special",
              "path.then_special", "path.field_then", "out.range", "tag.macro", "tag.with")
RELAXED_PY_SHAPES = {"generator", "iterator", "mapobj", "dictkeys"}

WRAP = {
    "forloop": ("{% for zz in arr limit: 1 %}{% assign obj = forloop %}{% assign objs = forloop, forloop %}{% endfor %}", ""),
    "tablerowloop": ("{% tablerow zz in arr limit: 1 %}{% assign obj = tablerowloop %}{% assign objs = tablerowloop, tablerowloop %}{% endtablerow %}", ""),
    "block": ("{% extends 'base' %}{% block b %}{% assign obj = block %}{% assign objs = block, block %}", "{% endblock %}"),
    "now": ("{% assign obj = now %}{% assign objs = now, now %}", ""),
    "today": ("{% assign obj = today %}{% assign objs = today, today %}", ""),
    "range": ("{% assign obj = (1..3) %}{% assign objs = obj, obj %}", ""),
    "undef": ("", ""),
}

# documented keys of engine objects: the relation does not apply to them
ENGINE_VISIBLE = {
    "forloop": {"name", "length", "index", "index0", "rindex", "rindex0", "first", "last", "parentloop"},
    "tablerowloop": {"length", "index", "index0", "rindex", "rindex0", "first", "last", "col",
                     "col0", "col_first", "col_last", "row"},
    "block": {"super"},
    "dict": {"title", "n"},
    "listofdict": set(),
}

# names that legitimately resolve somewhere in every case: keys the helper drops expose and the
# variables the harness binds (they are never drawn as hidden NAMEs)
VAR_NAMES = {"obj", "objs", "box", "k", "kd", "arr", "d", "s", "num", "msgs", "translations",
             "now", "today", "pd", "l", "v", "w", "u", "x", "it", "zz", "yy", "c", "z", "kk", "p_with", "p_for"}
ALWAYS_VISIBLE = set(O.EXPOSED_KEYS) | {"a"} | VAR_NAMES
LOOP_NAMES = ENGINE_VISIBLE["forloop"] | ENGINE_VISIBLE["tablerowloop"] | ENGINE_VISIBLE["block"]
I18N_SPECIAL = {"count", "context", "plural"}


def site_visible(site: dict[str, Any]) -> set[str]:
    """Names that are legitimately visible at this site regardless of the object's shape."""
    src = site["src"]
    v: set[str] = set()
    if "forloop" in src or "tablerow" in src or "p_for" in src or "block" in src:
        v |= LOOP_NAMES
    if site["id"].startswith(("i18n.", "tag.translate")) or "translate" in src or "| t" in src:
        v |= I18N_SPECIAL
    return v


TRIPNUM_RE = re.compile(r"77\d{5}77")   # a tripwire property value
CANARY_RE = re.compile(r"CNRY_([A-Za-z]+)_([A-Za-z0-9_]*)", re.IGNORECASE)
TELLTALE_RE = re.compile(
    r"<bound method|<built-in method|<built-in function|<function |<class '|<module '| object at 0x"
    r"|method-wrapper|mappingproxy\(|dict_keys\(|dict_items\(|dict_values\(|<property object"
    r"|<slot wrapper|<staticmethod|<classmethod|<frame |<code object|<generator object|<coroutine "
    r"|<attribute '|<member '|<method '|_abc_data object"
)
PY_INTERNAL_TYPES: tuple[type, ...] = (
    types.MethodType, types.FunctionType, types.BuiltinFunctionType, types.BuiltinMethodType,
    types.MethodWrapperType, types.WrapperDescriptorType, types.MethodDescriptorType,
    types.ClassMethodDescriptorType, types.GetSetDescriptorType, types.MemberDescriptorType,
    types.ModuleType, types.MappingProxyType, types.CodeType, types.FrameType,
    types.GeneratorType, types.CoroutineType, types.CellType, type, property, staticmethod,
    classmethod, type({}.keys()), type({}.items()), type({}.values()),
)


# ---------------------------------------------------------------------------------------
# filter recorder
# ---------------------------------------------------------------------------------------


class Scan:
    """Recursive walker over filter arguments / results / output."""

    def __init__(self) -> None:
        self.found: list[dict[str, Any]] = []
        self.calls = 0
        self.filters_called: set[str] = set()
        self.call_log: list[str] | None = None
        self.skip_types: set[type] = set()

    def reset(self) -> None:
        self.found = []

    def text(self, s: str, sink: str) -> None:
        if "cnry" in s.lower():
            for m in CANARY_RE.finditer(s):
                self.found.append({"kind": "canary", "holder": m.group(1).lower(), "token": m.group(0)[:80],
                                   "sink": sink})
        if "7700" in s:
            m = TRIPNUM_RE.search(s)
            if m:
                self.found.append({"kind": "canary", "holder": "tripwireproperty", "token": m.group(0), "sink": sink})
        if "<" in s or " at 0x" in s or "&lt;" in s or "(" in s:
            t = html.unescape(s) if "&" in s else s
            m = TELLTALE_RE.search(t)
            if m:
                self.found.append({"kind": "pyrepr", "pattern": m.group(0).strip("<( '"), "sink": sink,
                                   "text": t[max(0, m.start() - 20): m.end() + 60]})

    def walk(self, o: Any, sink: str, depth: int = 0, seen: set[int] | None = None) -> None:
        if o is None or o is True or o is False:
            return
        t = type(o)
        if t is str or isinstance(o, str):
            self.text(o, sink)
            return
        if t in (int, float, decimal.Decimal, _dt.datetime, _dt.date, _dt.time, range):
            return
        if t in O.INFO:
            return  # the object itself may be handed around; its attributes may not
        if depth > 6:
            return
        if seen is None:
            seen = set()
        if id(o) in seen:
            return
        seen.add(id(o))
        if t in (list, tuple, set, frozenset):
            for x in o:
                self.walk(x, sink, depth + 1, seen)
            return
        if t is dict:
            for k, v in o.items():
                self.walk(k, sink, depth + 1, seen)
                self.walk(v, sink, depth + 1, seen)
            return
        if t is bytes:
            self.text(o.decode("latin-1"), sink)
            return
        if isinstance(o, PY_INTERNAL_TYPES):
            self.found.append({"kind": "pyobject", "type": t.__name__, "sink": sink,
                               "text": _safe_repr(o)})
            if t is types.MappingProxyType:
                for k, v in o.items():
                    self.walk(k, sink, depth + 1, seen)
                    self.walk(v, sink, depth + 1, seen)
            return
        # engine objects (expressions, context, undefined, forloop ...) and anything else
        self.skip_types.add(t)


def _safe_repr(o: Any) -> str:
    try:
        return repr(o)[:160]
    except Exception as e:  # noqa: BLE001
        return f"<repr failed {type(e).__name__}>"


class RecFilter:
    """Wrapper placed in env.filters[name]: records arguments and result."""

    def __init__(self, name: str, inner: Any, scan: Scan):
        self.name = name
        self.inner = inner
        self.scan = scan
        if getattr(inner, "with_context", False):
            self.with_context = True
        if getattr(inner, "with_environment", False):
            self.with_environment = True
        if hasattr(inner, "validate"):
            self.validate = inner.validate

    def __call__(self, *args: Any, **kwargs: Any) -> Any:
        sc = self.scan
        sc.calls += 1
        sc.filters_called.add(self.name)
        for i, a in enumerate(args):
            sc.walk(a, f"filter-arg:{self.name}")
        for k, v in kwargs.items():
            if k in ("context", "environment"):
                continue
            sc.walk(k, f"filter-arg:{self.name}")
            sc.walk(v, f"filter-arg:{self.name}")
        if sc.call_log is not None and len(sc.call_log) < 200:
            sc.call_log.append(f"{self.name}({', '.join(_safe_repr(a)[:60] for a in args)}"
                               f"{''.join(', ' + k + '=' + _safe_repr(v)[:40] for k, v in kwargs.items() if k not in ('context', 'environment'))})")
        r = self.inner(*args, **kwargs)
        sc.walk(r, f"filter-result:{self.name}")
        if sc.call_log is not None and len(sc.call_log) < 200:
            sc.call_log.append(f"   -> {_safe_repr(r)[:100]}")
        return r


# ---------------------------------------------------------------------------------------
# runner
# ---------------------------------------------------------------------------------------


def _mask(out: str, names: tuple[str, ...], digits: bool) -> str:
    if "0x" in out:   # repr of a host-exposed iterator / callable carries its address
        out = re.sub(r"0x[0-9a-fA-F]+", "0x#", out)
    for n in sorted(set(names), key=len, reverse=True):
        if n:
            out = out.replace(n, "\x00")
    if digits:
        # str(datetime.now()) varies between the two renders (and drops the fraction when
        # microsecond == 0): collapse every date/number-looking run
        out = re.sub(r"\d[\d.:\-+ T]*", "#", out)
    return out


def _site_family(site_id: str) -> str:
    """filter.map.g4 -> filter.map ; lambda.sort.l2 -> lambda.sort ; others unchanged."""
    parts = site_id.split(".")
    return ".".join(parts[:2])


_PlainNt = __import__("collections").namedtuple("_PlainNt", ["label", "qty"])


class _PlainNtSub(_PlainNt):
    """A named tuple subclass that is NOT a spy: only the canary scan and the relation decide."""

    API_TOKEN = "CNRY_classattr_API_TOKEN_ntsubplain"

    @property
    def balance(self) -> str:
        return "CNRY_property_balance_ntsubplain"

    def describe(self) -> str:
        return "CNRY_methodresult_describe_ntsubplain"

    def __str__(self) -> str:
        return "PUBSTR_NTSUBPLAIN"


@__import__("dataclasses").dataclass
class _PlainDc:
    label: str = "CNRY_attr_label_dcplainnospy"
    qty: int = 3

    def __str__(self) -> str:
        return "PUBSTR_DCPLAIN"


class _PlainNs(types.SimpleNamespace):
    def __str__(self) -> str:
        return "PUBSTR_NS"


def _gen(i: int):  # noqa: ANN202
    yield f"PUBG{i}A"
    yield f"PUBG{i}B"


_EXTRA_VALUES: dict[str, Any] = {
    "set": lambda i: {f"PUBSET{i}"},
    "frozenset": lambda i: frozenset({f"PUBFS{i}"}),
    "bytes": lambda i: b"PUBBYTES%d" % i,
    "datetime": lambda i: _dt.datetime(2020, 1, 2 + i, 3, 4, 5),
    "date": lambda i: _dt.date(2020, 1, 2 + i),
    "time": lambda i: _dt.time(3, 4, 5 + i),
    "timedelta": lambda i: _dt.timedelta(days=1 + i, seconds=5),
    "complex": lambda i: complex(1 + i, 2),
    "fraction": lambda i: __import__("fractions").Fraction(1 + i, 3),
    "generator": _gen,
    "iterator": lambda i: iter([f"PUBI{i}A", f"PUBI{i}B"]),
    "mapobj": lambda i: map(str.upper, [f"pubm{i}a", f"pubm{i}b"]),
    "dictkeys": lambda i: {f"PUBK{i}": 1, "title": 2}.keys(),
    "ntplain": lambda i: _PlainNt(f"PUB_PNT_{i}", i),
    "ntsubplain": lambda i: _PlainNtSub(f"PUB_PNTS_{i}", i),
    "dcplain_nospy": lambda i: _PlainDc(),
    "simplens_nospy": lambda i: _PlainNs(secret="CNRY_attr_secret_simplensnospy", label="CNRY_attr_label_simplensnospy"),
}


class Runner:
    def __init__(self, ctx: Ctx):
        from liquid2 import DictLoader
        from liquid2.exceptions import LiquidError
        from liquid2.shopify import Environment
        from markupsafe import Markup

        import warnings

        warnings.simplefilter("ignore", RuntimeWarning)  # un-awaited lazy_coro() under a broken engine
        O.MON.configure(REPO_DIR)
        self.ctx = ctx
        self.LiquidError = LiquidError
        self.Markup = Markup
        self.DictLoader = DictLoader
        self.scan = Scan()
        self.Environment = Environment
        self.envs: dict[Any, Any] = {}
        self.filter_names = sorted(self.env_for(False).filters)
        self.sites = SITES.all_sites(self.filter_names)
        self.site_by_id = {s["id"]: s for s in self.sites}
        self._names_cache: dict[str, list[str]] = {}

    def env_for(self, cfg: Any) -> Any:
        """cfg: False / True (auto_escape off / on, no limits) or a key of CONFIGS."""
        env = self.envs.get(cfg)
        if env is None:
            from liquid2 import undefined as U

            spec = CONFIGS[cfg]
            attrs = {k: v for k, v in spec.items() if k not in ("auto_escape", "undefined")}
            cls = type(f"Env_{cfg}", (self.Environment,), attrs)
            kw: dict[str, Any] = {"auto_escape": bool(spec.get("auto_escape"))}
            if "undefined" in spec:
                kw["undefined"] = getattr(U, spec["undefined"])
            env = cls(loader=self.DictLoader({}), **kw)
            for name in list(env.filters):
                env.filters[name] = RecFilter(name, env.filters[name], self.scan)
            self.envs[cfg] = env
        return env

    # -- data -------------------------------------------------------------------------
    def builtin_value(self, shape: str, i: int) -> Any:
        M = self.Markup
        if shape in _EXTRA_VALUES:
            return _EXTRA_VALUES[shape](i)
        return {
            "str": f"PUBS{i}", "int": 40 + i, "float": 1.5 + i, "list": [f"PUBL{i}A", f"PUBL{i}B"],
            "dict": {"title": f"PUBD{i}", "n": i}, "tuple": (f"PUBT{i}", i), "bool": True,
            "nil": None, "markup": M(f"<i>PUBM{i}</i>"), "decimal": decimal.Decimal("2.5"),
            "listofdict": [{"title": f"PUBLD{i}"}, {"title": "PUB_TITLE_1", "n": 2}],
        }[shape]

    def names_for(self, shape: str) -> list[str]:
        got = self._names_cache.get(shape)
        if got is not None:
            return got
        if shape in SITES.CARRIER_SHAPES:
            self._names_cache[shape] = list(O.CALL_RESULT_KEYS)
            return self._names_cache[shape]
        pool = set(HOT_NAMES)
        try:
            sample = None
            if shape in O.CLASSES:
                sample = O.make(shape, 0)
            elif shape in ("forloop", "tablerowloop", "block"):
                from liquid2.builtin.tags.extends_tag import BlockDrop
                from liquid2.builtin.tags.for_tag import ForLoop
                from liquid2.shopify.tags.tablerow_tag import TableRow

                pool.update(dir({"forloop": ForLoop, "tablerowloop": TableRow, "block": BlockDrop}[shape]))
            elif shape == "now":
                sample = _dt.datetime(2020, 1, 1)
            elif shape == "today":
                sample = _dt.date(2020, 1, 1)
            elif shape == "range":
                sample = range(3)
            elif shape == "undef":
                from liquid2.undefined import Undefined

                pool.update(dir(Undefined))
            else:
                sample = self.builtin_value(shape, 0)
            if sample is not None:
                pool.update(dir(sample))
        except Exception:  # noqa: BLE001
            pass
        ident = re.compile(r"[A-Za-z_][A-Za-z0-9_]*\Z")
        vis = set(O.VISIBLE.get(shape, ())) | ENGINE_VISIBLE.get(shape, set()) | {"first", "last", "size"}
        vis |= ALWAYS_VISIBLE
        names = sorted(n for n in pool if ident.match(n) and n not in vis
                       and n not in ("true", "false", "nil", "null", "empty", "blank", "and", "or",
                                     "not", "in", "contains", "if", "else", "with", "for", "as"))
        self._names_cache[shape] = names
        return names

    def build_data(self, shape: str, name: str, name2: str) -> dict[str, Any]:
        msgs = [m.replace("@N@", name).replace("@M@", name2) for m in SITES.MESSAGES]
        cat = {f"M{j}": m for j, m in enumerate(msgs)}
        cat.update({f"M{j}s": m + " PLURAL" for j, m in enumerate(msgs)})
        data: dict[str, Any] = {
            "k": name,
            "kd": O.make("liquidkey", 0, value=name),
            "arr": ["PUB_A0", "PUB_A1", "PUB_A2"],
            "d": {"title": "PUB_D", "n": 3},
            "s": "PUB_S",
            "num": 3,
            "msgs": msgs,
            "translations": O.make("catalog", 0, messages=cat),
        }
        if shape in O.CLASSES:
            data["obj"] = O.make(shape, 0)
            data["objs"] = [O.make(shape, i) for i in (1, 2, 3)]
        elif shape not in WRAP and shape not in SITES.CARRIER_SHAPES:
            data["obj"] = self.builtin_value(shape, 0)
            data["objs"] = [self.builtin_value(shape, i) for i in (1, 2, 3)]
        box = O.make("mapping", 5)
        if "obj" in data:
            object.__getattribute__(box, "_exposed")["a"] = data["obj"]
        data["box"] = box
        if "obj" in data:
            data["pd"] = {"a": data["obj"], "l": [data["obj"], data["obj"]]}   # never stringified
        return data

    # -- one render -----------------------------------------------------------------
    def carrier_path(self, shape: str, kind: str, variant: int) -> str:
        if shape == "call_top":
            return "obj"
        if shape == "call_list":
            return f"obj[{O.CALLABLE_KINDS.index(kind)}]"
        return f"obj['{kind}']" if variant else f"obj.{kind}"

    def execute(self, shape: str, site: dict[str, Any], name: str, name2: str, mode: str,
                ae: Any, verbose: bool = False, kind: str = "", variant: int = 0,
                hidden_variant: int = 0) -> dict[str, Any]:
        src = site["src"]
        if shape in SITES.CARRIER_SHAPES:
            src = src.replace("@P@", self.carrier_path(shape, kind, variant))
        if shape in WRAP and site["only"] is None:
            pre, post = WRAP[shape]
            src = pre + src + post
        src = src.replace("@N@", name).replace("@M@", name2)
        tpls = {k: v.replace("@N@", name).replace("@M@", name2) for k, v in SITES.PARTIALS.items()}
        O.HIDDEN_VARIANT[0] = hidden_variant
        try:
            data = self.build_data(shape, name, name2)
        finally:
            O.HIDDEN_VARIANT[0] = 0
        if shape in SITES.CARRIER_SHAPES:
            cs = O.make_callables()
            data["objs"] = [cs[k_] for k_ in O.CALLABLE_KINDS]
            if shape == "call_dict":
                data["obj"] = {**cs, "title": "PUB_CALLDICT"}
            elif shape == "call_drop":
                data["obj"] = O.make("calldrop", 0, items=cs)
            elif shape == "call_list":
                data["obj"] = list(data["objs"])
            else:
                data["obj"] = cs[kind]
        env = self.env_for(ae)
        env.loader = self.DictLoader(tpls)
        mon = O.MON
        # a logged name counts as template-controlled only if the template text / data of
        # this site actually carries it
        tc = set()
        raw = site["src"] + "".join(v for k_, v in SITES.PARTIALS.items() if f"'{k_}'" in site["src"])
        if "@N@" in raw or re.search(r"[\[ (:]kd?\b", raw) or "msgs" in raw or re.search(r"\bM\d", raw):
            tc.add(name)
        if "@M@" in raw or "msgs" in raw or re.search(r"\bM\d", raw):
            tc.add(name2)
        mon.reset_case(frozenset(tc))
        self.scan.reset()
        if verbose:
            mon.trace = []
            self.scan.call_log = []
        res: dict[str, Any] = {"source": src}
        try:
            t = env.from_string(src)
            res["parsed"] = True
            out = drive(t.render_async(**data)) if mode == "async" else t.render(**data)
            res["ok"] = True
            res["out"] = str(out)
        except self.LiquidError as e:
            res["ok"] = False
            res["err"] = type(e).__name__
            res["msg"] = str(e)[:200]
        except RecursionError:
            res["ok"] = False
            res["err"] = "RecursionError"
        except Exception as e:  # noqa: BLE001  (totality is C02's subject, not C05's)
            res["ok"] = False
            res["err"] = "non-liquid:" + type(e).__name__
            res["msg"] = str(e)[:200]
        if res.get("ok"):
            self.scan.text(res["out"], "output")
        res["events"] = mon.events
        res["touched"] = set(mon.touched)
        res["bad"] = list(mon.bad) + list(self.scan.found)
        if shape in RELAXED_PY_SHAPES:
            res["bad"] = [b for b in res["bad"] if b["kind"] not in ("pyobject", "pyrepr")]
        if shape in SITES.CARRIER_SHAPES:
            # the host exposed the callables themselves: handing them to filters and printing
            # their repr (which names their class) is not the subject; calling them is
            res["bad"] = [b for b in res["bad"]
                          if b["kind"] not in ("pyobject", "pyrepr")
                          and not (b["kind"] == "canary" and b["holder"] in ("classname", "modulename"))]
        if verbose:
            res["trace"] = mon.trace
            res["calls"] = self.scan.call_log
            mon.trace = None
            self.scan.call_log = None
        return res

    # -- a case = control + names ------------------------------------------------------
    def run_site(self, shape: str, site: dict[str, Any], names: list[str], mode: str, ae: bool,
                 rng: random.Random, kind: str = "", variant: int = 0) -> None:
        ctx = self.ctx
        kv = {"kind": kind, "variant": variant}
        is_spy = shape in O.CLASSES
        vis = set(O.VISIBLE.get(shape, ())) | ENGINE_VISIBLE.get(shape, set()) | {"first", "last", "size"}
        vis |= site_visible(site)
        digits = shape in ("now", "today") or site["id"].startswith(("eng.now", "eng.babel")) or ".date." in site["id"] or ".datetime." in site["id"]
        ctrl = self.execute(shape, site, CTRL, CTRL2, mode, ae, **kv)
        self._account(shape, site, CTRL, CTRL2, mode, ae, ctrl, is_spy, kv)
        if not ctrl.get("parsed"):
            ctx.count("sites_not_parsed")
            ctx.seen("unparsed_sites", site["id"])
            return
        for name in names:
            name2 = rng.choice(SECOND_NAMES)
            res = self.execute(shape, site, name, name2, mode, ae, **kv)
            self._account(shape, site, name, name2, mode, ae, res, is_spy, kv)
            if ae in LOCAL_LIMIT_CFGS and is_spy:
                # non-interference twin: same program, same object through the documented
                # protocol, different hidden state -> same outcome
                twin = self.execute(shape, site, name, name2, mode, ae, hidden_variant=1, **kv)
                self._account(shape, site, name, name2, mode, ae, twin, is_spy, kv)
                ctx.count("noninterference_checks")
                a_ = ("ok", res["out"]) if res.get("ok") else ("err", res["err"])
                b_ = ("ok", twin["out"]) if twin.get("ok") else ("err", twin["err"])
                if a_ != b_:
                    self._violation(
                        f"noninterference:{ae}@{_site_family(site['id'])}",
                        "two objects identical through the documented protocol but differing in a hidden "
                        "attribute give different outcomes",
                        shape, site, name, name2, mode, ae, twin, res, kv=kv)
            if kind:
                ctx.count("callable_path_renders")
                ctx.seen("callable_kind_site_mode", f"{shape}|{kind}|{site['id']}|{mode}")
            if "must-be-empty" in site["tags"] and res.get("ok") and res["out"].replace("|", "") != "":
                self._violation("engine-attr:now", "an attribute of the built-in datetime object was rendered",
                                shape, site, name, name2, mode, ae, res, None)
            if not site["rel"] or name in vis or name2 in vis or ae in REL_OFF_CFGS:
                continue
            ctx.count("relation_checks")
            a = ("ok", _mask(res["out"], (name, name2, CTRL, CTRL2), digits)) if res.get("ok") else ("err", res["err"])
            b = ("ok", _mask(ctrl["out"], (name, name2, CTRL, CTRL2), digits)) if ctrl.get("ok") else ("err", ctrl["err"])
            if a != b:
                fam = site["id"].split(".")[0]
                self._violation(
                    f"relation:{shape}:{fam}",
                    "a name the object does not expose behaves differently from a name that exists nowhere",
                    shape, site, name, name2, mode, ae, res, ctrl, kv=kv)
            elif not is_spy and res.get("parsed"):
                ctx.nt(shape, site["id"], name, mode, ae, kind, variant)

    def _account(self, shape: str, site: dict[str, Any], name: str, name2: str, mode: str, ae: bool,
                 res: dict[str, Any], is_spy: bool, kv: dict[str, Any] | None = None) -> None:
        ctx = self.ctx
        ctx.ev()
        ctx.count("attr_log_events", res["events"])
        ctx.count("renders_ok" if res.get("ok") else "renders_error")
        if not res.get("ok"):
            ctx.seen("exception_classes", res["err"])
        elif "PUB" in res["out"]:
            ctx.count("renders_with_public_flow")
        if res["events"]:
            if is_spy:   # engine / builtin / carrier shapes are counted once, in run_site
                ctx.nt(shape, site["id"], name, mode, ae)
            for sh in res["touched"]:
                ctx.seen("shape_site", f"{sh}|{site['id']}")
        if not is_spy and res.get("parsed"):
            ctx.seen("engine_shape_site", f"{shape}|{site['id']}")
        ctx.seen("names", name)
        ctx.seen("configs", str(ae))
        for b in res["bad"]:
            if b["kind"] == "attr-read":
                key = b["key"]
                form = site["id"].rsplit(".", 1)[-1]
                # one root mechanism each, whichever filter happens to be the innermost frame
                kwname = name if "@N@: obj" in site["src"] and name in ("context", "environment") else ""
                if (form in ("g13", "g14", "g15", "g16") or kwname) and b["name"] not in O.INSTANCE_ALLOW:
                    which = kwname or ("context" if form in ("g13", "g14") else "environment")
                    key = f"attr-read:fixed:{b['name']}@injected-kwarg-override:{which}"
                elif "takeover" in site["tags"] and b["name"].endswith("gettext"):
                    key = f"{key.split('@')[0]}@translations-variable-rebound"
                what = f"{b['level']} attribute '{b['name']}' of a {b['shape']} object read by {b['caller']}: {b['why']}"
            elif b["kind"] == "called":
                key = b["key"]
                what = (f"engine code ({b['caller']}) called the non-protocol Python method {b['callable']}() of a context object"
                        if b["callable"].startswith(("dict.", "async.")) else
                        f"engine code ({b['caller']}) CALLED a callable item ({b['callable']}) that the data only exposed as a value")
            elif b["kind"] == "canary":
                key = f"canary:{b['holder']}->{b['sink'].split(':')[0]}@{_site_family(site['id'])}"
                what = f"canary {b['token']} (held only in a Python {b['holder']}) reached {b['sink']}"
            elif b["kind"] == "pyobject":
                key = f"pyobject:{b['type']}->{b['sink'].split(':')[0]}@{_site_family(site['id'])}"
                what = f"Python-internal object {b['text']} reached {b['sink']}"
            else:
                key = f"pyrepr:{b['pattern']}->{b['sink'].split(':')[0]}@{_site_family(site['id'])}"
                what = f"repr of a Python-internal object reached {b['sink']}: {b['text']!r}"
            self._violation(key, what, shape, site, name, name2, mode, ae, res, None, detail=b, kv=kv)

    def _violation(self, key: str, what: str, shape: str, site: dict[str, Any], name: str,
                   name2: str, mode: str, ae: bool, res: dict[str, Any], ctrl: dict[str, Any] | None,
                   detail: dict[str, Any] | None = None, kv: dict[str, Any] | None = None) -> None:
        wit: dict[str, Any] = {
            "shape": shape, "site": site["id"], "name": name, "name2": name2, "mode": mode,
            "auto_escape": ae, "source": res["source"],
            "outcome": res.get("out") if res.get("ok") else f"{res.get('err')}: {res.get('msg', '')}",
        }
        if kv and kv.get("kind"):
            wit["kind"] = kv["kind"]
            wit["variant"] = kv["variant"]
        if ctrl is not None:
            wit["control_outcome"] = ctrl.get("out") if ctrl.get("ok") else f"{ctrl.get('err')}: {ctrl.get('msg', '')}"
        if detail is not None:
            wit["detail"] = {k: v for k, v in detail.items() if isinstance(v, (str, int, bool))}
        self.ctx.violation(key, what, wit)


# ---------------------------------------------------------------------------------------
# shards
# ---------------------------------------------------------------------------------------


def shards(tier: str, seed: int) -> list[dict[str, Any]]:  # noqa: ARG001
    n = 16 if tier == "quick" else 48
    return [{"kind": "sweep", "i": i, "n": n} for i in range(n)]


def floors(tier: str) -> dict[str, int]:
    # DESIGN 5.1 asks for >= 10 000 attribute-log events and >= 60 (shape x site) pairs; the
    # numbers below are ~1/4 of what the unchanged tree yields (quick: 660k events, 10.7k spy
    # pairs, 15k engine pairs, 44k relation checks, 144k filter calls, 75 filters)
    k = 1 if tier == "quick" else 5
    return {
        "attr_log_events": 150_000 * k,
        "set:shape_site": 2_500,
        "set:engine_shape_site": 3_500,
        "relation_checks": 10_000 * k,
        "filter_calls": 30_000 * k,
        "set:filters_called": 70,
        "renders_with_public_flow": 4_000 * k,
        "callable_path_renders": 4_000 * k,
        "noninterference_checks": 1_500 * k,
        "set:configs": len(CONFIGS),
        "set:callable_kind_site_mode": 2_000,
        "callable_items_served_by_drop": 1_000 * k,
    }


def applicable(shape: str, site: dict[str, Any]) -> bool:
    if site["only"] is not None:
        return shape in site["only"]
    if shape in SITES.CARRIER_SHAPES:
        return False
    if shape == "block" and ("extends" in site["src"]):
        return False
    return True


def run_shard(spec: dict[str, Any], ctx: Ctx) -> None:
    r = Runner(ctx)
    tier = spec["tier"]
    rng = random.Random(f"{spec['seed']}:sweep:{spec['i']}")
    shapes = O.SPY_SHAPES + ENGINE_SHAPES + list(SITES.CARRIER_SHAPES)
    pairs = [(sh, st) for sh in shapes for st in r.sites if applicable(sh, st)]
    quick = tier == "quick"
    last = None
    for pi, (shape, site) in enumerate(pairs):
        if pi % spec["n"] != spec["i"]:
            continue
        if shape in SITES.CARRIER_SHAPES:
            # every callable kind, BOTH render modes (a lazily-resolving path is as likely to be
            # added to one of the hand-duplicated sync/async twins as to both)
            nm = list(O.CALL_RESULT_KEYS) if not quick else ["token", rng.choice(O.CALL_RESULT_KEYS[1:])]
            for kind in O.CALLABLE_KINDS:
                for mode in ("sync", "async"):
                    variants = (0, 1) if (not quick and shape in ("call_dict", "call_drop")) else (rng.randrange(2),)
                    for variant in variants:
                        aes = (False, True) if not quick else (rng.random() < 0.3,)
                        for ae in aes:
                            r.run_site(shape, site, nm, mode, ae, rng, kind=kind, variant=variant)
                if WRITES_LOCALS_RE.search(site["src"]):
                    r.run_site(shape, site, nm[:1], rng.choice(("sync", "async")), "lim_local_tight", rng,
                               kind=kind, variant=0)
            last = (shape, site["id"], nm)
            continue
        is_spy = shape in O.CLASSES
        generic = site["id"].startswith("filter.") and ".kw" not in site["id"]
        keyf = generic and site["id"].split(".")[1] in SITES.KEY_FILTERS
        pool = r.names_for(shape)
        if quick:
            if generic and not keyf:
                # plain string/math filters: thin sample (every pair still runs once)
                if not is_spy and rng.random() < 0.5:
                    continue
                if shape in SECONDARY_SHAPES and rng.random() < 0.6:
                    continue
                nn = 1
            else:
                nn = 4 if is_spy else 3
        else:
            nn = 6 if (generic and not keyf) else 48
        core = [n for n in CORE_NAMES if n in pool]
        names = [rng.choice(core)] if core else []
        names += rng.sample(pool, min(nn, len(pool)))
        names = list(dict.fromkeys(names))[: nn + 1]
        if quick:
            combos = [(("async" if rng.random() < 0.4 else "sync"), rng.random() < 0.35)]
            if shape in ("asyncdrop",):
                combos = [("async", rng.random() < 0.35)]
            if shape in ("html", "markup") and not generic:
                combos = [("sync", True), ("async", False)]
            if site["id"].startswith(LOOP_SITES) or "size" in site["src"]:
                # iteration / length positions: the sync and async twins are separate code
                ae_ = combos[0][1]
                combos = [("sync", ae_), ("async", ae_)]
        else:
            combos = [("sync", False), ("async", False), ("sync", True), ("async", True)]
            if generic and not keyf:
                combos = [combos[rng.randrange(4)], combos[rng.randrange(4)]]
        for mode, ae in combos:
            r.run_site(shape, site, names, mode, ae, rng)
        # configuration axis: limits / undefined types / shorthand indexes
        full_src = (WRAP.get(shape, ("", ""))[0] if site["only"] is None else "") + site["src"]
        extra: list[tuple[str, Any]] = []
        if WRITES_LOCALS_RE.search(full_src):
            extra += [("sync", "lim_local_tight"), ("async", "lim_generous")]
            if not quick:
                extra += [("async", "lim_local_tight"), ("sync", "strict_lim_tight"), ("sync", "ae_lim_generous")]
        if quick:
            if not (generic and not keyf) and rng.random() < 0.2:
                extra.append((rng.choice(("sync", "async")), rng.choice(EXTRA_CFGS)))
        else:
            extra += [(rng.choice(("sync", "async")), c) for c in rng.sample(EXTRA_CFGS, 3)]
        for mode, cfg in extra:
            r.run_site(shape, site, names[:2], mode, cfg, rng)
        last = (shape, site["id"], names)
    ctx.count("filter_calls", r.scan.calls)
    for f in r.scan.filters_called:
        ctx.seen("filters_called", f)
    ctx.count("callable_items_served_by_drop", O.MON.callables_served)
    for a in O.MON.getattr_names:
        ctx.seen("getattr_requested_names", a)
    for a in O.MON.allowed_seen:
        ctx.seen("allowed_reads", a)
    for t in r.scan.skip_types:
        ctx.seen("walker_opaque_types", f"{t.__module__}.{t.__qualname__}")
    if last:
        ctx.sample({"shape": last[0], "site": last[1], "names": last[2],
                    "source": r.site_by_id[last[1]]["src"]})


def replay(wit: dict[str, Any], ctx: Ctx) -> None:
    r = Runner(ctx)
    site = r.site_by_id.get(wit["site"])
    if site is None:
        print(f"replay C05: unknown site {wit['site']}")
        return
    shape, name, name2 = wit["shape"], wit["name"], wit.get("name2", "__mro__")
    mode, ae = wit.get("mode", "sync"), wit.get("auto_escape")
    ae = ae if isinstance(ae, str) and ae in CONFIGS else bool(ae)
    is_spy = shape in O.CLASSES
    print(f"replay C05: shape={shape} site={site['id']} name={name} name2={name2} mode={mode} auto_escape={ae}")
    kv = {"kind": wit.get("kind", ""), "variant": int(wit.get("variant", 0) or 0)}
    ctrl = r.execute(shape, site, CTRL, CTRL2, mode, ae, verbose=True, **kv)
    res = r.execute(shape, site, name, name2, mode, ae, verbose=True, **kv)
    print("source :", res["source"])
    print("outcome:", res.get("out") if res.get("ok") else (res.get("err"), res.get("msg")))
    print("control:", ctrl.get("out") if ctrl.get("ok") else (ctrl.get("err"), ctrl.get("msg")))
    print(f"attribute-read log ({res['events']} events; level, shape, name, caller file, caller function):")
    seen = set()
    for ev in res["trace"] or []:
        if ev not in seen:
            seen.add(ev)
            print("   ", ev)
    print("filter calls:")
    for c in res["calls"] or []:
        print("   ", c)
    print("findings:", res["bad"])
    r._account(shape, site, name, name2, mode, ae, res, is_spy, kv)
    vis = set(O.VISIBLE.get(shape, ())) | ENGINE_VISIBLE.get(shape, set()) | {"first", "last", "size"}
    vis |= site_visible(site)
    if "must-be-empty" in site["tags"] and res.get("ok") and res["out"].replace("|", "") != "":
        r._violation("engine-attr:now", "an attribute of the built-in datetime object was rendered",
                     shape, site, name, name2, mode, ae, res, None)
    if site["rel"] and name not in vis and name2 not in vis and ctrl.get("parsed"):
        digits = shape in ("now", "today") or site["id"].startswith(("eng.now", "eng.babel")) or ".date." in site["id"] or ".datetime." in site["id"]
        a = ("ok", _mask(res["out"], (name, name2, CTRL, CTRL2), digits)) if res.get("ok") else ("err", res["err"])
        b = ("ok", _mask(ctrl["out"], (name, name2, CTRL, CTRL2), digits)) if ctrl.get("ok") else ("err", ctrl["err"])
        print("relation:", "equal" if a == b else f"DIFFERENT {a!r} vs {b!r}")
        if a != b:
            r._violation(f"relation:{shape}:{site['id'].split('.')[0]}",
                         "a name the object does not expose behaves differently from a name that exists nowhere",
                         shape, site, name, name2, mode, ae, res, ctrl, kv=kv)
